"""Sequence sources of the forwarding engine (checks/fwdpart.py):
  - from_behaviour: a TLC behaviour of spec/Forward.tla (sends per connection, upstream breaks, leader gone/back, promote)
    concretised to requests on real connections of a follower / of the leader
  - gen_random: seeded histories with wider parameters than the model holds (several keys, shared Counts, re-entrant
    Rcounts, value frames, the concurrent-check flag, text and binary, via leader and via follower, value registers)
  - directed: the corner cases read off transparency.go (pipelined requests + upstream cut, first short text command,
    leader frozen, leader gone, CONFIG-state member, promotion between two requests of a connection, leader killed)
  - expiry histories (from_behaviour with `expire` steps of the model, gen_expiry, directed_expiry): a hold taken through a
    non-leader EXPIRES on the leader while the client connection stays open - the leader pushes an unsolicited EXPRIED frame
    with an already answered request id down the upstream link - and the connection goes on with further requests: short
    expiries in seconds and milliseconds, LOCK and the SET / SETEX / PSETEX style text commands (lock + value requests
    underneath), re-locks and updates (the hold's command - and so the notice's request id and route - changes), waiters
    granted at the expiry whose own hold expires next, waits that time out on the leader, the upstream cut / the client
    connection closed (pooled upstream re-used by another text connection) before the expiry."""
import random, struct

ZERO_AOF = 0x0100       # EXPRIED_FLAG_ZEOR_AOF_TIME: the hold is logged (and replicated) at once
TF_MS = 0x0400
EF_MS = 0x0400          # EXPRIED_FLAG_MILLISECOND_TIME
F_SHOW, F_UPDATE, F_CONC = 0x01, 0x02, 0x08
UF_FIRST, UF_CANCEL = 0x01, 0x02

def data_set(s):
    return struct.pack("<IBB", len(s) + 2, 0, 0) + s

def lock(key, lid, to=0, tf=0, ex=600, ef=ZERO_AOF, cnt=0, rc=0, flag=0, data=None):
    return {"cmd": "L", "key": key, "lid": lid, "to": to, "tf": tf, "ex": ex, "ef": ef, "cnt": cnt, "rc": rc, "flag": flag, "data": data}

def lockw(key, lid, ms=300, **kw):
    return lock(key, lid, to=ms, tf=TF_MS, **kw)

def unlock(key, lid, rc=0, long=False, flag=0):
    return {"cmd": "U", "key": key, "lid": lid, "to": 0, "tf": 0, "ex": 0, "ef": 0, "cnt": 0, "rc": rc, "flag": flag, "data": None, "long": long}

def lock_ms(key, lid, ms, **kw):
    """LOCK whose hold expires after `ms` milliseconds (logged at once like the others)."""
    return lock(key, lid, ex=ms, ef=ZERO_AOF | EF_MS, **kw)

def lock_s(key, lid, sec, **kw):
    return lock(key, lid, ex=sec, ef=ZERO_AOF, **kw)

def sset(key, val, ex=0, ms=False, form="set"):
    """text SET key val [EX s | PX ms] / SETEX / PSETEX: a lock + value request (LockId = key) whose hold carries the value."""
    return {"cmd": "S", "key": key, "val": val, "ex": ex, "ef": EF_MS if (ms and ex) else 0, "form": form}

def wait_notice(n, max_ms=3800, settle_ms=40):
    return {"op": "wait_notice", "n": n, "max_ms": max_ms, "settle_ms": settle_ms}

def send(c, q, pending=False):
    return {"op": "send", "c": c, "q": q, "expect_pending": pending}

# --------------------------------------------------------------------------------------------- TLC behaviours

def from_behaviour(seed, idx, hist, keybase):
    """hist: list of {op, c, rop, lid} from Forward!Export."""
    rng = random.Random(f"fwdbeh/{seed}/{idx}")
    key = keybase
    lidbase = keybase * 8
    conns = {}
    steps = []
    holder = None           # driver-side guess only used for the expect_pending hint (never for judging)
    vkeys = []
    waited = set()
    promote = False
    # `expire` steps of the model: the hold of LockId h.lid (command = request h.n, taken on connection h.c) expires on the
    # deciding engine.  Real holds expire on the leader's clock: every lock request of that LockId sent before the step gets a
    # short expiry (milliseconds, or one second), everybody else a long one, and the step waits for the leader's notice.
    exp_at = [i for i, h in enumerate(hist) if h["op"] == "expire"]
    def short_expiry(i, lid):
        nxt = [j for j in exp_at if j > i]
        if not nxt or hist[nxt[0]]["lid"] != lid:
            return None
        between = sum(1 for x in hist[i:nxt[0]] if x["op"] == "send")
        return between
    xrng = random.Random(f"fwdbehx/{seed}/{idx}")       # (a generator of its own: histories without an expiry stay what they were)
    sec_unit = xrng.random() < 0.2
    nnote = 0
    for hi, h in enumerate(hist):
        op = h["op"]
        if op == "expire" and h["lid"] == 99:
            continue        # (the hold of a key command: sent with a time of 600 s and more - not waited for)
        if op == "expire":
            cd = conns.get(h["c"])
            visible = cd is not None and (cd["node"] == "N" or cd["proto"] == "bin") and not promote
            if visible:
                nnote += 1
                steps.append(wait_notice(nnote, max_ms=3600 if sec_unit else 2200))
            else:
                steps.append({"op": "wait", "ms": 3200 if sec_unit else 900})
            holder = None
            continue
        if op == "send":
            c = h["c"]
            if c not in conns:
                if c.startswith("b"):
                    conns[c] = {"node": "N", "proto": "bin"}
                elif c.startswith("t"):
                    conns[c] = {"node": "N", "proto": "text"}
                else:
                    conns[c] = {"node": "L", "proto": rng.choice(["bin", "text"])}
            if h["rop"] in ("wset", "rget"):
                # the model's value commands: on a text connection one of the registered key commands of that class on the
                # history's value key, on a binary connection the lock frame of that class (update with data / show)
                vkey = keybase + 48
                if vkey not in vkeys:
                    vkeys.append(vkey)
                if conns[c]["proto"] == "text":
                    q = wcmd(xrng.choice([n for n in WRITE_CMDS if n != "SETNX"]), vkey, xrng) if h["rop"] == "wset" else vcmd(xrng.choice(READ_CMDS), vkey)
                elif h["rop"] == "wset":
                    q = lock(key, lidbase + 9, flag=F_UPDATE, data=data_set(b"w%d" % xrng.randrange(100)))
                else:
                    q = lock(key, lidbase + 9, flag=F_SHOW)
                steps.append(send(c, q))
                continue
            lid = lidbase + h["lid"]
            ef = ZERO_AOF if rng.random() < 0.8 else 0
            sh = short_expiry(hi, h["lid"]) if h["rop"] != "unlock" else None
            exkw = {}
            if sh is not None:
                exkw = {"ex": 1, "ef": ZERO_AOF} if sec_unit else {"ex": min(1500, 150 + 70 * sh + xrng.randrange(0, 60)), "ef": ZERO_AOF | EF_MS}
                ef = exkw["ef"]
            if h["rop"] == "unlock":
                q = unlock(key, lid, rc=2)          # one level, as in the model
                if holder == lid:
                    holder = None
                steps.append(send(c, q))
            elif h["rop"] == "lockr":
                # no wait, Rcount 2: the holder's re-lock is granted by the leader
                q = lock(key, lid, rc=2, ef=ef, ex=exkw.get("ex", rng.choice([600, 1800])))
                if holder is None:
                    holder = lid
                steps.append(send(c, q))
            elif h["rop"] == "lockcw" and lid not in waited:
                # concurrent-check flag WITH a wait time: never the follower's fast path
                waited.add(lid)
                q = lockw(key, lid, ms=rng.choice([150, 300]), ef=ef, flag=F_CONC, **({"ex": exkw["ex"]} if exkw else {}))
                pend = holder is not None
                if holder is None:
                    holder = lid
                steps.append(send(c, q, pending=pend))
            elif h["rop"] in ("lockw", "lockcw") and lid in waited:
                # (two requests QUEUED with one LockId are both granted - known finding A12, a C02 matter: not generated)
                q = lock(key, lid, ef=ef, **({"ex": exkw["ex"]} if exkw else {}))
                if holder is None:
                    holder = lid
                steps.append(send(c, q))
            elif h["rop"] == "lockw":
                waited.add(lid)
                q = lockw(key, lid, ms=rng.choice([150, 300]), ef=ef, **({"ex": exkw["ex"]} if exkw else {}))
                pend = holder is not None and holder != lid
                if holder is None:
                    holder = lid
                steps.append(send(c, q, pending=pend))
            elif h["rop"] == "lockc":
                q = lock(key, lid, flag=F_CONC, ef=ef, **({"ex": exkw["ex"]} if exkw else {}))
                if holder is None:
                    holder = lid
                steps.append(send(c, q))
            else:
                q = lock(key, lid, ef=ef, **({"ex": exkw["ex"]} if exkw else {}))
                if holder is None:
                    holder = lid
                steps.append(send(c, q))
        elif op == "break":
            steps.append({"op": "cut", "c": h["c"]})
        elif op == "gone":
            steps.append({"op": "gone"})
        elif op == "back":
            steps.append({"op": "back"})
        elif op == "promote":
            steps.append({"op": "promote"})
            promote = True
        elif op == "demote":
            break       # not provokable on the real server (SLAVEOF host port on a leader dead-locks in updateState)
    if exp_at:
        # nothing of this history may expire into the next one: the short holds are gone before the snapshot
        steps.append({"op": "wait", "ms": 60})
    return {"name": f"beh-{seed}-{idx}", "idx": idx, "kind": "promote" if promote else ("exp" if exp_at else "beh"), "keys": [key], "vkeys": vkeys, "conns": conns, "steps": steps,
            "src": "tlc", "hist": hist}

# --------------------------------------------------------------------------------------------- seeded random

def gen_random(seed, idx, keybase):
    """Wide alphabet: lock flags show / update / both / concurrent-check (with and without a wait), Rcount 0..2 with re-entrant
    re-locks and partial unlocks, shared keys (Count 0..3) next to exclusive ones, Timeout 0 and > 0, unlock-first and
    cancel-wait, expiry changes (600 / 1800 / 3000 s), value payloads - through follower and leader, binary and text."""
    rng = random.Random(f"fwdrnd/{seed}/{idx}")
    nk = rng.choice([1, 2, 2, 3])
    keys = [keybase + i for i in range(nk)]
    vkeys = [keybase + 5] if rng.random() < 0.3 else []
    lids = [keybase * 8 + i for i in range(1, 5)]
    conns = {"b1": {"node": "N", "proto": "bin"}, "b2": {"node": "N", "proto": "bin"}, "t1": {"node": "N", "proto": "text"},
             "t2": {"node": "N", "proto": "text"}, "d1": {"node": "L", "proto": "bin"}, "d2": {"node": "L", "proto": "text"}}
    cids = list(conns)
    via_n = ["b1", "b2", "b1", "b2", "t1", "t2"]
    # per key: exclusive or shared, re-entrant or not (the requests of a key mostly agree on Count / Rcount, as clients do)
    kcnt = {k: (rng.choice([1, 2, 3]) if rng.random() < 0.45 else 0) for k in keys}
    krc = {k: (rng.choice([1, 2]) if rng.random() < 0.5 else 0) for k in keys}
    steps = []
    held = {k: [] for k in keys}        # hint only (what the generator believes is held; never used for judging)
    waiting = {}                        # conn -> key it may still wait on (avoid using a blocked text connection)
    waited = set()
    n = rng.randrange(7, 16)
    for _ in range(n):
        r = rng.random()
        if vkeys and r < 0.15:
            c = rng.choice(["t1", "t2", "d2"])
            if rng.random() < 0.7:
                steps.append(send(c, {"cmd": "S", "key": vkeys[0], "val": "v%d" % rng.randrange(1000)}))
            else:
                steps.append(send(c, {"cmd": "G", "key": vkeys[0]}))
            continue
        k = rng.choice(keys)
        c = rng.choice(via_n) if rng.random() < 0.7 else rng.choice(["d1", "d2"])
        cnt = kcnt[k] if rng.random() < 0.85 else rng.choice([0, 1, 2, 3])
        rc = krc[k] if rng.random() < 0.85 else rng.choice([0, 1, 2])
        ef = ZERO_AOF if rng.random() < 0.75 else 0
        ex = rng.choice([600, 600, 1800, 3000])
        if r < 0.6:
            # half of the lock requests come from a LockId the generator believes is holding: re-lock, update, show
            lid = rng.choice(held[k]) if held[k] and rng.random() < 0.5 else rng.choice(lids)
            kind = rng.random()
            data = data_set(b"d%d" % rng.randrange(100)) if rng.random() < 0.2 else None
            pend = False
            if kind < 0.40:
                q = lock(k, lid, cnt=cnt, rc=rc, ef=ef, ex=ex, data=data)
            elif kind < 0.55 and (k, lid) not in waited:
                waited.add((k, lid))      # one queued request per key and LockId (finding A12 is not this property's business)
                q = lockw(k, lid, ms=rng.choice([100, 250]), cnt=cnt, rc=rc, ef=ef, ex=ex, data=data)
                pend = bool(held[k]) and lid not in held[k] and len(held[k]) > cnt
                if pend:
                    waiting[c] = k
            elif kind < 0.65:
                q = lock(k, lid, cnt=cnt, rc=rc, ef=ef, ex=ex, flag=F_CONC)
            elif kind < 0.72 and (k, lid) not in waited:
                waited.add((k, lid))
                q = lockw(k, lid, ms=rng.choice([100, 250]), cnt=cnt, rc=rc, ef=ef, ex=ex, flag=F_CONC)
                pend = len(held[k]) > cnt
                if pend:
                    waiting[c] = k
            elif kind < 0.86:
                q = lock(k, lid, cnt=cnt, rc=rc, ef=ef, ex=ex, flag=F_UPDATE, data=data)
            elif kind < 0.93:
                q = lock(k, lid, cnt=cnt, rc=rc, ef=ef, ex=ex, flag=F_SHOW)
            else:
                q = lock(k, lid, cnt=cnt, rc=rc, ef=ef, ex=ex, flag=F_SHOW | F_UPDATE)
            if len(held[k]) <= cnt or (rc and lid in held[k]):
                held[k].append(lid)
            steps.append(send(c, q, pending=pend))
        else:
            lid = rng.choice(held[k]) if held[k] and rng.random() < 0.8 else rng.choice(lids)
            cands = [x for x in ([c] + cids) if waiting.get(x) != k]
            c = cands[0] if cands else c
            if lid in held[k]:
                held[k].remove(lid)
            uf = rng.random()
            flag = 0 if uf < 0.75 else (UF_FIRST if uf < 0.9 else UF_CANCEL)
            steps.append(send(c, unlock(k, lid, rc=rc, long=rng.random() < 0.5, flag=flag)))
        if rng.random() < 0.1:
            steps.append({"op": "wait", "ms": rng.choice([20, 120, 300])})
    return {"name": f"rnd-{seed}-{idx}", "idx": idx, "kind": "rnd", "keys": keys, "vkeys": vkeys, "conns": conns, "steps": steps, "src": "seeded"}

# --------------------------------------------------------------------------------------------- directed

def directed(seed, idx0, keybase0, stride):
    """List of directed sequences (plain followers).  Each takes its own key range."""
    out = []
    def nxt(name, kind, keys, conns, steps, vkeys=(), **kw):
        i = len(out)
        d = {"name": f"dir-{name}", "idx": idx0 + i, "kind": kind, "keys": keys, "vkeys": list(vkeys), "conns": conns, "steps": steps, "src": "directed"}
        d.update(kw)
        out.append(d)
    def kb():
        return keybase0 + len(out) * stride
    B = {"node": "N", "proto": "bin"}; T = {"node": "N", "proto": "text"}; LB = {"node": "L", "proto": "bin"}; LT = {"node": "L", "proto": "text"}

    # 1. the same script through every route: leader binary, leader text, follower binary, follower text (fresh key each)
    k = kb(); l = k * 8
    steps = []
    for j, c in enumerate(["d1", "d2", "b1", "t1"]):
        kk = k + j
        steps += [send(c, lock(kk, l + 1)), send(c, lock(kk, l + 2)), send(c, lock(kk, l + 1)), send(c, unlock(kk, l + 2)), send(c, unlock(kk, l + 1)),
                  send(c, unlock(kk, l + 1)), send(c, lock(kk, l + 3, cnt=1)), send(c, lock(kk, l + 4, cnt=1)), send(c, lock(kk, l + 5, cnt=1)),
                  send(c, lock(kk, l + 3, cnt=1, rc=1)), send(c, unlock(kk, l + 3, rc=1)), send(c, unlock(kk, l + 4))]
    nxt("same-script-every-route", "dir", [k, k + 1, k + 2, k + 3], {"d1": LB, "d2": LT, "b1": B, "t1": T}, steps)

    # 1b. requests of a CURRENT HOLDER through every route: re-entrant re-locks, update / show when locked, concurrent check
    #     with and without a wait, partial unlocks, unlock-first, cancel-wait, an expiry change visible in the leader's snapshot
    k = kb(); l = k * 8
    steps = []
    for j, c in enumerate(["d1", "b1", "t1", "d2"]):
        kk = k + j
        o = "b2" if c != "b2" else "b1"
        steps += [send(c, lock(kk, l + 1, rc=2)), send(c, lock(kk, l + 1, rc=2)),             # re-lock: SUCCED, LCount 2
                  send(o, lock(kk, l + 2)),                                                   # contention: TIMEOUT
                  send(c, lock(kk, l + 1, rc=2)), send(c, lock(kk, l + 1, rc=2)),             # depth 3, then beyond Rcount
                  send(c, lock(kk, l + 1, rc=2, flag=F_UPDATE, ex=1800)),                     # update: LOCKED_ERROR + new deadline
                  send(o, lock(kk, l + 2, flag=F_SHOW)), send(o, lock(kk, l + 2, flag=F_SHOW | F_UPDATE)),
                  send(c, lock(kk, l + 1, rc=2, flag=F_SHOW)),
                  send(o, lock(kk, l + 2, flag=F_CONC)),                                      # the fast path (follower) / LockDB.Lock's own
                  send(c, lock(kk, l + 1, rc=2, flag=F_CONC)),
                  send(o, lockw(kk, l + 2, ms=120, flag=F_CONC), pending=True), {"op": "wait", "ms": 200},
                  send(c, unlock(kk, l + 1, rc=2)), send(c, unlock(kk, l + 1, rc=2)),         # partial unlocks
                  send(o, unlock(kk, l + 3, flag=UF_FIRST)),                                  # releases the oldest hold
                  send(c, lock(kk, l + 1, cnt=2, ex=3000)), send(o, lock(kk, l + 2, cnt=2)), send(c, lock(kk, l + 3, cnt=2)),
                  send(o, lock(kk, l + 4, cnt=2)),                                            # shared key full
                  send(o, lockw(kk, l + 4, ms=2000, cnt=2), pending=True), send(c, unlock(kk, l + 4, flag=UF_CANCEL)), {"op": "wait", "ms": 60},
                  send(c, lock(kk, l + 2, cnt=2, flag=F_UPDATE, ex=1800, data=data_set(b"upd")))]
    nxt("holder-requests-every-route", "dir", [k, k + 1, k + 2, k + 3], {"d1": LB, "d2": LT, "b1": B, "b2": dict(B), "t1": T}, steps)

    # 2. cross routes: a hold taken through one node is seen, waited for and released through the others
    k = kb(); l = k * 8
    steps = [send("b1", lock(k, l + 1)), send("d1", lock(k, l + 2)), send("t1", lock(k, l + 2)),
             send("t1", lockw(k, l + 3, ms=2000), pending=True), send("b2", lockw(k, l + 4, ms=2000), pending=True),
             send("d2", unlock(k, l + 1)), {"op": "wait", "ms": 60}, send("d1", unlock(k, l + 3)), {"op": "wait", "ms": 60},
             send("b1", unlock(k, l + 4)), send("t1", unlock(k, l + 4)),
             send("b1", lock(k + 1, l + 1, data=data_set(b"first"))), send("t1", lock(k + 1, l + 2)), send("d1", unlock(k + 1, l + 1)),
             send("t1", lock(k + 1, l + 2, data=data_set(b"second"))), send("b2", lock(k + 1, l + 3)), send("d2", lock(k + 1, l + 3))]
    nxt("cross-routes", "dir", [k, k + 1], {"b1": B, "b2": dict(B), "t1": T, "d1": LB, "d2": LT}, steps)

    # 3. pipelined requests in flight when the upstream breaks (rollbackLatestCommand answers the latest one only)
    k = kb(); l = k * 8
    steps = [send("d1", lock(k, l + 1)), {"op": "hold"},
             send("b1", lock(k, l + 2), pending=True), send("b1", lock(k + 1, l + 2), pending=True), send("b1", lock(k + 2, l + 2), pending=True),
             send("t1", lock(k + 3, l + 3), pending=True),
             {"op": "cut", "c": "b1"}, {"op": "cut", "c": "t1"}, {"op": "release"}, {"op": "wait", "ms": 80},
             send("b1", lock(k + 4, l + 2)), send("t1", lock(k + 4, l + 3)), send("b1", unlock(k + 4, l + 2))]
    nxt("pipelined-then-cut", "dir", [k, k + 1, k + 2, k + 3, k + 4], {"b1": B, "t1": T, "d1": LB}, steps)

    # 4. queued waiters behind a follower when their upstream breaks; the key is released afterwards
    k = kb(); l = k * 8
    steps = [send("d1", lock(k, l + 1)), send("b1", lockw(k, l + 2, ms=400), pending=True), send("t1", lockw(k, l + 3, ms=400), pending=True),
             {"op": "cut", "c": "b1"}, {"op": "cut", "c": "t1"}, {"op": "wait", "ms": 40}, send("d1", unlock(k, l + 1)), {"op": "wait", "ms": 500},
             send("b1", lock(k + 1, l + 2)), send("t1", lock(k + 1, l + 3))]
    nxt("waiters-then-cut", "dir", [k, k + 1], {"b1": B, "t1": T, "d1": LB}, steps)

    # 5. first command of a text connection on a follower, short (whole command in the first read) and long
    k = kb(); l = k * 8
    short_lock = dict(lock(k + 3, 0), nolid=True, to=15, ex=120, ef=0)       # "LOCK <key>": 53 bytes, the server picks the LockId
    short_unlock = dict(unlock(k + 3, 0), nolid=True)                       # "UNLOCK <key>": 55 bytes, LockId = the connection's last grant
    steps = [send("d1", lock(k, l + 1)), send("d1", lock(k + 1, l + 1)),
             send("t5", short_lock), send("t5", dict(short_lock)), send("t5", short_unlock),
             send("t6", dict(short_unlock)), send("d2", dict(short_lock)), send("d2", dict(short_unlock)),
             send("t1", unlock(k, l + 1)),                    # first command of the connection, 107 bytes: read in two pieces
             send("t1", unlock(k, l + 1)),                    # second command of the same connection
             send("t2", unlock(k + 1, l + 1, long=True)),     # long first command
             send("t3", {"cmd": "S", "key": k + 2, "val": "x"}), send("t3", {"cmd": "S", "key": k + 2, "val": "y"}), send("t3", {"cmd": "G", "key": k + 2}),
             send("t4", {"cmd": "D", "key": k + 2})]
    nxt("first-text-command", "dir", [k, k + 1, k + 3], {"t1": T, "t2": dict(T), "t3": dict(T), "t4": dict(T), "t5": dict(T), "t6": dict(T), "d1": LB, "d2": LT},
        steps, vkeys=[k + 2])

    # 6. leader frozen (SIGSTOP): nothing may be answered for a forwarded request until it runs again
    k = kb(); l = k * 8
    steps = [send("d1", lock(k, l + 1)), send("b1", lock(k + 1, l + 2)), send("t1", lock(k + 2, l + 3)),
             {"op": "stop_leader"},
             send("b1", lock(k, l + 2), pending=True), send("b1", unlock(k + 1, l + 2), pending=True), send("t1", unlock(k + 2, l + 3), pending=True),
             send("b2", lock(k + 3, l + 4), pending=True), send("b2", lock(k, l + 5, flag=F_CONC), pending=True),
             {"op": "wait", "ms": 250}, {"op": "cont_leader"}, {"op": "wait", "ms": 100},
             send("b1", lock(k + 1, l + 2)), send("t1", lock(k + 2, l + 3))]
    nxt("leader-frozen", "dir", [k, k + 1, k + 2, k + 3], {"b1": B, "b2": dict(B), "t1": T, "d1": LB}, steps, drain=2.0)

    # 7. leader unreachable for the follower: old connections, new connections, both protocols; back again
    k = kb(); l = k * 8
    steps = [send("d1", lock(k, l + 1)), send("b1", lock(k + 1, l + 2)), send("t1", lock(k + 2, l + 3)),
             send("b2", lockw(k, l + 4, ms=350), pending=True),
             {"op": "gone"},
             send("b1", unlock(k + 1, l + 2)), send("b1", lock(k + 3, l + 2)), send("t1", unlock(k + 2, l + 3)), send("t1", lock(k + 3, l + 3)),
             send("b3", lock(k + 3, l + 5)), send("t2", lock(k + 3, l + 6)), send("t2", unlock(k, l + 1, long=True)), send("b3", lock(k, l + 5, flag=F_CONC)),
             send("b3", lock(k + 3, l + 5, flag=F_CONC)),
             {"op": "back"}, {"op": "wait", "ms": 30},
             send("b1", unlock(k + 1, l + 2)), send("t1", unlock(k + 2, l + 3)), send("b3", lock(k + 3, l + 5)), send("t2", lock(k + 3, l + 6)),
             send("d1", unlock(k, l + 1))]
    nxt("leader-gone", "dir", [k, k + 1, k + 2, k + 3], {"b1": B, "b2": dict(B), "b3": dict(B), "t1": T, "t2": dict(T), "d1": LB}, steps, drain=1.0)

    # 8. a member in the CONFIG state (replset member without configuration): refuses everything
    k = kb(); l = k * 8
    G = {"node": "G", "proto": "bin"}; GT = {"node": "G", "proto": "text"}
    steps = [send("d1", lock(k, l + 1)), send("g1", lock(k, l + 2)), send("g1", unlock(k, l + 1)), send("g1", lock(k + 1, l + 2)), send("g1", lock(k, l + 2, flag=F_CONC)),
             send("g2", lock(k + 1, l + 3)), send("g2", unlock(k, l + 1)), send("g2", unlock(k, l + 1, long=True)), send("g1", lockw(k + 1, l + 2, ms=100))]
    nxt("config-state-member", "dir", [k, k + 1], {"g1": G, "g2": GT, "d1": LB}, steps)
    return out

def promote_seq(seed, idx, keybase, variant):
    """Role change between two requests of ONE connection (follower -> leader): run on a spare follower."""
    k = keybase; l = k * 8
    B = {"node": "N", "proto": "bin"}; T = {"node": "N", "proto": "text"}; LB = {"node": "L", "proto": "bin"}
    pre = [send("d1", lock(k, l + 1)), send("b1", lock(k + 1, l + 2)), send("t1", lock(k + 2, l + 3)), send("b1", lock(k, l + 2)), send("t1", lock(k, l + 3))]
    post = [send("b1", unlock(k, l + 1)),            # decided by N itself now: its replica holds it
            send("b1", lock(k, l + 2)),              # granted by N
            send("d1", lock(k, l + 5)),              # the old leader still holds k for l+1
            send("t1", unlock(k + 2, l + 3)), send("t1", lock(k + 2, l + 4)), send("t1", lock(k, l + 3)),
            send("b1", unlock(k + 1, l + 2)), send("b1", lock(k + 3, l + 2)), send("d1", lock(k + 3, l + 6)), send("d1", unlock(k, l + 1)),
            send("b2", lock(k, l + 7)), send("t2", lock(k + 1, l + 7))]
    if variant == 1:
        # a waiter forwarded before the promotion is still answered by the old leader through the old upstream
        pre.append(send("b2", lockw(k, l + 8, ms=400), pending=True))
        post = [send("d1", unlock(k, l + 1)), {"op": "wait", "ms": 60}] + post[1:]
    steps = pre + [{"op": "wait", "ms": 50}, {"op": "promote"}] + post
    return {"name": f"dir-promote-{variant}", "idx": idx, "kind": "promote", "keys": [k, k + 1, k + 2, k + 3], "vkeys": [],
            "conns": {"b1": B, "b2": dict(B), "t1": T, "t2": dict(T), "d1": LB}, "steps": steps, "src": "directed"}

def kill_seq(seed, idx, keybase):
    """Last sequence of a run: the leader process is killed with requests queued behind a follower."""
    k = keybase; l = k * 8
    B = {"node": "N", "proto": "bin"}; T = {"node": "N", "proto": "text"}; LB = {"node": "L", "proto": "bin"}
    steps = [send("d1", lock(k, l + 1)), send("b1", lock(k + 1, l + 2)), send("t1", lock(k + 2, l + 3)),
             send("b1", lockw(k, l + 2, ms=3000), pending=True), send("t1", lockw(k, l + 3, ms=3000), pending=True),
             {"op": "kill_leader"}, {"op": "wait", "ms": 100},
             send("b1", unlock(k + 1, l + 2)), send("t1", unlock(k + 2, l + 3)), send("b2", lock(k + 3, l + 4)), send("t2", lock(k + 3, l + 5)),
             send("b2", lock(k + 1, l + 4, flag=F_CONC)), send("t2", unlock(k + 1, l + 2, long=True))]
    return {"name": "dir-leader-killed", "idx": idx, "kind": "kill", "keys": [k, k + 1, k + 2, k + 3], "vkeys": [],
            "conns": {"b1": B, "b2": dict(B), "t1": T, "t2": dict(T), "d1": LB}, "steps": steps, "src": "directed", "drain": 0.6}

def replset_seq(seed, idx, keybase):
    """Leader -> follower between two requests of ONE connection: a 3-member replica set whose leader steps down."""
    k = keybase; l = k * 8
    A = {"node": "A", "proto": "bin"}; AT = {"node": "A", "proto": "text"}; B = {"node": "B", "proto": "bin"}; CT = {"node": "C", "proto": "text"}
    steps = [send("a1", lock(k, l + 1)), send("a2", lock(k + 1, l + 2)), send("b1", lock(k + 2, l + 3)), send("c1", lock(k + 3, l + 4)),
             send("a1", lock(k + 2, l + 1)), send("b1", lock(k, l + 3)), send("c1", unlock(k + 3, l + 4)),
             {"op": "wait", "ms": 200},
             {"op": "quit_leader", "meanwhile": [send("a3", lock(k + 4, l + 5))]},
             send("a1", unlock(k, l + 1)),          # the old leader's plain connection: re-dispatched, wrapped, forwarded to the new leader
             send("a1", lock(k, l + 6)), send("a2", unlock(k + 1, l + 2)), send("a2", lock(k + 1, l + 7)), send("a2", lock(k, l + 7)),
             send("b1", unlock(k + 2, l + 3)), send("b1", lock(k, l + 3)), send("c1", lock(k + 2, l + 4)), send("c1", lock(k + 3, l + 4)),
             send("a1", lockw(k + 3, l + 1, ms=2000), pending=True), send("b1", unlock(k + 3, l + 4)), {"op": "wait", "ms": 100},
             send("a1", unlock(k + 3, l + 1)), send("a3", unlock(k + 4, l + 5))]
    return {"name": "dir-replset-leader-steps-down", "idx": idx, "kind": "replset", "keys": [k, k + 1, k + 2, k + 3, k + 4], "vkeys": [],
            "conns": {"a1": A, "a2": AT, "a3": dict(A), "b1": B, "c1": CT}, "steps": steps, "src": "directed"}

# --------------------------------------------------------------------------------------------- expiry histories

def _visible(conns, c):
    """Is the leader's expiry notice for a hold taken on connection c seen by the driver (upstream link of N / binary client of L)?"""
    return conns[c]["node"] == "N" or conns[c]["proto"] == "bin"

def gen_expiry(seed, idx, keybase):
    """Seeded histories around EXPIRING holds: one to three holds with a short expiry (milliseconds, or one second) are taken
    through the non-leader (text and binary; LOCK, re-lock, update from another connection, SET / SETEX / PSETEX, a waiter that
    is granted at the expiry and whose own hold expires next) and on the leader; sometimes the upstream link is cut or the client
    connection closed before the expiry; the history waits for the leader's notices and then goes on with further requests on the
    SAME connections (new keys, the expired key again, unlocks of the expired LockId, value commands)."""
    rng = random.Random(f"fwdexp/{seed}/{idx}")
    l = keybase * 8
    B = {"node": "N", "proto": "bin"}; T = {"node": "N", "proto": "text"}
    conns = {"b1": dict(B), "b2": dict(B), "t1": dict(T), "t2": dict(T), "t3": dict(T), "d1": {"node": "L", "proto": "bin"}, "d2": {"node": "L", "proto": "text"}}
    nkey = [0]; nval = [0]; nlid = [0]
    keys, vkeys = [], []
    def newkey():
        k = keybase + (nkey[0] % 48); nkey[0] += 1
        if k not in keys:
            keys.append(k)
        return k
    def newval():
        k = keybase + 48 + (nval[0] % 16); nval[0] += 1          # (the caller reserves 64 keys: 48 lock keys, 16 value keys)
        if k in vkeys:
            return k
        vkeys.append(k)
        return k
    def newlid():
        nlid[0] += 1
        return l + nlid[0]
    steps = []
    nnote = 0
    gone_text = set()           # text connections that were closed and reopened (fresh server-side state)
    for rnd in range(rng.choice([1, 1, 2])):
        sec = rng.random() < 0.25
        def E():
            return 1 if sec else rng.randrange(110, 460)
        def mk(key, lid, ex, **kw):
            return lock_s(key, lid, ex, **kw) if sec else lock_ms(key, lid, ex, **kw)
        nh = rng.choice([1, 2, 2, 3])
        pool = ["t1", "t2", "b1", "b2", "d1"] + (["d2"] if rng.random() < 0.15 else [])
        via = []
        while len(via) < nh:
            c = rng.choice(["t1", "t2", "t1", "t2", "b1", "b2"] if rng.random() < 0.85 else pool)
            if c not in via:
                via.append(c)
        expired = {}            # conn -> list of (key, lid) whose holds are to expire (hints for the follow-up requests)
        blocked = set()
        maxe = 0
        for c in via:
            text = conns[c]["proto"] == "text"
            kind = rng.choice((["lock", "lock", "set", "setex", "relock", "update", "waiter"] if text else ["lock", "lock", "lock", "relock", "update", "waiter"]))
            ex = E(); maxe = max(maxe, ex)
            if kind == "lock":
                k, lid = newkey(), newlid()
                steps.append(send(c, mk(k, lid, ex, data=(data_set(b"x%d" % rng.randrange(99)) if rng.random() < 0.2 else None))))
                expired.setdefault(c, []).append((k, lid)); nnote += _visible(conns, c)
            elif kind in ("set", "setex"):
                k = newval()
                steps.append(send(c, sset(k, "v%d" % rng.randrange(1000), ex=ex, ms=not sec, form=kind)))
                if rng.random() < 0.3:
                    # a second write of the same key: an update of the held lock - ITS request id travels in the notice
                    ex = E() + 7; maxe = max(maxe, ex)
                    steps.append(send(c, sset(k, "w%d" % rng.randrange(1000), ex=ex, ms=not sec, form=rng.choice(["set", "setex"]))))
                expired.setdefault(c, []).append((k, k)); nnote += _visible(conns, c)
            elif kind == "relock":
                k, lid = newkey(), newlid()
                steps.append(send(c, mk(k, lid, ex, rc=2)))
                steps.append(send(c, mk(k, lid, ex, rc=2)))            # the second grant becomes the hold's command
                expired.setdefault(c, []).append((k, lid)); nnote += _visible(conns, c)
            elif kind == "update":
                # the hold is taken on c and UPDATED from o (same LockId, other expiry): the notice carries o's request id and
                # travels down o's route
                k, lid = newkey(), newlid()
                o = rng.choice([x for x in ["t1", "t2", "b1", "b2"] if x not in blocked])
                steps.append(send(c, mk(k, lid, (2 if sec else ex + 300))))
                steps.append(send(o, mk(k, lid, ex, flag=F_UPDATE)))
                expired.setdefault(o, []).append((k, lid)); nnote += _visible(conns, o)
            else:
                # a waiter behind a short hold: granted at the expiry (the holder's route gets the notice, the waiter's route the
                # grant), then the waiter's own short hold expires
                k, lid, lid2 = newkey(), newlid(), newlid()
                h = rng.choice([x for x in ["d1", "b1", "b2", "t1", "t2"] if x != c and x not in blocked])
                ex2 = E(); maxe = max(maxe, ex + ex2)
                steps.append(send(h, mk(k, lid, ex)))
                steps.append(send(c, lockw(k, lid2, ms=2500, ex=ex2, ef=ZERO_AOF | (0 if sec else EF_MS)), pending=True))
                blocked.add(c)
                expired.setdefault(h, []).append((k, lid)); expired.setdefault(c, []).append((k, lid2))
                nnote += _visible(conns, h) + _visible(conns, c)
        # requests of OTHER connections meanwhile
        for _ in range(rng.choice([0, 0, 1, 2])):
            o = rng.choice([x for x in ["b1", "b2", "t1", "t2", "d1", "d2"] if x not in via and x not in blocked] or ["d1"])
            steps.append(send(o, lock(newkey(), newlid())))
        # a disturbance before the expiry
        r = rng.random()
        ncand = [c for c in expired if conns[c]["node"] == "N" and c not in blocked]
        if r < 0.12 and ncand:
            c = rng.choice(ncand)
            steps.append({"op": "cut", "c": c})
            nnote -= len(expired[c])            # the notice has no route any more
        elif r < 0.24 and [c for c in ncand if conns[c]["proto"] == "text"]:
            # the text connection is closed: its pooled upstream link goes to the next text connection that needs one - the
            # notice of the old connection's hold arrives on a link that now serves somebody else
            c = rng.choice([c for c in ncand if conns[c]["proto"] == "text"])
            steps.append({"op": "reconnect", "c": c})
            o = "t3"
            steps.append(send(o, lock(newkey(), newlid())))
            expired.setdefault(o, [])
            gone_text.add(c)
        steps.append(wait_notice(max(nnote, 0), max_ms=(3900 if sec else maxe + 1600)))
        # the connections go on
        order = list(expired)
        rng.shuffle(order)
        for _ in range(rng.randrange(2, 5)):
            for c in order:
                text = conns[c]["proto"] == "text"
                x = rng.random()
                if expired[c] and x < 0.25:
                    k, lid = rng.choice(expired[c])
                    if k in vkeys:
                        steps.append(send(c, rng.choice([{"cmd": "G", "key": k}, {"cmd": "D", "key": k}, sset(k, "n%d" % rng.randrange(100))])) if text else send(c, lock(newkey(), newlid())))
                    else:
                        steps.append(send(c, rng.choice([unlock(k, lid), lock(k, lid), lock(k, newlid())])))
                elif text and x < 0.40:
                    k = rng.choice(vkeys) if vkeys and rng.random() < 0.5 else newval()
                    steps.append(send(c, rng.choice([sset(k, "p%d" % rng.randrange(100)), {"cmd": "G", "key": k}, {"cmd": "D", "key": k}])))
                elif x < 0.75:
                    k, lid = newkey(), newlid()
                    steps.append(send(c, lock(k, lid, cnt=rng.choice([0, 0, 1]), rc=rng.choice([0, 0, 1]))))
                    if rng.random() < 0.6:
                        steps.append(send(c, unlock(k, lid)))
                        if rng.random() < 0.5:
                            steps.append(send(c, lock(k, lid)))
                else:
                    k, lid = newkey(), newlid()
                    steps.append(send(c, lock(k, lid, flag=rng.choice([0, F_SHOW, F_UPDATE, F_CONC]))))
    return {"name": f"exp-{seed}-{idx}", "idx": idx, "kind": "exp", "keys": keys, "vkeys": vkeys, "conns": conns, "steps": steps, "src": "seeded-expiry"}

def directed_expiry(seed, idx0, keybase0, stride):
    """Directed expiry histories (plain followers); each takes its own key range."""
    out = []
    def nxt(name, keys, conns, steps, vkeys=()):
        i = len(out)
        out.append({"name": f"dir-{name}", "idx": idx0 + i, "kind": "exp", "keys": keys, "vkeys": list(vkeys), "conns": conns, "steps": steps, "src": "directed"})
    def kb():
        return keybase0 + len(out) * stride
    B = {"node": "N", "proto": "bin"}; T = {"node": "N", "proto": "text"}; LB = {"node": "L", "proto": "bin"}; LT = {"node": "L", "proto": "text"}

    # 1. the same script on every route: a hold with a one-second expiry is left to expire, then LOCK / UNLOCK / LOCK of another key
    #    (on the text routes the UNLOCK names no LockId: the connection's remembered one is used)
    k = kb(); l = k * 8
    steps, n = [], 0
    for j, c in enumerate(["d2", "t1", "b1", "d1"]):
        steps.append(send(c, lock_s(k + j, l + 1 + j, 1)))
    steps.append(wait_notice(3, max_ms=3900, settle_ms=60))
    steps.append({"op": "wait", "ms": 150})
    for j, c in enumerate(["d2", "t1", "b1", "d1"]):
        kk = k + 4 + j
        steps += [send(c, lock(kk, l + 9 + j)), send(c, unlock(kk, l + 9 + j)), send(c, lock(kk, l + 9 + j)), send(c, unlock(k + j, l + 1 + j))]
    nxt("expiry-seconds-every-route", list(range(k, k + 8)), {"d1": LB, "d2": LT, "b1": B, "t1": T}, steps)

    # 2. milliseconds, twice on each connection (the second notice of a connection follows answered requests of its own)
    k = kb(); l = k * 8
    steps = []
    for j, c in enumerate(["t1", "b1", "t2"]):
        steps.append(send(c, lock_ms(k + j, l + 1 + j, 180 + 40 * j)))
    steps.append(wait_notice(3, max_ms=2500))
    for j, c in enumerate(["t1", "b1", "t2"]):
        steps += [send(c, lock(k + 3 + j, l + 5 + j)), send(c, lock_ms(k + j, l + 1 + j, 200)), send(c, unlock(k + 3 + j, l + 5 + j))]
    steps.append(wait_notice(6, max_ms=2500))
    for j, c in enumerate(["t1", "b1", "t2"]):
        steps += [send(c, lock(k + 3 + j, l + 8 + j)), send(c, lock(k + j, l + 1 + j)), send(c, unlock(k + j, l + 1 + j)), send(c, unlock(k + 3 + j, l + 8 + j))]
    nxt("expiry-milliseconds-twice", list(range(k, k + 6)), {"t1": T, "t2": dict(T), "b1": B}, steps)

    # 3. value commands with an expiry through a non-leader and on the leader: SET EX / SET PX / SETEX / PSETEX, then GET / SET / DEL
    k = kb(); l = k * 8
    steps = [send("t1", sset(k + 10, "a", ex=1)), send("t2", sset(k + 11, "b", ex=250, ms=True)),
             send("t3", sset(k + 12, "c", ex=1, form="setex")), send("t4", sset(k + 13, "d", ex=300, ms=True, form="setex")),
             send("d2", sset(k + 14, "e", ex=250, ms=True)),
             wait_notice(4, max_ms=3900, settle_ms=60)]
    for j, c in enumerate(["t1", "t2", "t3", "t4", "d2"]):
        steps += [send(c, {"cmd": "G", "key": k + 10 + j}), send(c, sset(k + 10 + j, "n%d" % j)), send(c, {"cmd": "G", "key": k + 10 + j}),
                  send(c, lock(k + j, l + 1 + j)), send(c, {"cmd": "D", "key": k + 10 + j}), send(c, unlock(k + j, l + 1 + j))]
    nxt("expiry-value-commands", list(range(k, k + 5)), {"t1": T, "t2": dict(T), "t3": dict(T), "t4": dict(T), "d2": LT}, steps, vkeys=list(range(k + 10, k + 15)))

    # 4. a waiter granted at the expiry; its own hold expires next; a wait that times out on the leader
    k = kb(); l = k * 8
    steps = [send("b1", lock_ms(k, l + 1, 250)), send("t1", lockw(k, l + 2, ms=2500, ex=300, ef=ZERO_AOF | EF_MS), pending=True),
             send("d1", lock(k + 1, l + 3)), send("t2", lockw(k + 1, l + 4, ms=200), pending=True), send("b2", lockw(k + 1, l + 5, ms=260), pending=True),
             wait_notice(2, max_ms=3000),
             send("t1", lock(k + 2, l + 2)), send("t1", unlock(k + 2, l + 2)), send("t1", lock(k, l + 2)),
             send("b1", lock(k + 2, l + 1)), send("b1", unlock(k, l + 1)),
             send("t2", lock(k + 3, l + 4)), send("t2", unlock(k + 3, l + 4)), send("b2", lock(k + 3, l + 5)), send("t2", lock(k + 1, l + 4)),
             send("d1", unlock(k + 1, l + 3))]
    nxt("expiry-waiter-granted", [k, k + 1, k + 2, k + 3], {"b1": B, "b2": dict(B), "t1": T, "t2": dict(T), "d1": LB}, steps)

    # 5. the hold's command changes: re-lock within Rcount, update from another connection (the notice follows the LAST command)
    k = kb(); l = k * 8
    steps = [send("t1", lock_ms(k, l + 1, 900, rc=2)), send("t1", lock_ms(k, l + 1, 260, rc=2)),
             send("t2", lock_ms(k + 1, l + 2, 900)), send("b1", lock_ms(k + 1, l + 2, 240, flag=F_UPDATE)),
             send("b2", lock_ms(k + 2, l + 3, 900)), send("t3", lock_ms(k + 2, l + 3, 280, flag=F_UPDATE)),
             wait_notice(3, max_ms=3000, settle_ms=60),
             send("t1", lock(k + 3, l + 1)), send("t1", unlock(k + 3, l + 1)), send("t2", lock(k + 3, l + 2)), send("t2", unlock(k + 3, l + 2)),
             send("t3", lock(k + 3, l + 3)), send("t3", unlock(k + 3, l + 3)), send("b1", lock(k + 3, l + 4)), send("b2", lock(k + 3, l + 5)),
             send("t1", lock(k, l + 1)), send("t3", lock(k + 2, l + 9))]
    nxt("expiry-relock-and-update", [k, k + 1, k + 2, k + 3], {"t1": T, "t2": dict(T), "t3": dict(T), "b1": B, "b2": dict(B)}, steps)

    # 6. no route for the notice: upstream cut before the expiry; client connection closed (its pooled upstream link is taken over
    #    by another text connection before the notice comes)
    k = kb(); l = k * 8
    steps = [send("t1", lock_ms(k, l + 1, 300)), send("b1", lock_ms(k + 1, l + 2, 300)), send("t2", lock_ms(k + 2, l + 3, 320)),
             {"op": "cut", "c": "t1"}, {"op": "cut", "c": "b1"}, {"op": "reconnect", "c": "t2"},
             send("t3", lock(k + 3, l + 4)),
             wait_notice(1, max_ms=1500, settle_ms=60),
             send("t3", unlock(k + 3, l + 4)), send("t3", lock(k + 2, l + 4)),
             send("t1", lock(k + 4, l + 1)), send("t1", unlock(k + 4, l + 1)), send("t1", lock(k, l + 1)),
             send("b1", lock(k + 4, l + 2)), send("b1", lock(k + 1, l + 2)),
             send("t2", lock(k + 4, l + 3)), send("t2", lock(k + 5, l + 3)), send("t2", unlock(k + 5, l + 3))]
    nxt("expiry-without-route", [k, k + 1, k + 2, k + 3, k + 4, k + 5], {"t1": T, "t2": dict(T), "t3": dict(T), "b1": B}, steps)
    return out

# --------------------------------------------------------------------------------------------- the text key commands

# every key command registered in the text dispatch tables (server/protocol.go TextServerProtocol.FindHandler,
# server/transparency.go TransparencyTextServerProtocol.FindHandler) beside LOCK / UNLOCK / PUSH.  Which of them change engine
# state on a leader (write class) is data of the specification (spec/mon/MonForward.tla WriteNames / ReadNames, spec/Forward.tla
# WriteOps / ReadOps); the two lists here only steer the generators (a write is followed by reads).
WRITE_CMDS = ["SET", "SETNX", "SETEX", "PSETEX", "GETSET", "APPEND", "INCR", "INCRBY", "DECR", "DECRBY", "EXPIRE", "PEXPIRE", "EXPIREAT", "PEXPIREAT",
              "PERSIST", "DEL"]
READ_CMDS = ["GET", "STRLEN", "EXISTS", "TYPE", "DUMP", "TTL", "PTTL", "KEYS", "SCAN"]

def vcmd(name, key, val="", num=0):
    return {"cmd": "V", "name": name, "key": key, "val": val, "num": num}

def conn_timeout0(key):
    """TIMEOUT SET 0: the connection's own wait time for the commands that wait (SETNX / SET .. NX on a key that exists would wait
    15 s).  A connection-local command: handled by the node the connection is on, leader or not."""
    return {"cmd": "C", "name": "TIMEOUT", "key": key, "val": "", "num": 0}

def push(key, lid, ex=600):
    return {"cmd": "P", "key": key, "lid": lid, "to": 0, "tf": 0, "ex": ex, "ef": ZERO_AOF, "cnt": 0, "rc": 0, "flag": 0, "data": None}

def wcmd(name, key, rng=None, val=None, num=None):
    """One write command with arguments that keep the key alive for the whole history (times of 600 s and more)."""
    r = rng or random
    if name in ("SET", "SETNX", "GETSET", "APPEND"):
        return vcmd(name, key, val=val if val is not None else "v%d" % r.randrange(1000))
    if name == "SETEX":
        return vcmd(name, key, val=val if val is not None else "x%d" % r.randrange(1000), num=num or 600)
    if name == "PSETEX":
        return vcmd(name, key, val=val if val is not None else "p%d" % r.randrange(1000), num=num or 700000)
    if name in ("INCRBY", "DECRBY"):
        return vcmd(name, key, num=num or r.randrange(1, 10))
    if name in ("EXPIRE", "EXPIREAT"):
        return vcmd(name, key, num=num or 600)
    if name in ("PEXPIRE", "PEXPIREAT"):
        return vcmd(name, key, num=num or 700000)
    return vcmd(name, key)

def directed_values(seed, idx0, keybase0, stride):
    """Directed histories over the whole text command table (plain followers); stride >= 64 keys each."""
    out = []
    def nxt(name, keys, conns, steps, vkeys=()):
        i = len(out)
        out.append({"name": f"dir-{name}", "idx": idx0 + i, "kind": "val", "keys": keys, "vkeys": list(vkeys), "conns": conns, "steps": steps, "src": "directed"})
    def kb():
        return keybase0 + len(out) * stride
    T = {"node": "N", "proto": "text"}; LT = {"node": "L", "proto": "text"}; LB = {"node": "L", "proto": "bin"}; B = {"node": "N", "proto": "bin"}
    numeric = ("INCR", "INCRBY", "DECR", "DECRBY")

    # 1. / 2. every write command through a follower - as a NON-first command of its connection - on a key that exists and on a
    #    key that does not; each followed by reads of the key on the LEADER and, after replication, on the follower
    for variant in ("on-existing-keys", "on-absent-keys"):
        k = kb()
        steps = [send("t1", conn_timeout0(k + 40)), send("t2", conn_timeout0(k + 40)), send("d2", conn_timeout0(k + 40))]
        vk = [k + 40]
        for j, name in enumerate(WRITE_CMDS):
            kk = k + j; vk.append(kk)
            if variant == "on-existing-keys" and name != "SETNX":
                steps.append(send("d2", vcmd("INCRBY", kk, num=5) if name in numeric else sset(kk, "old%d" % j)))
            c = ("t1", "t2")[j % 2]
            steps.append(send(c, wcmd(name, kk, val="new%d" % j, num={"INCRBY": 3, "DECRBY": 2}.get(name))))
            steps += [send("d2", {"cmd": "G", "key": kk}), send("d2", vcmd("EXISTS", kk)), send("d2", vcmd("STRLEN", kk)),
                      {"op": "wait", "ms": 15}, send(c, {"cmd": "G", "key": kk})]
        nxt("every-write-command-through-a-follower-" + variant, [], {"t1": T, "t2": dict(T), "d2": LT}, steps, vkeys=vk)

    # 3. the same write commands sent to the leader itself (the reference route), twice each: the second one meets the first's value
    k = kb()
    steps, vk = [send("d2", conn_timeout0(k + 40))], [k + 40]
    for j, name in enumerate(WRITE_CMDS):
        kk = k + j; vk.append(kk)
        steps += [send("d2", wcmd(name, kk, val="a%d" % j, num={"INCRBY": 3, "DECRBY": 2}.get(name))), send("d2", {"cmd": "G", "key": kk}),
                  send("d2", wcmd(name, kk, val="b%d" % j, num={"INCRBY": 4, "DECRBY": 1}.get(name))), send("d2", {"cmd": "G", "key": kk}), send("d2", vcmd("STRLEN", kk))]
    nxt("every-write-command-on-the-leader", [], {"d2": LT}, steps, vkeys=vk)

    # 4. every read command through a follower (answered from the replica) and on the leader: string, number, key with a
    #    time-to-live, absent key
    k = kb()
    vk = [k, k + 1, k + 2, k + 3, k + 40]
    steps = [send("d2", sset(k, "hello")), send("d2", vcmd("INCRBY", k + 1, num=41)), send("d2", vcmd("SETEX", k + 2, val="timed", num=900)),
             send("t1", {"cmd": "G", "key": k + 40}), {"op": "wait", "ms": 30}]
    for kk in (k, k + 1, k + 2, k + 3):
        for name in READ_CMDS:
            steps += [send("t1", vcmd(name, kk)), send("d2", vcmd(name, kk))]
    nxt("every-read-command-through-a-follower", [], {"t1": T, "d2": LT}, steps, vkeys=vk)

    # 5. a chain of writes to ONE key through alternating routes: each command meets the value the previous one left
    k = kb()
    steps = [send("t1", conn_timeout0(k + 40)), send("t2", conn_timeout0(k + 40)), send("d2", conn_timeout0(k + 40))]
    chain = [("t1", vcmd("SETNX", k, val="one")), ("d2", vcmd("GETSET", k + 1, val="x")), ("t2", vcmd("GETSET", k + 1, val="two")), ("t1", vcmd("APPEND", k + 1, val="-three")),
             ("d2", vcmd("APPEND", k + 1, val="+4")), ("t2", vcmd("GETSET", k + 1, val="five")), ("t1", vcmd("EXPIRE", k + 1, num=900)), ("t2", vcmd("PERSIST", k + 1)),
             ("t1", vcmd("INCR", k + 2)), ("t2", vcmd("INCRBY", k + 2, num=7)), ("d2", vcmd("DECR", k + 2)), ("t1", vcmd("DECRBY", k + 2, num=3)), ("t2", vcmd("GETSET", k + 2, val="str")),
             ("t1", vcmd("DEL", k + 1)), ("t2", vcmd("GETSET", k + 1, val="again")), ("t1", vcmd("DEL", k)), ("t2", vcmd("SETNX", k, val="fresh")),
             ("t1", vcmd("SETEX", k + 3, val="s", num=900)), ("t2", vcmd("PSETEX", k + 3, val="ps", num=800000)), ("t1", vcmd("GETSET", k + 3, val="plain"))]
    for c, q in chain:
        steps += [send(c, q), send("d2", {"cmd": "G", "key": q["key"]}), {"op": "wait", "ms": 10}, send("t1" if c != "t1" else "t2", vcmd("STRLEN", q["key"]))]
    nxt("write-chain-through-alternating-routes", [], {"t1": T, "t2": dict(T), "d2": LT}, steps, vkeys=[k, k + 1, k + 2, k + 3, k + 40])

    # 6. PUSH (a LOCK without an answer of its own) through a follower and on the leader; a write command as the FIRST command of
    #    a text connection (run by the inner table: refused - the known first-command deviation)
    k = kb(); l = k * 8
    steps = [send("t1", {"cmd": "G", "key": k + 40}), send("t1", push(k, l + 1)), {"op": "wait", "ms": 40}, send("d1", lock(k, l + 2)), send("t1", unlock(k, l + 1)),
             send("d2", push(k + 1, l + 3)), {"op": "wait", "ms": 20}, send("b1", lock(k + 1, l + 4)), send("d2", unlock(k + 1, l + 3)),
             send("t3", vcmd("INCR", k + 41)), send("t3", vcmd("INCR", k + 41)), send("t4", vcmd("GETSET", k + 42, val="n")), send("t4", vcmd("GETSET", k + 42, val="m")),
             send("d2", {"cmd": "G", "key": k + 41}), send("d2", {"cmd": "G", "key": k + 42})]
    nxt("push-and-first-command-writes", [k, k + 1], {"t1": T, "t3": dict(T), "t4": dict(T), "b1": B, "d1": LB, "d2": LT}, steps, vkeys=[k + 40, k + 41, k + 42])
    return out

def gen_values(seed, idx, keybase):
    """Seeded histories over the whole text command table: two to four value keys, write commands through the non-leader (never as
    the first command of a connection) and on the leader, each write followed by reads of the key on the LEADER and on the
    follower; times to live of 600 s and more (the expiry histories have the short ones)."""
    rng = random.Random(f"fwdval/{seed}/{idx}")
    T = {"node": "N", "proto": "text"}
    conns = {"t1": dict(T), "t2": dict(T), "d2": {"node": "L", "proto": "text"}}
    nk = rng.choice([2, 3, 3, 4])
    vkeys = [keybase + i for i in range(nk)] + [keybase + 40]
    steps = [send("t1", conn_timeout0(keybase + 40)), send("t2", conn_timeout0(keybase + 40)), send("d2", conn_timeout0(keybase + 40))]
    kind = {}            # generator's guess of what a key holds ("s" / "n" / None): steers the choice only
    numeric = ("INCR", "INCRBY", "DECR", "DECRBY")
    for _ in range(rng.randrange(9, 18)):
        k = rng.choice(vkeys[:-1])
        c = rng.choice(["t1", "t2", "t1", "t2", "d2"])
        if rng.random() < 0.8:
            names = [n for n in WRITE_CMDS if rng.random() < 0.1 or not ((n in numeric and kind.get(k) == "s") or (n == "APPEND" and kind.get(k) == "n"))]
            name = rng.choice(names)
            steps.append(send(c, wcmd(name, k, rng)))
            if name in numeric:
                kind[k] = kind.get(k) or "n"
            elif name == "DEL":
                kind[k] = None
            elif name in ("SET", "GETSET", "SETEX", "PSETEX") or (name in ("SETNX", "APPEND") and kind.get(k) is None):
                kind[k] = "s"
            if rng.random() < 0.7:
                steps.append(send("d2", rng.choice([{"cmd": "G", "key": k}, {"cmd": "G", "key": k}, vcmd("STRLEN", k), vcmd("EXISTS", k)])))
            if rng.random() < 0.35:
                steps += [{"op": "wait", "ms": 10}, send(rng.choice(["t1", "t2"]), vcmd(rng.choice(READ_CMDS), k))]
        else:
            steps.append(send(c, vcmd(rng.choice(READ_CMDS), k)))
    return {"name": f"val-{seed}-{idx}", "idx": idx, "kind": "val", "keys": [], "vkeys": vkeys, "conns": conns, "steps": steps, "src": "seeded-values"}

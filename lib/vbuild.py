"""Build helpers: compile the in-package harness (injected with -overlay) from /repo's working tree."""
import json, os, subprocess, tempfile, shutil, glob, hashlib

REPO = os.environ.get("VERIF_REPO", "/repo")
VERIF = os.path.dirname(os.path.dirname(os.path.abspath(__file__)))
GOENV = dict(os.environ, GOFLAGS="-mod=mod", GOPROXY="off", GOSUMDB="off", GOTOOLCHAIN="local")

class InfraError(Exception):
    pass

def scratch(prefix="vf_"):
    base = os.environ.get("VERIF_SCRATCH", "/tmp")
    return tempfile.mkdtemp(prefix=prefix, dir=base)

def build_inpkg(pkg, outdir, tags="verif"):
    """Compile the test binary of /repo/<pkg> with the harness files of harness/inpkg/<pkg> overlaid.
    Returns the path of the test binary.  Always rebuilds from the current working tree."""
    src = os.path.join(VERIF, "harness", "inpkg", pkg)
    repl = {}
    for f in sorted(glob.glob(os.path.join(src, "*.go"))):
        repl[os.path.join(REPO, pkg, os.path.basename(f))] = f
    ovl = os.path.join(outdir, f"overlay_{pkg.replace('/', '_')}.json")
    with open(ovl, "w") as fh:
        json.dump({"Replace": repl}, fh)
    binpath = os.path.join(outdir, f"{pkg.replace('/', '_')}.test")
    cmd = ["go", "test", "-c", "-tags", tags, "-vet=off", "-overlay", ovl, "-o", binpath, "./" + pkg + "/"]
    p = subprocess.run(cmd, cwd=REPO, env=GOENV, capture_output=True, text=True)
    if p.returncode != 0:
        raise InfraError("build of in-package harness failed:\n" + p.stdout + p.stderr)
    return binpath

def run_test(binpath, testname, env, cwd, timeout=600):
    e = dict(GOENV)
    e.update(env)
    # everything the driver creates with os.MkdirTemp (scratch worlds, data directories) lives under the check's own
    # scratch directory and goes away with it
    e.setdefault("TMPDIR", cwd)
    p = subprocess.run([binpath, "-test.run", "^" + testname + "$", "-test.count=1", "-test.timeout", str(timeout) + "s"],
                       cwd=cwd, env=e, capture_output=True, text=True, timeout=timeout + 30)
    return p

def repo_clean_guard():
    p = subprocess.run(["git", "-C", REPO, "status", "--porcelain", "--untracked-files=all"], capture_output=True, text=True)
    return p.stdout

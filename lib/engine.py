"""Engine drivers: run scenario shards through the in-package harness, validate traces with TLC."""
import json, os, subprocess, time, concurrent.futures as cf
import vbuild, vtlc
from vbuild import InfraError, VERIF

NCPU = int(os.environ.get("VERIF_CPUS", "16"))

def shard(items, n):
    n = max(1, min(n, len(items)))
    out = [[] for _ in range(n)]
    for i, it in enumerate(items):
        out[i % n].append(it)
    return [s for s in out if s]

def run_harness(binpath, testname, scenarios, workdir, tag="s", nshards=None, timeout=900, extra_env=None):
    """Returns list of (scenario_file, trace_file)."""
    os.makedirs(workdir, exist_ok=True)
    shards = shard(scenarios, nshards or NCPU)
    jobs = []
    for i, sh in enumerate(shards):
        fin = os.path.join(workdir, f"{tag}_in_{i}.ndjson")
        fout = os.path.join(workdir, f"{tag}_trace_{i}.ndjson")
        with open(fin, "w") as fh:
            for sc in sh:
                fh.write(json.dumps(sc) + "\n")
        jobs.append((fin, fout))
    def one(job):
        fin, fout = job
        env = {"VERIF_IN": fin, "VERIF_OUT": fout}
        if extra_env:
            env.update(extra_env)
        p = vbuild.run_test(binpath, testname, env, cwd=workdir, timeout=timeout)
        return job, p
    res = []
    with cf.ThreadPoolExecutor(max_workers=NCPU) as ex:
        for job, p in ex.map(one, jobs):
            if p.returncode != 0 or "PASS" not in p.stdout:
                # a panic / crash of the real code inside the harness is reported to the caller
                res.append((job[0], job[1], p))
            else:
                res.append((job[0], job[1], None))
    return res

MON_CFG = '''SPECIFICATION Spec
CONSTANTS
  TraceFile = "%(trace)s"
  Props = {%(props)s}
POSTCONDITION TraceConsumed
CHECK_DEADLOCK FALSE
'''

def monitor_traces(module, traces, props, workdir, timeout=900, specdirs=None):
    """Validate each trace file with the TLA+ monitor `module`.  Returns (viols, stats) where viols
    is a list of dicts (with 'file'), stats has events/states counts.  Raises InfraError when TLC
    does not consume a trace completely."""
    specdirs = specdirs or [os.path.join(VERIF, "spec", "mon")]
    def one(arg):
        i, tr = arg
        cfg = MON_CFG % {"trace": tr, "props": ", ".join('"%s"' % p for p in props)}
        wd = os.path.join(workdir, f"tlc_{module}_{i}")
        r = vtlc.run_tlc(specdirs, module, cfg, wd, workers=1, timeout=timeout)
        return tr, r
    viols, nstates, nev = [], 0, 0
    with cf.ThreadPoolExecutor(max_workers=NCPU) as ex:
        for tr, r in ex.map(one, list(enumerate(traces))):
            out = r["out"]
            st = vtlc.parse_stats(out)
            if r["rc"] == -9:
                raise InfraError(f"TLC timed out on {tr}")
            if "No error has been found" not in out or st is None:
                raise InfraError(f"TLC did not accept the trace file {tr} completely (monitor/infra problem, not a verdict):\n" + out[-3000:])
            nstates += st["distinct"]
            with open(tr) as fh:
                n = sum(1 for _ in fh)
            nev += n
            if st["distinct"] != n + 1:
                raise InfraError(f"trace {tr}: {n} events but {st['distinct']} monitor states")
            for v in vtlc.parse_viols(out):
                v["file"] = tr
                viols.append(v)
    return viols, {"monitor_states": nstates, "events": nev}


# ------------------------------------------------------------------ a harness process died
import re as _re

def parse_go_crash(text):
    """-> (message, frame) of a Go panic / fatal error in `text`; frame = first stack frame that lies in the repository
    under test (function + file:line), or None when the text shows no such crash (e.g. a test timeout)."""
    m = _re.search(r"^(panic: .*|fatal error: .*)$", text, _re.M)
    if not m or "test timed out" in m.group(1):
        return None
    msg = m.group(1)
    rest = text[m.end():]
    lines = rest.splitlines()
    for i in range(len(lines) - 1):
        fn, loc = lines[i].strip(), lines[i + 1].strip()
        if fn.startswith("github.com/snower/slock/") and loc.startswith("/") and ".go:" in loc:
            path = loc.split(" ")[0]
            return msg, {"func": fn.split("(0x")[0].replace("github.com/snower/slock/", ""), "at": "/".join(path.split("/")[-2:])}
    return msg, None

def crash_verdict(prop, binpath, testname, fin, fout, p, workdir, code="code-under-test-panicked", timeout=300, extra_env=None):
    """A driver process died.  If it died of a Go panic / fatal error whose first repository frame is NOT harness code
    (zz_verif_*), and the scenario that was in flight dies the same way when run ALONE (twice), that is behaviour of
    the code under test: returns (violation, scenario).  Otherwise None (the caller raises InfraError)."""
    text = (p.stdout or "") + "\n" + (p.stderr or "")
    c = parse_go_crash(text)
    if not c or not c[1] or "zz_verif" in c[1]["at"]:
        return None
    last = None
    if os.path.exists(fout):
        for ln in open(fout, errors="replace"):
            if ln.startswith('{"e":"begin"') or '"e":"begin"' in ln[:24]:
                try:
                    last = json.loads(ln).get("name")
                except Exception:
                    pass
    scs = [json.loads(l) for l in open(fin) if l.strip()]
    cand = [s for s in scs if s.get("name") == last] or scs[:1]
    sc = cand[0]
    d = os.path.join(workdir, "crash_" + str(abs(hash(sc.get("name", ""))) % 10**8))
    os.makedirs(d, exist_ok=True)
    one = os.path.join(d, "in.ndjson")
    with open(one, "w") as fh:
        fh.write(json.dumps(sc) + "\n")
    same = 0
    for k in range(2):
        env = {"VERIF_IN": one, "VERIF_OUT": os.path.join(d, f"out{k}.ndjson")}
        if extra_env:
            env.update(extra_env)
        try:
            q = vbuild.run_test(binpath, testname, env, cwd=d, timeout=timeout)
        except subprocess.TimeoutExpired:
            break
        c2 = parse_go_crash((q.stdout or "") + "\n" + (q.stderr or ""))
        if q.returncode != 0 and c2 and c2[1] and c2[1]["func"] == c[1]["func"]:
            same += 1
    if same < 2:
        return None
    v = {"prop": prop, "code": code, "name": sc.get("name"), "detail": {"panic": c[0][:200], "func": c[1]["func"], "at": c[1]["at"], "reproduced_alone": same}}
    return v, sc

def drop_unfinished(fout):
    """cut a trace file of a dead driver back to its last complete history (a `begin` without `end` and a torn last line go)"""
    if not os.path.exists(fout):
        open(fout, "w").close()
        return
    lines = open(fout, errors="replace").read().split("\n")
    good, cur = [], []
    for ln in lines:
        if not ln.strip():
            continue
        try:
            e = json.loads(ln)
        except Exception:
            break
        cur.append(ln)
        if e.get("e") == "end":
            good += cur
            cur = []
    with open(fout, "w") as fh:
        fh.write("".join(l + "\n" for l in good))

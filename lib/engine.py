"""Engine drivers: run scenario shards through the in-package harness, validate traces with TLC."""
import json, os, subprocess, time, concurrent.futures as cf
import vbuild, vtlc
from vbuild import InfraError, VERIF

NCPU = int(os.environ.get("VERIF_CPUS", "16"))

def shard(items, n):
    n = max(1, min(n, len(items)))
    out = [[] for _ in range(n)]
    for i, it in enumerate(items):
        out[i % n].append(it)
    return [s for s in out if s]

def run_harness(binpath, testname, scenarios, workdir, tag="s", nshards=None, timeout=900, extra_env=None):
    """Returns list of (scenario_file, trace_file)."""
    os.makedirs(workdir, exist_ok=True)
    shards = shard(scenarios, nshards or NCPU)
    jobs = []
    for i, sh in enumerate(shards):
        fin = os.path.join(workdir, f"{tag}_in_{i}.ndjson")
        fout = os.path.join(workdir, f"{tag}_trace_{i}.ndjson")
        with open(fin, "w") as fh:
            for sc in sh:
                fh.write(json.dumps(sc) + "\n")
        jobs.append((fin, fout))
    def one(job):
        fin, fout = job
        env = {"VERIF_IN": fin, "VERIF_OUT": fout}
        if extra_env:
            env.update(extra_env)
        p = vbuild.run_test(binpath, testname, env, cwd=workdir, timeout=timeout)
        return job, p
    res = []
    with cf.ThreadPoolExecutor(max_workers=NCPU) as ex:
        for job, p in ex.map(one, jobs):
            if p.returncode != 0 or "PASS" not in p.stdout:
                # a panic / crash of the real code inside the harness is reported to the caller
                res.append((job[0], job[1], p))
            else:
                res.append((job[0], job[1], None))
    return res

MON_CFG = '''SPECIFICATION Spec
CONSTANTS
  TraceFile = "%(trace)s"
  Props = {%(props)s}
POSTCONDITION TraceConsumed
CHECK_DEADLOCK FALSE
'''

def monitor_traces(module, traces, props, workdir, timeout=900, specdirs=None):
    """Validate each trace file with the TLA+ monitor `module`.  Returns (viols, stats) where viols
    is a list of dicts (with 'file'), stats has events/states counts.  Raises InfraError when TLC
    does not consume a trace completely."""
    specdirs = specdirs or [os.path.join(VERIF, "spec", "mon")]
    def one(arg):
        i, tr = arg
        cfg = MON_CFG % {"trace": tr, "props": ", ".join('"%s"' % p for p in props)}
        wd = os.path.join(workdir, f"tlc_{module}_{i}")
        r = vtlc.run_tlc(specdirs, module, cfg, wd, workers=1, timeout=timeout)
        return tr, r
    viols, nstates, nev = [], 0, 0
    with cf.ThreadPoolExecutor(max_workers=NCPU) as ex:
        for tr, r in ex.map(one, list(enumerate(traces))):
            out = r["out"]
            st = vtlc.parse_stats(out)
            if r["rc"] == -9:
                raise InfraError(f"TLC timed out on {tr}")
            if "No error has been found" not in out or st is None:
                raise InfraError(f"TLC did not accept the trace file {tr} completely (monitor/infra problem, not a verdict):\n" + out[-3000:])
            nstates += st["distinct"]
            with open(tr) as fh:
                n = sum(1 for _ in fh)
            nev += n
            if st["distinct"] != n + 1:
                raise InfraError(f"trace {tr}: {n} events but {st['distinct']} monitor states")
            for v in vtlc.parse_viols(out):
                v["file"] = tr
                viols.append(v)
    return viols, {"monitor_states": nstates, "events": nev}

"""Scenario sources of engine W (C18): compile TLC behaviours of spec/Session.tla into driver steps, and
seeded wide-range connection lifetimes (more connections / wills / timers than the bounded model holds).

Will forms.  A will on a *private* key (model key 0) is sent in a shape whose execution count is visible
in the lock table: will-LOCK with Rcount 1 on a fresh key (0 runs: free, 1 run: depth 1, 2 runs: depth 2);
will-UNLOCK with Rcount 1 of an own hold of depth 2 (0 runs: depth 2, 1 run: depth 1, 2 runs: gone).
Wills on shared keys interact with other clients' holds and queues (grants, timeouts, re-routed replies).

Timers.  The model's Timeout / Expire steps are realised with the virtual clock: every such step advances
the clock by STEP seconds, and the timeout / expiry of the request that is to fire there is chosen (when the
request is sent) so that exactly it becomes due in that window; all other timers get long defaults that fire
in the settle phase (timeouts) or in the drain (expiries)."""
import json, random

STEP = 4
T_LONG, E_LONG = 200, 420
SETTLE, DRAIN = 215, 440
HOWS = ["client", "client", "server", "error"]

def parse_behaviours(lines, tag="BEHAVIOUR"):
    out, seen = [], set()
    pre = '"' + tag + ' '
    for ln in lines:
        ln = ln.strip()
        if ln.startswith(pre):
            try:
                s = json.loads(ln)[len(tag) + 1:]
            except Exception:
                continue
            if s in seen:
                continue
            seen.add(s)
            out.append(json.loads(s))
    return out

NODB = 7          # a database no request of these histories ever creates

def err_will(rng, c, kind, key, lid):
    """A will that can only end in an error reply, whatever the state: UNLOCK of a lock that is not held
    (UNLOCK_ERROR), UNLOCK in a database that was never created (UNKNOWN_DB), LOCK / UNLOCK with DbId 0xff
    (UNKNOWN_DB; the text protocol refuses to register that one, so binary only)."""
    forms = ["unheld", "nodb"] + (["ff-lock", "ff-unlock"] if kind == "bin" else [])
    f = rng.choice(forms)
    if f == "unheld":
        return {"op": "unlock", "c": c, "key": key, "lid": lid, "rc": 0, "will": True}
    if f == "nodb":
        return {"op": "unlock", "c": c, "key": key, "lid": lid, "rc": 0, "will": True, "db": NODB}
    if f == "ff-lock":
        return {"op": "lock", "c": c, "key": key, "lid": lid, "to": 0, "ex": 30, "rc": 0, "will": True, "db": 255}
    return {"op": "unlock", "c": c, "key": key, "lid": lid, "rc": 0, "will": True, "db": 255}

def traffic(rng, c, n, base):
    """n requests of connection c on keys / LockIds nobody else uses: completed LOCK+UNLOCK pairs (every request decodes
    into a recycled command object; the unlock hands two of them back to the connection's free stack)."""
    steps = []
    for j in range(max(1, n // 2)):
        k, l = 7000 + base + j, 8000 + base + j
        steps.append({"op": "lock", "c": c, "key": k, "lid": l, "to": 0, "ex": 50 + (j % 40), "rc": 0, "batch": rng.random() < 0.3})
        steps.append({"op": "unlock", "c": c, "key": k, "lid": l, "rc": 0, "batch": rng.random() < 0.3})
    return steps

def compile_hist(hist, name, seed):
    """hist: list of records of Session!hist.  Returns a scenario for TestVerifW."""
    rng = random.Random(f"{seed}/{name}")
    t = 1000
    t_before, t_after = [], []
    for h in hist:
        t_before.append(t)
        if h["op"] in ("timeout", "expire"):
            t += STEP
        t_after.append(t)
    t_exec, t_grant, fire_to, fire_ex = {}, {}, {}, {}
    for i, h in enumerate(hist):
        if h["op"] == "lock":
            t_exec[h["rid"]] = t_before[i]
        if h["op"] == "willexec":
            t_exec[h["rid"]] = t_before[i]
        for g in h.get("gr", []):
            t_grant[g] = t_after[i]
    for i, h in enumerate(hist):
        if h["op"] == "timeout" and h["rid"] in t_exec:
            fire_to[h["rid"]] = max(1, t_after[i] - t_exec[h["rid"]] - 2)
        if h["op"] == "expire" and h["rid"] in t_grant:
            fire_ex[h["rid"]] = max(1, t_after[i] - t_grant[h["rid"]] - 2)
    steps, gated, kinds = [], set(), {}
    ntr = 0
    ordinal, nwills = {}, {}
    for h in hist:
        if h["op"] == "will":
            nwills[h["c"]] = nwills.get(h["c"], 0) + 1
            ordinal[h["rid"]] = nwills[h["c"]]
    def key_of(k, rid):
        return k if k != 0 else 1000 + rid
    for i, h in enumerate(hist):
        op, c, k, rid = h["op"], h["c"], h["k"], h["rid"]
        if op == "connect":
            kinds[c] = h["a"]
            steps.append({"op": "conn", "c": c, "kind": h["a"]})
            if rng.random() < 0.6:                 # completed pairs first: the connection's free stack is not empty when it ends
                steps += traffic(rng, c, 2 * rng.randint(1, 5), 1000 * c)
        elif op == "init":
            steps.append({"op": "init", "c": c, "cid": h["b"]})
        elif op == "will" and h["a"][0] == "E":
            steps.append(err_will(rng, c, kinds.get(c, "bin"), 1000 + rid, 2000 + rid))
        elif op == "will":
            cmd, wait = h["a"][0], h["a"].endswith("w")
            ex = fire_ex.get(rid, E_LONG)
            to = fire_to.get(rid, T_LONG) if wait else 0
            if k == 0:
                key, lid = 1000 + rid, 2000 + rid
                if cmd == "U":
                    for _ in range(2):
                        steps.append({"op": "lock", "c": c, "key": key, "lid": lid, "to": 0, "ex": E_LONG, "rc": 1})
                    steps.append({"op": "unlock", "c": c, "key": key, "lid": lid, "rc": 1, "will": True})
                else:
                    st = {"op": "lock", "c": c, "key": key, "lid": lid, "to": 0, "ex": E_LONG, "rc": 1, "will": True}
                    if rng.random() < 0.3:
                        st["data"] = f"v{rid}"          # a will that carries a value payload
                    steps.append(st)
            elif cmd == "L":
                steps.append({"op": "lock", "c": c, "key": k, "lid": 100 + rid, "to": to, "ex": ex, "rc": 0, "will": True})
            else:
                steps.append({"op": "unlock", "c": c, "key": k, "lid": 100 + h["b"], "rc": 0, "will": True})
        elif op == "lock":
            wait = h["b"] == 1
            steps.append({"op": "lock", "c": c, "key": k, "lid": 100 + rid, "to": fire_to.get(rid, T_LONG) if wait else 0,
                          "ex": fire_ex.get(rid, E_LONG), "rc": 0, "batch": rng.random() < 0.3})
        elif op == "unlock":
            steps.append({"op": "unlock", "c": c, "key": k, "lid": 100 + h["b"], "rc": 0, "batch": rng.random() < 0.3})
        elif op == "hangup":
            g = h["a"] == "gated"
            if g:
                gated.add(c)
            if h["b"] == 0 and rng.random() < 0.5:
                # ... and once more right before the end: completed pairs, then ONE more request that stays behind (its command
                # object is the one just above the top of the connection's free stack when Close() empties that stack)
                steps += traffic(rng, c, 2 * rng.randint(1, 3), 1000 * c + 500)
                steps.append({"op": "lock", "c": c, "key": 900 + c, "lid": 950 + c, "to": 0, "ex": rng.choice([20, 120, 400]), "rc": 0})
            steps.append({"op": "close", "c": c, "how": rng.choice(HOWS), "gate": g})
            if not g and h["b"] == 0:
                steps.append({"op": "snap"})
        elif op == "mark":
            steps.append({"op": "waitclosed", "c": c})
            steps.append({"op": "snap"})
        elif op == "willexec":
            if c in gated:
                steps.append({"op": "resume", "c": c, "n": ordinal.get(rid, 0)})
        elif op == "finish":
            if c in gated:
                steps.append({"op": "waitclosed", "c": c})
                steps.append({"op": "snap"})
        elif op in ("timeout", "expire"):
            steps.append({"op": "tick", "n": STEP})
        elif op == "traffic":
            ntr += 1
            who = c
            if rng.random() < 0.6:                 # a FRESH connection takes its command objects from the pool
                who = 40 + ntr
                steps.append({"op": "conn", "c": who, "kind": rng.choice(["bin", "bin", "text"])})
            steps += traffic(rng, who, rng.choice([6, 10, 20, 40]), 100 * ntr)
            steps.append({"op": "snap"})
    steps += [{"op": "snap", "tag": "model-end"}, {"op": "settle", "n": SETTLE}] + guard_closeall(steps) + [{"op": "closeall"}, {"op": "drain", "n": DRAIN}]
    return {"name": name, "steps": steps, "complete": True}

def divergences(behs, scs, traces):
    """Refinement bookkeeping (never a verdict): holders of the shared keys at the end of a TLC behaviour, model vs real code."""
    pred = {}
    for sc, b in zip(scs, behs):
        # a behaviour cut off between a hang-up and the end of that Close() is ahead of its own `hold` record
        # (the driver always completes an ungated close): not comparable
        pend = set()
        for h in b["hist"]:
            if h["op"] == "hangup" and h["a"] != "gated":
                pend.add(h["c"])
            if h["op"] == "finish":
                pend.discard(h["c"])
        if not pend:
            pred[sc["name"]] = b
    out, compared = [], 0
    for tr in traces:
        name = None
        with open(tr) as fh:
            for ln in fh:
                if '"e":"begin"' in ln[:60]:
                    name = json.loads(ln)["name"]
                elif '"tag":"model-end"' in ln and name in pred and not pred[name]["crashed"]:
                    e = json.loads(ln)
                    real = {k["key"]: sorted(h["lid"] for h in k["holders"]) for k in e["keys"] if k["key"] < 1000}
                    b = pred[name]
                    compared += 1
                    for i, h in enumerate(b["hold"]):
                        want = [100 + h] if h else []
                        if real.get(i + 1, []) != want:
                            out.append({"name": name, "key": i + 1, "model": want, "real": real.get(i + 1, [])})
    return compared, out

def guard_closeall(steps):
    """Before the driver closes whatever is still open (in connection order), give every open connection that
    would end while it is the clients-table entry of its id AND has wills a successor that announced the same
    id (the known crash F1 is explored by its own scenarios; the closing suffix must not trip over it)."""
    entry, cid, wills, alive, top = {}, {}, {}, [], 0
    for s in steps:
        c = s.get("c", 0)
        top = max(top, c)
        if s["op"] == "conn":
            alive.append(c)
            cid[c] = None
        elif s["op"] == "init":
            cid[c] = s["cid"]
            entry[s["cid"]] = c
        elif s.get("will"):
            wills[c] = wills.get(c, 0) + 1
        elif s["op"] == "close" and c in alive:
            alive.remove(c)
            if cid.get(c) is not None and entry.get(cid[c]) == c:
                del entry[cid[c]]
    extra = []
    for c in list(alive):
        if cid.get(c) is not None and wills.get(c) and entry.get(cid[c]) == c:
            top += 1
            extra += [{"op": "conn", "c": top, "kind": "bin"}, {"op": "init", "c": top, "cid": cid[c]}]
            entry[cid[c]] = top
    return extra

def crash_class(sc):
    """Would the unchanged code hit deviation F1 in this scenario (as far as a static look can tell)?  Used for
    statistics only; the checker survives the death of a harness process wherever it happens."""
    inited, wills, closed = {}, {}, set()
    for s in sc["steps"]:
        if s["op"] == "init":
            inited[s["c"]] = s["cid"]
        if s.get("will"):
            wills[s["c"]] = wills.get(s["c"], 0) + 1
        if s["op"] == "close":
            c = s["c"]
            if c in inited and wills.get(c) and not any(x != c and x not in closed and inited.get(x) == inited[c] for x in inited):
                return True
            closed.add(c)
    return False

# ------------------------------------------------------------------ seeded wide-range lifetimes

def gen_random(seed, i, safe=True):
    """One connection-lifetime history.  safe=True avoids the situation of the known crash (an inited binary
    connection with immediately-answered wills ending while it is still the table entry of its id) so that the
    rest of the space is explored; safe=False does not."""
    rng = random.Random(f"sess/{seed}/{i}")
    nconn = rng.randint(2, 6)
    steps, conns = [], {}
    nid = [0]
    def fresh():
        nid[0] += 1
        return nid[0]
    shared = [1, 2, 3]
    cids = [1, 2, 1, 3]
    order = list(range(1, nconn + 1))
    # phase 1: connect, announce, take holds, queue requests, register wills
    for c in order:
        kind = "text" if rng.random() < 0.25 else "bin"
        conns[c] = {"kind": kind, "cid": None, "wills": 0, "busy": False, "imm": False}
        steps.append({"op": "conn", "c": c, "kind": kind})
        if kind == "bin" and rng.random() < 0.65:
            cid = rng.choice(cids) if rng.random() < 0.9 else 0
            conns[c]["cid"] = cid
            steps.append({"op": "init", "c": c, "cid": cid})
    held = {}
    lefts = {}          # key -> (LockId, owner, expiry): holds meant to be LEFT BEHIND (own key per connection, nobody unlocks them)
    for c in order:
        C = conns[c]
        # phase 0: a few completed lock+unlock pairs (free stack of depth 1..5 when the connection ends), then something to leave behind
        if rng.random() < 0.75:
            steps += traffic(rng, c, 2 * rng.randint(1, 5), 1000 * c)
        if rng.random() < 0.7:
            ex = rng.choice([10, 25, 60, 300])
            steps.append({"op": "lock", "c": c, "key": 600 + c, "lid": 650 + c, "to": 0, "ex": ex, "rc": 0})
            lefts[600 + c] = (650 + c, c, ex)
            if rng.random() < 0.4:
                steps.append({"op": "lock", "c": c, "key": 620 + c, "lid": 670 + c, "to": 0, "ex": rng.choice([15, 40, 300]), "rc": 1})
                lefts[620 + c] = (670 + c, c, 300)
        others = [k for k, v in lefts.items() if v[1] != c]
        if others and C["kind"] == "bin" and rng.random() < 0.4:
            # a request left QUEUED behind somebody else's left-behind hold: granted / timed out at its own terms
            steps.append({"op": "lock", "c": c, "key": rng.choice(others), "lid": 690 + c, "to": rng.choice([8, 20, 45]), "ex": 30, "rc": 0})
        nreq = rng.randint(0, 3)
        for _ in range(nreq):
            if C["busy"]:
                break
            k = rng.choice(shared)
            n = fresh()
            if k in held and rng.random() < 0.25 and not C["busy"]:
                steps.append({"op": "unlock", "c": c, "key": k, "lid": held.pop(k), "rc": 0, "batch": rng.random() < 0.3})
                continue
            wait = rng.random() < 0.7
            to = rng.choice([3, 5, 9, 30, 60]) if wait else 0
            ex = rng.choice([4, 8, 20, 90, 300])
            steps.append({"op": "lock", "c": c, "key": k, "lid": 100 + n, "to": to, "ex": ex, "rc": 0, "batch": rng.random() < 0.3})
            if k not in held:
                held[k] = 100 + n
            elif wait and C["kind"] == "text":
                C["busy"] = True
        if C["busy"]:
            continue
        nw = rng.choice([0, 1, 2, 2, 3, 3, 4, 4, 5, 6])
        pk = 1000 + 10 * c
        depth, plid = 0, 2000 + 10 * c
        for j in range(nw):
            form = rng.choice(["pl", "pl", "pu", "seq", "sl", "su", "err", "err", "dup", "val"])
            n = fresh()
            if form == "err":
                # an erroring will anywhere in the list (first / middle / last): the others must run all the same
                steps.append(err_will(rng, c, C["kind"], 3000 + n, 4000 + n))
                C["imm"] = True
            elif form == "dup":
                # the same will registered twice: two executions, depth 2
                for _ in range(2):
                    steps.append({"op": "lock", "c": c, "key": 3000 + n, "lid": 4000 + n, "to": 0, "ex": 300, "rc": 1, "will": True})
                C["wills"] += 1
                C["imm"] = True
            elif form == "val":
                steps.append({"op": "lock", "c": c, "key": 3000 + n, "lid": 4000 + n, "to": 0, "ex": 300, "rc": 1, "will": True, "data": f"v{n}"})
                C["imm"] = True
            elif form == "pl":
                steps.append({"op": "lock", "c": c, "key": 3000 + n, "lid": 4000 + n, "to": 0, "ex": 300, "rc": 1, "will": True})
                C["imm"] = True
            elif form == "pu":
                for _ in range(2):
                    steps.append({"op": "lock", "c": c, "key": 3000 + n, "lid": 4000 + n, "to": 0, "ex": 300, "rc": 1})
                steps.append({"op": "unlock", "c": c, "key": 3000 + n, "lid": 4000 + n, "rc": 1, "will": True})
                C["imm"] = True
            elif form == "seq":
                # several wills on ONE private key: the final depth depends on their order and multiplicity
                if rng.random() < 0.6:
                    steps.append({"op": "lock", "c": c, "key": pk, "lid": plid, "to": 0, "ex": 300, "rc": 2, "will": True})
                else:
                    steps.append({"op": "unlock", "c": c, "key": pk, "lid": plid, "rc": 1, "will": True})
                C["imm"] = True
            elif form == "sl":
                k = rng.choice(shared)
                wait = rng.random() < 0.6
                steps.append({"op": "lock", "c": c, "key": k, "lid": 100 + n, "to": rng.choice([4, 7, 40]) if wait else 0,
                              "ex": rng.choice([6, 30, 300]), "rc": 0, "will": True})
                if not (k in held and wait):
                    C["imm"] = True
            else:
                k = rng.choice(shared)
                steps.append({"op": "unlock", "c": c, "key": k, "lid": held.get(k, 100 + n), "rc": 0, "will": True})
                C["imm"] = True
            C["wills"] += 1
        if not C["busy"] and rng.random() < 0.6:
            # tail: completed pairs again, then exactly ONE more request that stays behind (hold / queued request / will)
            steps += traffic(rng, c, 2 * rng.randint(1, 5), 1000 * c + 500)
            kind_ = rng.choice(["hold", "hold", "queued", "will"])
            others = [k for k, v in lefts.items() if v[1] != c]
            if kind_ == "queued" and others and C["kind"] == "bin":
                steps.append({"op": "lock", "c": c, "key": rng.choice(others), "lid": 695 + c, "to": rng.choice([8, 20, 45]), "ex": 30, "rc": 0})
            elif kind_ == "will":
                n = fresh()
                steps.append({"op": "lock", "c": c, "key": 3000 + n, "lid": 4000 + n, "to": 0, "ex": 300, "rc": 1, "will": True})
                C["wills"] += 1
                C["imm"] = True
            else:
                ex = rng.choice([10, 25, 60, 300])
                steps.append({"op": "lock", "c": c, "key": 640 + c, "lid": 680 + c, "to": 0, "ex": ex, "rc": 0})
                lefts[640 + c] = (680 + c, c, ex)
    # phase 2: disconnects, reconnects, timers, releases in a seeded order
    alive = list(order)
    closed = []
    extra = nconn
    for _ in range(rng.randint(2, 3 * nconn)):
        r = rng.random()
        if r < 0.45 and alive:
            c = rng.choice(alive)
            C = conns[c]
            peers = [x for x in alive if x != c and conns[x]["cid"] is not None and conns[x]["cid"] == C["cid"]]
            risky = C["kind"] == "bin" and C["cid"] is not None and C["wills"] > 0
            if risky and safe and not peers:
                # a successor announces the same id first (reconnect before the old connection is gone)
                extra += 1
                conns[extra] = {"kind": "bin", "cid": C["cid"], "wills": 0, "busy": False, "imm": False}
                steps.append({"op": "conn", "c": extra, "kind": "bin"})
                steps.append({"op": "init", "c": extra, "cid": C["cid"]})
                alive.append(extra)
                peers = [extra]
            if risky and safe:
                # the successor must be the LAST one that announced the id (else the old one is looked up)
                last = max(x for x in conns if conns[x]["cid"] == C["cid"] and x in alive)
                if last == c:
                    extra += 1
                    conns[extra] = {"kind": "bin", "cid": C["cid"], "wills": 0, "busy": False, "imm": False}
                    steps.append({"op": "conn", "c": extra, "kind": "bin"})
                    steps.append({"op": "init", "c": extra, "cid": C["cid"]})
                    alive.append(extra)
            gate = C["kind"] == "bin" and C["wills"] > 0 and rng.random() < 0.35 and not (safe and risky)
            steps.append({"op": "close", "c": c, "how": rng.choice(HOWS), "gate": gate})
            alive.remove(c)
            closed.append(c)
            if gate:
                for _ in range(C["wills"]):
                    if rng.random() < 0.5 and alive:
                        o = rng.choice(alive)
                        if not conns[o]["busy"]:
                            n = fresh()
                            steps.append({"op": "lock", "c": o, "key": rng.choice(shared), "lid": 100 + n, "to": 0, "ex": 30, "rc": 0})
                    steps.append({"op": "resume", "c": c})
                steps.append({"op": "waitclosed", "c": c})
            if not C["busy"]:
                steps.append({"op": "snap"})
        elif r < 0.57 and closed:
            # third-party traffic AFTER somebody ended: one fresh connection does 5..40 requests on other keys, then the
            # left-behind state is looked at (snapshot) and probed from that connection
            extra += 1
            kind = rng.choice(["bin", "bin", "text"])
            conns[extra] = {"kind": kind, "cid": None, "wills": 0, "busy": False, "imm": False}
            steps.append({"op": "conn", "c": extra, "kind": kind})
            alive.append(extra)
            steps += traffic(rng, extra, rng.randint(5, 40), 100 * extra)
            steps.append({"op": "snap"})
            gone = [k for k, v in lefts.items() if v[1] in closed]
            if gone and rng.random() < 0.6:
                k = rng.choice(gone)
                lid = lefts[k][0]
                if rng.random() < 0.5:
                    n = fresh()
                    steps.append({"op": "lock", "c": extra, "key": k, "lid": 100 + n, "to": 0, "ex": 20, "rc": 0})   # must not be granted over it
                if rng.random() < 0.7:
                    steps.append({"op": "unlock", "c": extra, "key": k, "lid": lid, "rc": 0})                        # accepted by its LockId
                    if rng.random() < 0.5:
                        steps.append({"op": "unlock", "c": extra, "key": k, "lid": lid, "rc": 0})                    # ... once
                    del lefts[k]
                steps.append({"op": "snap"})
        elif r < 0.65:
            steps.append({"op": "tick", "n": rng.choice([1, 2, 4, 6, 10])})
        elif r < 0.8 and alive:
            o = rng.choice(alive)
            if not conns[o]["busy"] and held:
                k = rng.choice(sorted(held))
                steps.append({"op": "unlock", "c": o, "key": k, "lid": held.pop(k), "rc": 0})
        elif r < 0.9 and closed and rng.random() < 0.7:
            # reconnect after the fact under the id of an ended connection
            o = rng.choice(closed)
            if conns[o]["cid"] is not None:
                extra += 1
                conns[extra] = {"kind": "bin", "cid": conns[o]["cid"], "wills": 0, "busy": False, "imm": False}
                steps.append({"op": "conn", "c": extra, "kind": "bin"})
                steps.append({"op": "init", "c": extra, "cid": conns[o]["cid"]})
                alive.append(extra)
        else:
            steps.append({"op": "snap"})
    steps += [{"op": "settle", "n": 70}] + (guard_closeall(steps) if safe else []) + [{"op": "closeall"}, {"op": "drain", "n": 320}]
    return {"name": f"rnd-{seed}-{i}" + ("" if safe else "-u"), "steps": steps, "complete": True}

def gen_idle(seed, i):
    """Reply-stream alignment on real protocol objects (C03 on engine W; also part of C18): connections that go IDLE past the
    expiry of their own directly granted holds (1..6 s), or while a queued request of theirs times out, and then issue
    more commands; five and more expiries in a row before the next command; binary and text.  Every command must get
    exactly one reply and it must be the reply to that command; notices (EXPRIED) never reach a text connection."""
    rng = random.Random(f"idle/{seed}/{i}")
    steps = [{"op": "conn", "c": 9, "kind": "bin"}, {"op": "lock", "c": 9, "key": 90, "lid": 990, "to": 0, "ex": 250, "rc": 0}]
    nconn = rng.randint(1, 3)
    kinds = {}
    for c in range(1, nconn + 1):
        kinds[c] = ("text", "bin")[(i + c) % 2] if rng.random() < 0.8 else rng.choice(["text", "bin"])
        steps.append({"op": "conn", "c": c, "kind": kinds[c]})
        if kinds[c] == "bin" and rng.random() < 0.3:
            steps.append({"op": "init", "c": c, "cid": c})
    n = [0]
    def key(c):
        n[0] += 1
        return 100 * c + n[0], 5000 + 100 * c + n[0]
    live = {c: [] for c in kinds}
    # usually 1..3 rounds of (take holds / queue, go idle, more commands); sometimes 5..7 short rounds in a row
    rounds = rng.randint(5, 7) if rng.random() < 0.25 else rng.randint(1, 3)
    for _ in range(rounds):
        longest = 0
        for c in rng.sample(sorted(kinds), len(kinds)):
            mode = rng.choice(["expire", "expire", "many", "queued", "mixed"]) if rounds <= 3 else rng.choice(["expire", "expire", "queued"])
            if mode in ("expire", "mixed"):
                for _ in range(rng.randint(1, 6) if rounds <= 3 else 1):
                    k, l = key(c)
                    ex = rng.randint(1, 6)
                    longest = max(longest, ex)
                    steps.append({"op": "lock", "c": c, "key": k, "lid": l, "to": 0, "ex": ex, "rc": 0, "batch": rng.random() < 0.2})
                    live[c].append((k, l))
            if mode == "many":
                for _ in range(rng.randint(5, 8)):      # five and more expiries in a row before the next command
                    k, l = key(c)
                    ex = rng.randint(1, 3)
                    longest = max(longest, ex)
                    steps.append({"op": "lock", "c": c, "key": k, "lid": l, "to": 0, "ex": ex, "rc": 0})
                    live[c].append((k, l))
            if mode in ("queued", "mixed"):
                k, l = key(c)
                to = rng.randint(2, 5)
                longest = max(longest, to)
                steps.append({"op": "lock", "c": c, "key": 90, "lid": l, "to": to, "ex": 20, "rc": 0})   # times out while the connection is idle
        idle = rng.randint(2, 8) + (longest if rng.random() < 0.6 else 0)
        steps.append({"op": "tick", "n": idle})
        if rng.random() < 0.3:
            steps.append({"op": "snap"})
        for c in rng.sample(sorted(kinds), len(kinds)):
            for _ in range(rng.randint(1, 6) if rounds <= 3 else rng.randint(0, 1)):
                r = rng.random()
                if r < 0.5 or not live[c]:
                    k, l = key(c)
                    steps.append({"op": "lock", "c": c, "key": k, "lid": l, "to": 0, "ex": rng.choice([2, 30, 60]), "rc": 0})
                    live[c].append((k, l))
                else:
                    k, l = live[c].pop(rng.randrange(len(live[c])))       # held, or expired meanwhile (UNLOCK_ERROR): one reply either way
                    steps.append({"op": "unlock", "c": c, "key": k, "lid": l, "rc": 0})
    steps += [{"op": "settle", "n": 12}, {"op": "closeall"}, {"op": "drain", "n": 70}]
    return {"name": f"idle-{seed}-{i}", "steps": steps, "complete": True}

def gen_par(seed, i):
    """Replies for ONE binary connection produced by several goroutines at once: connection 1 has requests queued behind the
    holds of k other connections; the holders unlock at the same moment (step `par`, one goroutine per connection) while the
    client of connection 1 reads slowly, so the grant replies meet at connection 1's write path while one of them is inside a
    slow write.  Every request must still draw exactly one reply with its own id."""
    rng = random.Random(seed * 7919 + i * 104729 + 17)
    k = rng.randint(3, 7)
    steps = [{"op": "conn", "c": 1, "kind": "bin"}]
    if rng.random() < 0.5:
        steps.append({"op": "init", "c": 1, "cid": 1})
    for j in range(k):
        steps.append({"op": "conn", "c": 2 + j, "kind": "bin"})
    rounds = rng.randint(1, 3)
    base = 5000 + 100 * (i % 50)
    for rd in range(rounds):
        keys = [base + rd * 10 + j for j in range(k)]
        for j in range(k):
            steps.append({"op": "lock", "c": 2 + j, "key": keys[j], "lid": 100 + j, "to": 0, "ex": 60, "rc": 0, "cnt": 0})
        for j in range(k):
            steps.append({"op": "lock", "c": 1, "key": keys[j], "lid": 200 + j, "to": 40, "ex": rng.choice([30, 50]), "rc": 0, "cnt": 0})
        steps.append({"op": "par", "c": 1, "stall": rng.choice([5, 20, 40]),
                      "group": [{"op": "unlock", "c": 2 + j, "key": keys[j], "lid": 100 + j, "rc": 0} for j in rng.sample(range(k), k)]})
        steps.append({"op": "snap"})
        for j in range(k):
            steps.append({"op": "unlock", "c": 1, "key": keys[j], "lid": 200 + j, "rc": 0})
    steps += [{"op": "settle", "n": 12}, {"op": "closeall"}, {"op": "drain", "n": 70}]
    return {"name": f"par-{seed}-{i}", "steps": steps, "complete": True}

def directed():
    """Hand-shaped regression histories (each is also reachable by the generators), plus scenarios/sess_directed.json."""
    import os
    D = []
    extra = os.path.join(os.path.dirname(os.path.dirname(os.path.abspath(__file__))), "scenarios", "sess_directed.json")
    if os.path.exists(extra):
        with open(extra) as fh:
            D += json.load(fh)
    def sc(name, steps):
        D.append({"name": "dir-" + name, "steps": steps + [{"op": "settle", "n": 70}, {"op": "closeall"}, {"op": "drain", "n": 320}], "complete": True})
    pl = lambda c, n: {"op": "lock", "c": c, "key": 3000 + n, "lid": 4000 + n, "to": 0, "ex": 300, "rc": 1, "will": True}
    # wills of a binary connection that never announced an id, all close causes
    for how in ("client", "server", "error"):
        sc("bin-noinit-" + how, [{"op": "conn", "c": 1, "kind": "bin"}, pl(1, 1), pl(1, 2),
                                 {"op": "lock", "c": 1, "key": 3003, "lid": 4003, "to": 0, "ex": 300, "rc": 1},
                                 {"op": "lock", "c": 1, "key": 3003, "lid": 4003, "to": 0, "ex": 300, "rc": 1},
                                 {"op": "unlock", "c": 1, "key": 3003, "lid": 4003, "rc": 1, "will": True},
                                 {"op": "close", "c": 1, "how": how}, {"op": "snap"}])
    # order-sensitive wills on one private key: L(rc2) L(rc2) U(rc1) -> depth 1 ; U first would be a no-op -> depth 2
    sc("order", [{"op": "conn", "c": 1, "kind": "bin"},
                 {"op": "lock", "c": 1, "key": 3100, "lid": 4100, "to": 0, "ex": 300, "rc": 2, "will": True},
                 {"op": "unlock", "c": 1, "key": 3100, "lid": 4100, "rc": 1, "will": True},
                 {"op": "lock", "c": 1, "key": 3100, "lid": 4100, "to": 0, "ex": 300, "rc": 2, "will": True},
                 {"op": "close", "c": 1, "how": "client"}, {"op": "snap"}])
    # reconnect before the end of the old connection: will replies and late replies go to the successor
    sc("reconnect", [{"op": "conn", "c": 1, "kind": "bin"}, {"op": "init", "c": 1, "cid": 1},
                     {"op": "conn", "c": 3, "kind": "bin"}, {"op": "init", "c": 3, "cid": 2},
                     {"op": "lock", "c": 3, "key": 1, "lid": 130, "to": 0, "ex": 12, "rc": 0},
                     {"op": "lock", "c": 1, "key": 1, "lid": 110, "to": 40, "ex": 30, "rc": 0},
                     pl(1, 5), pl(1, 6),
                     {"op": "conn", "c": 2, "kind": "bin"}, {"op": "init", "c": 2, "cid": 1},
                     {"op": "close", "c": 1, "how": "client"}, {"op": "snap"},
                     {"op": "tick", "n": 15}, {"op": "snap"}])
    # a connection that ended with a request queued / a hold running; an UNRELATED client (another id, equal to the first in
    # all bytes but one - every position in turn) announces itself afterwards and is connected when the late grant, the
    # timeout answer and the expiry notice are produced: it receives none of them
    for pos in range(16):
        sc("unrelated-id-differs-in-byte-%d" % pos,
           [{"op": "conn", "c": 1, "kind": "bin"}, {"op": "init", "c": 1, "cid": 1},
            {"op": "conn", "c": 2, "kind": "bin"}, {"op": "init", "c": 2, "cid": 3},
            {"op": "lock", "c": 2, "key": 1, "lid": 120, "to": 0, "ex": 6, "rc": 0},
            {"op": "lock", "c": 1, "key": 1, "lid": 110, "to": 30, "ex": 4, "rc": 0},      # queued, granted at +7, expires at +12
            {"op": "lock", "c": 1, "key": 2, "lid": 111, "to": 0, "ex": 9, "rc": 0},       # held, expires at +10
            {"op": "lock", "c": 2, "key": 3, "lid": 121, "to": 0, "ex": 40, "rc": 0},
            {"op": "lock", "c": 1, "key": 3, "lid": 112, "to": 3, "ex": 5, "rc": 0},       # queued, times out at +4
            {"op": "close", "c": 1, "how": ("client", "server", "error")[pos % 3]}, {"op": "snap"},
            {"op": "conn", "c": 3, "kind": "bin"}, {"op": "init", "c": 3, "cid": 2},
            {"op": "tick", "n": 5}, {"op": "snap"}, {"op": "tick", "n": 4}, {"op": "snap"}, {"op": "tick", "n": 6}, {"op": "snap"}])
        D[-1]["cidpos"] = pos
    # queued request of an ended connection times out / is granted; its hold survives and expires
    sc("queued", [{"op": "conn", "c": 1, "kind": "bin"}, {"op": "conn", "c": 2, "kind": "bin"},
                  {"op": "lock", "c": 2, "key": 1, "lid": 120, "to": 0, "ex": 8, "rc": 0},
                  {"op": "lock", "c": 1, "key": 1, "lid": 110, "to": 30, "ex": 20, "rc": 0},
                  {"op": "lock", "c": 1, "key": 2, "lid": 111, "to": 0, "ex": 25, "rc": 0},
                  {"op": "conn", "c": 3, "kind": "text"},
                  {"op": "lock", "c": 3, "key": 1, "lid": 130, "to": 5, "ex": 20, "rc": 0},
                  {"op": "close", "c": 1, "how": "server"}, {"op": "snap"}, {"op": "close", "c": 3, "how": "client"},
                  {"op": "tick", "n": 7}, {"op": "snap"}, {"op": "tick", "n": 5}, {"op": "snap"}])
    return D

"""TLC runner: scratch copy of the spec dir, timeout, -metadir, output parsing."""
import os, re, shutil, subprocess, json, time, tempfile
from vbuild import VERIF, InfraError, scratch

TLC_CP = "/opt/veriftools/tla/tla2tools.jar:/opt/veriftools/tla/CommunityModules-deps.jar"

def run_tlc(specdir, module, cfg_text, workdir, workers=1, timeout=600, extra=None, heap=None, simulate=None, depth=None, seed=None, deque=False):
    """Copy every .tla of specdir into workdir, write <module>_run.cfg, run TLC. Returns dict(out, rc, wall)."""
    os.makedirs(workdir, exist_ok=True)
    for root in specdir if isinstance(specdir, (list, tuple)) else [specdir]:
        for f in os.listdir(root):
            if f.endswith(".tla"):
                shutil.copy(os.path.join(root, f), workdir)
    cfg = os.path.join(workdir, module + "_run.cfg")
    with open(cfg, "w") as fh:
        fh.write(cfg_text)
    meta = os.path.join(workdir, "meta_" + module)
    # TLC unpacks its standard modules into <java.io.tmpdir>/tlc-*: keep that inside the scratch directory too
    cmd = ["java", "-XX:+UseParallelGC", "-Djava.io.tmpdir=" + workdir]
    if heap:
        cmd.append("-Xmx" + heap)
    cmd += ["-Xss512m"]
    if deque:
        cmd.append("-Dtlc2.tool.queue.IStateQueue=StateDeque")
    cmd += ["-cp", TLC_CP, "tlc2.TLC", "-workers", str(workers), "-metadir", meta, "-config", cfg, "-noGenerateSpecTE"]
    if simulate:
        cmd += ["-simulate", simulate]
    if depth:
        cmd += ["-depth", str(depth)]
    if seed is not None:
        cmd += ["-seed", str(seed)]
    if extra:
        cmd += extra
    cmd.append(module + ".tla")
    t0 = time.time()
    try:
        p = subprocess.run(cmd, cwd=workdir, capture_output=True, text=True, timeout=timeout)
        out, rc = p.stdout + p.stderr, p.returncode
    except subprocess.TimeoutExpired as ex:
        out = (ex.stdout or b"").decode(errors="replace") if isinstance(ex.stdout, bytes) else (ex.stdout or "")
        rc = -9
    return {"out": out, "rc": rc, "wall": time.time() - t0, "cmd": " ".join(cmd)}

def parse_stats(out):
    """states generated / distinct from TLC's summary line."""
    m = re.findall(r"(\d+) states generated, (\d+) distinct states found, (\d+) states left on queue", out)
    if m:
        g, d, q = m[-1]
        return {"generated": int(g), "distinct": int(d), "queue": int(q)}
    return None

def parse_viols(out):
    """VIOL lines printed by the monitors (PrintT of a string => quoted, escaped)."""
    res, seen = [], set()
    for line in out.splitlines():
        line = line.strip()
        if line.startswith('"VIOL '):
            try:
                s = json.loads(line)
                v = json.loads(s[5:])
            except Exception:
                continue
            key = json.dumps(v, sort_keys=True)
            if key in seen:
                continue
            seen.add(key)
            res.append(v)
    return res

def tlc_ok(out):
    return "Model checking completed. No error has been found." in out or "Finished computing initial states" in out and "Error:" not in out

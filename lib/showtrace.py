#!/usr/bin/env python3
"""Print a compact view of one history inside an ndjson trace file: showtrace.py FILE LINE [context]"""
import sys, json
RES={0:"SUCCED",5:"LOCKED_ERR",6:"UNLOCK_ERR",7:"UNOWN_ERR",8:"TIMEOUT",9:"EXPRIED",10:"STATE_ERR",11:"ERROR",12:"ACK_WAIT"}
def fmt(e):
    k=e["e"]
    if k=="req":
        return f"REQ#{e['id']} c{e['conn']} {e['cmd']} db{e['db']} k{e['key']} lid{e['lid']} flag={e['flag']:#x} tf={e['tf']:#x} ef={e['ef']:#x} T={e['to']} E={e['ex']} cnt={e['cnt']} rc={e['rc']} t={e['t']}" + (" data="+e['data'] if e.get('data') else "") + (" [drain]" if e.get('drain') else "")
    if k=="reply":
        return f"   REPLY c{e['conn']} rid#{e['rid']} {RES.get(e['res'],e['res'])} lc={e['lc']} lrc={e['lrc']} lid{e['lid']} ct={e['ct']} t={e['t']} cur={e['cur']}" + (" data="+e['data'] if e.get('data') else "")
    if k=="snap":
        ks=[]
        for x in e["keys"]:
            hs=",".join(f"{h['lid']}x{h['depth']}(c{h['cnt']},r{h['rc']},exp{h['exp']},rid{h['rid']}{',aof' if h['aof'] else ''}{',ack'+str(h['ack']) if h['ack']!=255 else ''})" for h in x["holders"])
            ws=",".join(f"{w['lid']}(c{w['cnt']},p{w['prio']},rid{w['rid']},tot{w['tot']})" for w in x["waiters"])
            ks.append(f"db{x['db']}k{x['key']}:locked={x['locked']} waited={x['waited']} ref={x['ref']} H[{hs}] W[{ws}]" + (f" data={x['data']}" if x.get('hasdata') else ""))
        return f"   SNAP t={e['t']} nkeys={e['nkeys']} tw={e['tw']} ew={e['ew']} st={json.dumps(e['st'])} " + " | ".join(ks) + (" FINAL" if e.get("final") else "")
    return json.dumps(e)
def main():
    f=sys.argv[1]; line=int(sys.argv[2]); ctx=int(sys.argv[3]) if len(sys.argv)>3 else 25
    lines=open(f).read().splitlines()
    # find begin of history
    b=line-1
    while b>0 and json.loads(lines[b])["e"]!="begin": b-=1
    lo=max(b,line-1-ctx); hi=min(len(lines),line+5)
    print(fmt(json.loads(lines[b])))
    for i in range(lo,hi):
        e=json.loads(lines[i])
        if e["e"]=="tock" and i!=line-1: 
            print(f"{i+1:6d}  tock {e['t']}"); continue
        print(f"{i+1:6d}{'>>' if i==line-1 else '  '}{fmt(e)}")
main()

"""Histories for the growth check `lockext` (engine X, harness/inpkg/server/zz_verif_lockext_test.go):
seeded wide-range histories and directed histories for the re-issuing request flags.

key codes : k in 1..899 = value in the lower half, -k = the byte-reversed key of k, 900..999 = palindromic keys
LockId    : version = lid % 1000 (lower eight bytes), tag = lid // 1000 (byte 8)
"""
import random

TF_REV, TF_LV, TF_KEEP = 0x0080, 0x4000, 0x8000
EF_REV, EF_KEEP = 0x0080, 0x8000
UF_FIRST, UF_TOWAIT = 0x01, 0x08

def lock(conn, key, lid, to=0, ex=5, cnt=0, rc=0, tf=0, ef=0):
    return {"op": "lock", "conn": conn, "db": 0, "key": key, "lid": lid, "flag": 0, "tf": tf, "ef": ef, "to": to, "ex": ex, "cnt": cnt, "rc": rc, "nodup": True}

def unlock(conn, key, lid, flag=0, to=0, ex=0, cnt=0, rc=0, tf=0, ef=0):
    return {"op": "unlock", "conn": conn, "db": 0, "key": key, "lid": lid, "flag": flag, "tf": tf, "ef": ef, "to": to, "ex": ex, "cnt": cnt, "rc": rc}

def tick(n=1):
    return {"op": "tick", "n": n, "order": "te"}

def execn(n=0):
    return {"op": "exec", "n": n}

def close(conn):
    return {"op": "close", "conn": conn}

def scenario(name, steps, mode="seq", drain=14):
    return {"name": name, "cfg": {}, "steps": steps + [{"op": "drain", "n": drain}], "complete": True, "mode": mode, "snap": 0}

def random_history(rng, name, mode="seq"):
    """one seeded history: a few keys (with their reverses and a palindromic key), LockIds of several versions, every flag of the
    subsystem, timers short enough to fire inside the history and a few that reach the long tables"""
    focus = rng.choice(["rev", "rev", "uw", "lv", "keep", "mix", "mix"])
    base = rng.sample([1, 2, 3, 4, 5, 6, 7, 300, 511], rng.choice([1, 1, 2]))
    keys = []
    for k in base:
        keys += [k, -k]
    if rng.random() < 0.4:
        keys.append(rng.choice([900, 901, 977]))
    vers = rng.sample(range(1, 40), rng.choice([2, 3, 4]))
    lids = [v + 1000 * t for v in vers for t in ([0, 1] if rng.random() < 0.4 else [0])]
    conns = [1, 2, 3, 4][:rng.choice([2, 3, 4])]
    tos = [0, 1, 1, 2, 2, 3, 5, 8] + ([12, 20, 45] if rng.random() < 0.15 else [])
    exs = [0, 1, 2, 2, 3, 4, 6, 9] + ([15, 40] if rng.random() < 0.15 else [])
    cnts = [0, 0, 0, 1, 1, 2, 5]
    def tfl():
        f = 0
        if focus in ("rev", "mix") and rng.random() < 0.55: f |= TF_REV
        if focus in ("lv", "mix", "uw") and rng.random() < (0.6 if focus == "lv" else 0.3): f |= TF_LV
        if focus in ("keep", "mix") and rng.random() < (0.5 if focus == "keep" else 0.15): f |= TF_KEEP
        if focus == "keep" and rng.random() < 0.3: f |= TF_REV
        return f
    def efl():
        f = 0
        if focus in ("rev", "mix") and rng.random() < 0.5: f |= EF_REV
        if focus in ("keep", "mix") and rng.random() < (0.45 if focus == "keep" else 0.12): f |= EF_KEEP
        if focus == "keep" and rng.random() < 0.3: f |= EF_REV
        return f
    steps = []
    n = rng.randint(18, 55)
    for _ in range(n):
        x = rng.random()
        if x < 0.46:
            steps.append(lock(rng.choice(conns), rng.choice(keys), rng.choice(lids), to=rng.choice(tos), ex=rng.choice(exs), cnt=rng.choice(cnts),
                              rc=rng.choice([0, 0, 0, 1, 2]), tf=tfl(), ef=efl()))
        elif x < 0.64:
            fl = 0
            if mode == "seq" and focus in ("uw", "mix", "lv") and rng.random() < (0.75 if focus == "uw" else 0.35):
                fl |= UF_TOWAIT
                if rng.random() < 0.3: fl |= UF_FIRST
            if fl & UF_TOWAIT:
                steps.append(unlock(rng.choice(conns), rng.choice(keys), rng.choice(lids), flag=fl, to=rng.choice([0, 1, 2, 3, 5, 8]), ex=rng.choice(exs[1:]),
                                    cnt=rng.choice(cnts), rc=rng.choice([0, 0, 1, 2]), tf=tfl(), ef=efl()))
            else:
                steps.append(unlock(rng.choice(conns), rng.choice(keys), rng.choice(lids), flag=fl, rc=rng.choice([0, 0, 1])))
        elif x < 0.90:
            steps.append(tick(rng.choice([1, 1, 1, 2, 3, 4])))
            if rng.random() < 0.5:
                steps.append(execn(rng.choice([0, 0, 0, 1])))
        elif x < 0.94:
            steps.append(close(rng.choice(conns)))
        else:
            steps.append(execn(rng.choice([0, 0, 1])))
    return scenario(name, steps, mode, drain=rng.choice([12, 14, 50]) if any(s.get("to", 0) > 10 or s.get("ex", 0) > 10 for s in steps) else 14)

def directed():
    d = []
    # RT: a queued request times out, is re-issued on the reversed key: free / held / held by its own LockId / palindromic key
    d.append(scenario("dir-rt-free", [lock(1, 1, 5, ex=10), lock(2, 1, 7, to=2, ex=5, tf=TF_REV), tick(3), execn(), tick(2)]))
    d.append(scenario("dir-rt-held-then-timeout-again", [lock(1, 1, 5, ex=12), lock(1, -1, 6, ex=12), lock(2, 1, 7, to=2, ex=5, tf=TF_REV), tick(3), execn(), tick(4), tick(4)]))
    d.append(scenario("dir-rt-own-lid-holds-reversed-key", [lock(1, 1, 5, ex=12), lock(2, -1, 7, ex=12, rc=1), lock(2, 1, 7, to=1, ex=5, rc=1, tf=TF_REV), tick(2), execn(), tick(3)]))
    d.append(scenario("dir-rt-palindromic-key", [lock(1, 900, 5, ex=4), lock(2, 900, 7, to=1, ex=5, tf=TF_REV), tick(2), execn(), tick(4), tick(6)]))
    d.append(scenario("dir-rt-all-timeout-flags-dropped", [lock(1, 1, 5, ex=20), lock(1, -1, 6, ex=20), lock(2, 1, 9, to=2, ex=5, tf=TF_REV | TF_LV | TF_KEEP), close(2), tick(3), execn(), tick(4)]))
    d.append(scenario("dir-rt-immediate-timeout-not-reissued", [lock(1, 1, 5, ex=10), lock(2, 1, 7, to=0, ex=5, tf=TF_REV), tick(2)]))
    d.append(scenario("dir-rt-three-at-once-two-runners", [lock(1, 1, 5, ex=12), lock(2, 1, 7, to=2, ex=5, tf=TF_REV), lock(3, 1, 8, to=2, ex=5, tf=TF_REV),
                                                          lock(4, 1, 9, to=2, ex=5, tf=TF_REV), tick(3), execn(1), execn(1), execn(), tick(3)]))
    # RE: a hold expires, is re-issued on the reversed key with Expried = Timeout; chain with RT
    d.append(scenario("dir-re-basic", [lock(1, 1, 5, to=3, ex=2, ef=EF_REV), tick(3), execn(), tick(5)]))
    d.append(scenario("dir-re-timeout-zero-no-hold", [lock(1, 1, 5, to=0, ex=2, ef=EF_REV), tick(3), execn(), tick(2)]))
    d.append(scenario("dir-re-then-rt-chain", [lock(2, -1, 6, ex=20), lock(1, 1, 5, to=2, ex=2, tf=TF_REV, ef=EF_REV), tick(3), execn(), tick(3), execn(), tick(4)]))
    d.append(scenario("dir-re-unlock-does-not-reissue", [lock(1, 1, 5, to=3, ex=6, ef=EF_REV), tick(1), unlock(1, 1, 5), tick(8)]))
    d.append(scenario("dir-re-depth-two", [lock(1, 1, 5, to=3, ex=3, rc=2, ef=EF_REV), lock(1, 1, 5, to=3, ex=3, rc=2, ef=EF_REV), tick(4), execn(), tick(5)]))
    d.append(scenario("dir-re-waiter-gets-key-reissue-elsewhere", [lock(1, 1, 5, to=4, ex=2, ef=EF_REV), lock(2, 1, 7, to=6, ex=3), tick(3), execn(), tick(6)]))
    # UW
    d.append(scenario("dir-uw-behind-queue", [lock(1, 1, 5, ex=10), lock(2, 1, 7, to=5, ex=3), lock(3, 1, 8, to=9, ex=3), unlock(1, 1, 5, flag=UF_TOWAIT, to=12, ex=4), tick(4), tick(4), tick(5)]))
    d.append(scenario("dir-uw-free-key-granted-at-once", [lock(1, 1, 5, ex=10), unlock(2, 1, 5, flag=UF_TOWAIT, to=3, ex=4), tick(6)]))
    d.append(scenario("dir-uw-timeout-zero-silent", [lock(1, 1, 5, ex=10), lock(2, 1, 7, to=5, ex=3), unlock(1, 1, 5, flag=UF_TOWAIT, to=0, ex=4), tick(5)]))
    d.append(scenario("dir-uw-depth-two-plain-unlock", [lock(1, 1, 5, ex=10, rc=2), lock(1, 1, 5, ex=10, rc=2), unlock(1, 1, 5, flag=UF_TOWAIT, to=3, ex=4, rc=1),
                                                       unlock(1, 1, 5, flag=UF_TOWAIT, to=3, ex=4, rc=0), tick(6)]))
    d.append(scenario("dir-uw-first-foreign-lid", [lock(1, 1, 5, to=4, ex=10, cnt=1), lock(2, 1, 7, to=5, ex=3, cnt=1), unlock(3, 1, 99, flag=UF_TOWAIT | UF_FIRST, to=7, ex=2), tick(5), tick(8)]))
    d.append(scenario("dir-uw-lessver-bumps-version", [lock(1, 1, 5, ex=10, tf=TF_LV), lock(2, 1, 3, to=2, ex=3, tf=TF_LV), unlock(1, 1, 5, flag=UF_TOWAIT, to=4, ex=4, tf=TF_LV),
                                                      lock(2, 1, 5, to=0, ex=3, tf=TF_LV), lock(2, 1, 6, to=0, ex=3, tf=TF_LV), tick(6)]))
    d.append(scenario("dir-uw-reissue-times-out-reversed", [lock(1, 1, 5, ex=10), lock(2, 1, 7, to=9, ex=8), unlock(1, 1, 5, flag=UF_TOWAIT, to=2, ex=4, tf=TF_REV), tick(3), execn(), tick(6)]))
    # LV
    d.append(scenario("dir-lv-lower-equal-higher", [lock(1, 1, 7, ex=10, cnt=1), lock(2, 1, 5, to=2, ex=3, cnt=1, tf=TF_LV), lock(2, 1, 1007, to=2, ex=3, cnt=1, tf=TF_LV),
                                                   lock(3, 1, 9, to=2, ex=3, cnt=1, tf=TF_LV), lock(3, 1, 8, to=0, ex=3, cnt=1, tf=TF_LV), tick(4), tick(4)]))
    d.append(scenario("dir-lv-higher-waits-until-holder-leaves", [lock(1, 1, 5, ex=3, cnt=2), lock(2, 1, 9, to=8, ex=3, cnt=2, tf=TF_LV), lock(3, 1, 4, to=8, ex=3, cnt=2), tick(5), tick(5)]))
    d.append(scenario("dir-lv-without-flag-plain", [lock(1, 1, 7, ex=10), lock(2, 1, 5, to=0, ex=3), lock(2, 1, 5, to=0, ex=3, tf=TF_LV), tick(2)]))
    d.append(scenario("dir-lv-second-holder-is-not-the-reference", [lock(1, 1, 5, ex=10, cnt=2), lock(2, 1, 3, to=0, ex=10, cnt=2), lock(3, 1, 4, to=0, ex=3, cnt=0, tf=TF_LV),
                                                                   unlock(1, 1, 5), lock(3, 1, 4, to=0, ex=3, cnt=0, tf=TF_LV), lock(3, 1, 2, to=0, ex=3, cnt=0, tf=TF_LV), tick(2)]))
    # LV2, second half: no holder at all (every queued request waits for the key to be RELEASED: timeout flag 0x0200, as the Event primitive
    # of the client library does) - the version is compared with the head waiter's.  The 0x0200 flag is outside this check's alphabet (the
    # history is not judged) but a crash is reported whatever the flags
    d.append(scenario("dir-lv-wait-when-unlocked-no-holder", [lock(1, 1, 5, to=5, ex=5, cnt=1, tf=0x0200), lock(2, 1, 3, to=5, ex=5, cnt=1, tf=TF_LV | 0x0200), tick(2)]))
    # KA
    d.append(scenario("dir-ka-timeout-rearmed-until-close", [lock(1, 1, 5, ex=30), lock(2, 1, 7, to=2, ex=5, tf=TF_KEEP), tick(9), close(2), tick(4)]))
    d.append(scenario("dir-ka-expiry-rearmed-until-close", [lock(1, 1, 5, ex=2, ef=EF_KEEP), lock(2, 1, 7, to=20, ex=2), tick(9), close(1), tick(4), tick(4)]))
    d.append(scenario("dir-ka-closed-before-first-deadline", [lock(1, 1, 5, ex=30), lock(2, 1, 7, to=3, ex=5, tf=TF_KEEP), close(2), tick(6)]))
    d.append(scenario("dir-ka-keepalive-then-reverse", [lock(1, 1, 5, ex=30), lock(2, 1, 7, to=2, ex=5, tf=TF_KEEP | TF_REV), tick(7), close(2), tick(3), execn(), tick(3)]))
    d.append(scenario("dir-ka-expiry-keepalive-then-reverse", [lock(1, 1, 5, to=2, ex=2, ef=EF_KEEP | EF_REV), tick(8), close(1), tick(3), execn(), tick(4)]))
    d.append(scenario("dir-ka-relock-moves-hold-to-other-connection", [lock(1, 1, 5, ex=2, rc=2, ef=EF_KEEP), lock(2, 1, 5, ex=2, rc=2, ef=EF_KEEP), close(1), tick(6), close(2), tick(4)]))
    d.append(scenario("dir-ka-uw-reissue-lives-on-unlockers-connection", [lock(1, 1, 5, ex=20), lock(3, 1, 8, to=30, ex=20), unlock(2, 1, 5, flag=UF_TOWAIT, to=2, ex=3, tf=TF_KEEP), close(1), tick(7), close(2), tick(4)]))
    # long tables (timer back-off horizon is 36 s)
    d.append(scenario("dir-rt-long-table", [lock(1, 1, 5, ex=60), lock(2, 1, 7, to=40, ex=5, tf=TF_REV), tick(42), execn(), tick(3)], drain=70))
    d.append(scenario("dir-ka-long-table", [lock(1, 1, 5, ex=100), lock(2, 1, 7, to=40, ex=5, tf=TF_KEEP), tick(85), close(2), tick(42)], drain=110))
    return d

def free_histories(rng, n, prefix):
    """runners not gated: bursts of flagged waiters that time out in the same second, holds that expire together"""
    out = []
    for i in range(n):
        steps = []
        nk = rng.choice([1, 2, 3])
        lidn = 1
        for k in range(1, nk + 1):
            steps.append(lock(1, k, 500, ex=rng.choice([8, 12])))
            if rng.random() < 0.6:
                steps.append(lock(1, -k, 501, ex=rng.choice([3, 6, 12])))
        for j in range(rng.randint(6, 24)):
            k = rng.randint(1, nk)
            k = k if rng.random() < 0.7 else -k
            lidn += 1
            steps.append(lock(1 + j % 4, k, lidn, to=rng.choice([1, 1, 2]), ex=rng.choice([1, 2, 3]), cnt=rng.choice([0, 0, 3]),
                              tf=TF_REV if rng.random() < 0.8 else 0, ef=EF_REV if rng.random() < 0.5 else 0))
        steps.append(tick(rng.choice([3, 4])))
        for j in range(rng.randint(0, 6)):
            lidn += 1
            steps.append(lock(1 + j % 4, rng.choice([1, -1]), lidn, to=1, ex=1, tf=TF_REV, ef=EF_REV))
        steps.append(tick(rng.choice([4, 6])))
        out.append(scenario(f"{prefix}-{i}", steps, mode="free", drain=16))
    return out

"""Common plumbing of every check: tiers, seeds, evidence files, known findings, verdict lines."""
import json, os, sys, time, shutil, traceback, hashlib
import vbuild
from vbuild import VERIF, InfraError

KNOWN_FILE = os.path.join(VERIF, "known_findings.json")

def seed_from_env():
    try:
        return int(os.environ.get("VERIF_SEED", "1"))
    except ValueError:
        return 1

def load_known():
    if not os.path.exists(KNOWN_FILE):
        return []
    with open(KNOWN_FILE) as fh:
        return json.load(fh)["findings"]

def _match(sig, v):
    """sig: dict of dotted-path -> expected value (or {"in": [...]}, {"prefix": s}); v: violation dict."""
    for path, want in sig.items():
        cur = v
        for part in path.split("."):
            if isinstance(cur, dict) and part in cur:
                cur = cur[part]
            else:
                return False
        if isinstance(want, dict):
            if "in" in want and cur not in want["in"]:
                return False
            if "prefix" in want and not str(cur).startswith(want["prefix"]):
                return False
        elif cur != want:
            return False
    return True

def classify(prop, viols):
    """Split violations of `prop` into (new, known) using known_findings.json; 'fixed' entries suppress nothing."""
    known = [k for k in load_known() if k["property"] == prop and k["status"] == "known"]
    new, old = [], []
    for v in viols:
        hit = None
        for k in known:
            if _match(k["signature"], v):
                hit = k
                break
        if hit:
            old.append((hit, v))
        else:
            new.append(v)
    return new, old

def save_replay(prop, v, payload):
    os.makedirs(os.path.join(VERIF, "replays"), exist_ok=True)
    h = hashlib.sha1(json.dumps(payload, sort_keys=True).encode()).hexdigest()[:12]
    path = os.path.join(VERIF, "replays", f"{prop}_{h}.json")
    with open(path, "w") as fh:
        json.dump({"property": prop, "violation": v, "replay": payload}, fh, indent=1)
    return path

def write_evidence(prop, tier, seed, level, coverage, assumptions, wall, nviol):
    evdir = os.environ.get("VERIF_EVIDENCE_DIR") or os.path.join(VERIF, "evidence")   # seed runs write elsewhere
    os.makedirs(evdir, exist_ok=True)
    ev = {"property_id": prop, "tier": tier, "seed": seed, "level": level, "coverage": coverage,
          "assumptions": assumptions, "wall_s": round(wall, 2), "violations": nviol}
    path = os.path.join(evdir, f"{prop}.json")
    tmp = path + ".tmp"
    with open(tmp, "w") as fh:
        json.dump(ev, fh, indent=1, default=str)
    os.replace(tmp, path)
    return path

class Outcome:
    def __init__(self):
        self.viols = []          # list of (violation dict, replay payload)
        self.coverage = {}
        self.assumptions = []
        self.level = "model_checking"

def finish(prop, tier, seed, t0, outcome):
    """Print verdict lines, write evidence, return exit code."""
    new, old = classify(prop, [v for v, _ in outcome.viols])
    payload_of = {json.dumps(v, sort_keys=True, default=str): p for v, p in outcome.viols}
    seen_known = set()
    known_examples = {}
    for k, v in old:
        if k["id"] not in seen_known:
            seen_known.add(k["id"])
            known_examples[k["id"]] = json.loads(json.dumps({x: v[x] for x in v if x != "file"}, default=str)[:1200] if len(json.dumps(v, default=str)) <= 1200 else json.dumps({"code": v.get("code"), "name": v.get("name"), "detail": str(v.get("detail"))[:900]}))
            print(f"KNOWN-FINDING: property={prop} {k['id']}: {k['what']}")
    cov = dict(outcome.coverage)
    cov["known_findings_seen"] = sorted(seen_known)
    cov["known_findings_first_occurrence"] = known_examples
    cov["new_violations"] = len(new)
    rc = 0
    reported = set()
    for v in new:
        sigkey = (v.get("code"), json.dumps(v.get("detail", {}), sort_keys=True, default=str)[:200])
        path = save_replay(prop, v, payload_of.get(json.dumps(v, sort_keys=True, default=str)))
        if v.get("code") in reported:
            continue
        reported.add(v.get("code"))
        print(f"VIOLATION property={prop} replay={path}")
        print("  " + json.dumps({k: v[k] for k in v if k != "file"}, default=str)[:800])
        rc = 1
    write_evidence(prop, tier, seed, outcome.level, cov, outcome.assumptions, time.time() - t0, len(new))
    return rc

def main_wrapper(fn, prop, tier):
    """Run a check function; infrastructure problems exit 2 (never a violation)."""
    seed = seed_from_env()
    t0 = time.time()
    try:
        outcome = fn(prop, tier, seed)
        rc = finish(prop, tier, seed, t0, outcome)
    except InfraError as ex:
        print(f"INFRA-ERROR property={prop}: {ex}", file=sys.stderr)
        rc = 2
    except Exception:
        traceback.print_exc()
        print(f"INFRA-ERROR property={prop}: unexpected exception in the checker", file=sys.stderr)
        rc = 2
    dirty = vbuild.repo_clean_guard()
    return rc

"""Concretiser for the output-path phase of property C13: behaviours of spec/OutBufGen.tla -> deliveries.

A behaviour is {"replies": [{"k": "lock"|"other", "d": data frame length}], "labels": [...], "chunks": [...]}: the replies ONE
pipelined batch of a binary connection has to produce.  The delivery that makes the real server produce them:

  step 1 (set-up, one write)   for every distinct data length d: LOCK of a key of its own by lock id A with a SET value frame of
                               d bytes (4-byte length, 2-byte header, d-6 value bytes), held for 20 s
  step 2 (the batch)           one 64-byte frame per reply: a try-lock (timeout 0) of the key that holds d bytes by a fresh lock id
                               (answered TIMEOUT + the key's value frame), a lock / unlock of a free key (answered bare), a PING;
                               all frames in ONE write unless `cuts` says otherwise
Every step is followed by the driver's sentinel PING in a write of its own (a single frame: never buffered).

The step carries `ob`: what spec/mon/MonOutBuf.tla needs to replay the output model over the step (reply kinds and sizes in
request order, the sizes of the client's writes) and what the client must read back (request ids, checksum of each data frame).
"""
import struct
import protoconc
from protoconc import frame, lock_rest, resp

H = 64
CAP = 4096
DB = 3                      # not a probe db (126, 250)


def fnv(b):
    h = 2166136261
    for c in b:
        h = ((h ^ c) * 16777619) & 0xffffffff
    return "%08x" % h


def value_frame(d, rng):
    """a SET value frame of d bytes in all (d >= 6)"""
    assert d >= 6
    body = bytes([0, 0]) + rng.randbytes(d - 6)
    return struct.pack("<I", len(body)) + body


def step(cls, data, cuts, rec, ob, wait=3000, mode="bin", sent=None):
    return {"aux": [], "cls": cls, "hex": data.hex(), "fn": 0, "fb": 0, "hex2": "", "cuts": cuts, "sent": sent or mode, "wait": wait,
            "mode": mode, "rec": rec, "ob": ob}


def bin_delivery(beh, rng, name, cuts=None, kind="pattern"):
    tag = "%08x" % rng.getrandbits(32)
    nkey = [0]

    def fresh():
        nkey[0] += 1
        n = ("o%s%03d" % (tag, nkey[0])).encode()
        return bytes(16 - len(n)) + n

    keys, setup, sums = {}, b"", {}
    for r in beh["replies"]:
        d = r["d"]
        if r["k"] == "lock" and d > 0 and d not in keys:
            key = fresh()
            vf = value_frame(d, rng)
            keys[d], sums[d] = key, fnv(vf)
            setup += frame(1, rng.randbytes(16), lock_rest(0x20, DB, key, key, 0, 0, 20, 0)) + vf
    batch, rids, xs = b"", [], []
    for r in beh["replies"]:
        rid = rng.randbytes(16)
        rids.append(rid.hex())
        if r["k"] == "other":
            batch += frame(5, rid)
            xs.append({"t": 5, "d": 0, "sum": ""})
        elif r["d"] > 0:
            batch += frame(1, rid, lock_rest(0, DB, rng.randbytes(16), keys[r["d"]], 0, 0, 5, 0))
            xs.append({"t": 1, "d": r["d"], "sum": sums[r["d"]]})
        elif rng.getrandbits(1):
            k = fresh()
            batch += frame(1, rid, lock_rest(0, DB, k, k, 0, 0, 1, 0))
            xs.append({"t": 1, "d": 0, "sum": ""})
        else:
            k = fresh()
            batch += frame(2, rid, lock_rest(0, DB, k, k))
            xs.append({"t": 2, "d": 0, "sum": ""})
    cuts = sorted(c for c in (cuts or []) if 0 < c < len(batch))
    edges = [0] + cuts + [len(batch)]
    writes = [edges[i + 1] - edges[i] for i in range(len(edges) - 1)]
    ob = {"fam": "bin", "kind": kind, "replies": [{"k": r["k"], "d": r["d"]} for r in beh["replies"]], "writes": writes, "rids": rids, "expect": xs,
          "pat": (beh.get("labels") or []) if not cuts else []}
    pat = " ".join(beh.get("labels") or [])
    steps = [step("ob:setup:%d" % len(keys), setup, [], "", {"fam": "none"}),
             step("ob:bin:%s:%s" % (kind, pat if len(pat) < 200 else pat[:200] + "..."), batch, cuts, "bin", ob)]
    return {"name": name, "steps": steps, "hold": 0, "path": []}


def text_delivery(vlen, ngets, rng, name, between=False):
    """SET key <value of vlen bytes>, then ngets GETs of it (optionally PINGs in between) in ONE write"""
    tag = "%08x" % rng.getrandbits(32)
    key = ("t" + tag).encode()
    val = bytes(rng.choice(b"abcdefghijklmnopqrstuvwxyz0123456789") for _ in range(vlen))
    setup = resp([b"SELECT", b"%d" % DB]) + resp([b"SET", key, val])
    get_reply = b"$%d\r\n%s\r\n" % (len(val), val)
    batch, xs = b"", []
    for i in range(ngets):
        batch += resp([b"GET", key])
        xs.append({"t": ord("$"), "d": len(val), "n": len(get_reply), "sum": fnv(get_reply)})
        if between and i + 1 < ngets:
            batch += resp([b"PING"])
            xs.append({"t": ord("+"), "d": -1, "n": 7, "sum": fnv(b"+PONG\r\n")})
    ob = {"fam": "text", "kind": "text", "expect": xs, "replylen": len(get_reply)}
    steps = [step("ob:textsetup", setup, [], "", {"fam": "none"}, mode="text"),
             step("ob:text:get:%d:x%d" % (len(get_reply), ngets), batch, [], "text", ob, mode="text")]
    return {"name": name, "steps": steps, "hold": 0, "path": []}


def text_lock_delivery(vlen, nlocks, rng, name):
    """a key held with a value of vlen bytes; nlocks text LOCKs (timeout 0) of it in ONE write: each reply carries DATA <value>"""
    tag = "%08x" % rng.getrandbits(32)
    key = ("u" + tag).encode()
    val = bytes(rng.choice(b"abcdefghijklmnopqrstuvwxyz0123456789") for _ in range(vlen))
    setup = resp([b"SELECT", b"%d" % DB]) + resp([b"LOCK", key, b"TIMEOUT", b"0", b"EXPRIED", b"20", b"SET", val])
    batch = b"".join(resp([b"LOCK", key, b"TIMEOUT", b"0", b"EXPRIED", b"5"]) for _ in range(nlocks))
    ob = {"fam": "text", "kind": "textlock", "expect": [], "count": nlocks, "vlen": vlen}
    steps = [step("ob:textsetup", setup, [], "", {"fam": "none"}, mode="text"),
             step("ob:text:lock:%d:x%d" % (vlen, nlocks), batch, [], "text", ob, mode="text")]
    return {"name": name, "steps": steps, "hold": 0, "path": []}

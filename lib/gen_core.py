"""Seeded wide-range scenario generator for engine S (core command subset, virtual clock).

These histories complement the TLC-generated behaviours: they use parameter ranges the bounded
model cannot hold (Count up to 0xffff, hundreds of holders / waiters, long timers that migrate to
the long-wait tables).  The monitors (unbounded TLA+) judge them."""
import random

PROFILES = ["mutex", "sem", "reent", "prio", "long", "mixed", "flags", "zero", "multi_db"]

def _lock(rng, p, **kw):
    d = {"op": "lock", "conn": rng.randint(1, p["conns"]), "db": rng.choice(p["dbs"]), "key": rng.choice(p["keys"]),
         "lid": rng.choice(p["lids"]), "flag": 0, "tf": 0, "ef": 0, "to": rng.choice(p["timeouts"]),
         "ex": rng.choice(p["expireds"]), "cnt": rng.choice(p["counts"]), "rc": rng.choice(p["rcounts"]), "nodup": True}
    if p.get("prio") and rng.random() < p["prio"]:
        d["tf"] |= 0x10
        d["rc"] = rng.choice(p["prios"])
    if p.get("minute") and rng.random() < p["minute"]:
        if rng.random() < 0.5:
            d["tf"] |= 0x40
            d["to"] = rng.choice([0, 1, 1, 2])
        else:
            d["ef"] |= 0x40
            d["ex"] = rng.choice([1, 1, 2])
    r = rng.random()
    if r < p.get("show", 0):
        d["flag"] |= 0x01
    elif r < p.get("show", 0) + p.get("update", 0):
        d["flag"] |= 0x02
    elif r < p.get("show", 0) + p.get("update", 0) + p.get("showupdate", 0):
        d["flag"] |= 0x03
    if rng.random() < p.get("conc", 0):
        d["flag"] |= 0x08
        d["to"] = 0
    if rng.random() < p.get("unlimited", 0):
        d["ef"] |= 0x4000
        if d["ex"] == 0:
            d["ex"] = 5
    if rng.random() < p.get("aofflags", 0):
        d["ef"] |= rng.choice([0x0100, 0x0200, 0x1000])
    if rng.random() < p.get("waitunlock", 0):
        d["tf"] |= 0x0200
    if rng.random() < p.get("data", 0.12):
        # contains-data (0x20): a SET of a short payload rides on the request.  The lock clauses do not look at values; C17's
        # "the keys' values are gone" and the census of recycled key records do.
        pl = bytes(rng.randrange(97, 123) for _ in range(rng.randint(1, 12)))
        d["data"] = (len(pl) + 2).to_bytes(4, "little").hex() + "0000" + pl.hex()
    d.update(kw)
    return d

def _unlock(rng, p, **kw):
    d = {"op": "unlock", "conn": rng.randint(1, p["conns"]), "db": rng.choice(p["dbs"]), "key": rng.choice(p["keys"]),
         "lid": rng.choice(p["lids"]), "flag": 0, "tf": 0, "ef": 0, "to": 0, "ex": 0, "cnt": 0,
         "rc": rng.choice(p["rcounts"])}
    r = rng.random()
    if r < p.get("ufirst", 0):
        d["flag"] |= 0x01
    elif r < p.get("ufirst", 0) + p.get("ucancel", 0):
        d["flag"] |= 0x02
    if p.get("prio") and rng.random() < 0.1:
        d["tf"] |= 0x10
    d.update(kw)
    return d

def profile(name, rng):
    base = {"conns": 4, "dbs": [0], "keys": [1, 2], "lids": [1, 2, 3, 4, 5], "timeouts": [0, 0, 1, 2, 3, 5, 8],
            "expireds": [0, 2, 3, 5, 10, 10, 20], "counts": [0], "rcounts": [0], "ufirst": 0.05, "ucancel": 0.08,
            "show": 0.03, "update": 0.05, "showupdate": 0.01, "conc": 0.03, "unlimited": 0.03, "aofflags": 0.08,
            "steps": 40, "ptick": 0.25, "punlock": 0.35, "tickmax": 3}
    p = dict(base)
    if name == "mutex":
        pass
    elif name == "sem":
        p.update(counts=rng.choice([[1], [2], [1, 2], [0, 1, 2, 5], [2, 0xffff], [0xfffe, 0xffff, 3]]), lids=list(range(1, 9)))
    elif name == "reent":
        p.update(rcounts=rng.choice([[1], [2], [0, 1, 3], [255], [0, 255]]), counts=rng.choice([[0], [0, 1], [3]]), lids=[1, 2, 3],
                 punlock=0.4)
    elif name == "prio":
        p.update(prio=rng.choice([0.5, 0.9, 1.0]), prios=rng.choice([[0, 1, 2], [1, 5, 9], [3], [0, 255, 7, 7]]), counts=rng.choice([[0], [1], [0, 2]]),
                 lids=list(range(1, 10)), timeouts=[2, 5, 8, 12, 20], keys=[1])
    elif name == "long":
        p.update(timeouts=[0, 5, 9, 12, 20, 37, 45, 70], expireds=[5, 9, 12, 20, 38, 50, 90, 130], tickmax=rng.choice([3, 12, 40]),
                 ptick=0.35, counts=rng.choice([[0], [1], [0, 1]]), minute=rng.choice([0, 0, 0.1]))
    elif name == "mixed":
        p.update(counts=[0, 1, 2, 0xffff], rcounts=[0, 0, 1, 2], keys=[1, 2, 3], lids=list(range(1, 8)),
                 timeouts=[0, 1, 3, 5, 12, 40], expireds=[0, 1, 3, 8, 15, 40, 60], tickmax=rng.choice([2, 6, 15]), prio=rng.choice([0, 0, 0.2]),
                 prios=[0, 1, 2])
    elif name == "flags":
        p.update(show=0.12, update=0.2, showupdate=0.05, conc=0.1, unlimited=0.1, aofflags=0.25, ufirst=0.15, ucancel=0.2, waitunlock=0.12,
                 counts=[0, 1], rcounts=[0, 1], expireds=[0, 3, 6, 10, 30, 45], timeouts=[0, 2, 5, 10, 38])
    elif name == "zero":
        # the all-zero key and LockId, a one-slot key table so managers collide and recycle constantly
        p.update(keys=[0, 1, 2, 64], lids=[0, 1, 2], counts=[0, 1], expireds=[0, 0, 2, 4, 10], cfg={"fastkeys": 1})
    elif name == "multi_db":
        p.update(dbs=[0, 1, 7, 254], keys=[1, 2], counts=[0, 1])
    return p

def gen_scenario(seed, idx, name=None, steps=None):
    rng = random.Random(seed * 1000003 + idx)
    name = name or PROFILES[idx % len(PROFILES)]
    p = profile(name, rng)
    n = steps or p["steps"]
    out = []
    maxT, maxE = 0, 0
    for _ in range(n):
        r = rng.random()
        if r < p["ptick"]:
            out.append({"op": "tick", "n": rng.randint(1, p["tickmax"]), "order": rng.choice(["te", "te", "et"])})
        elif r < p["ptick"] + p["punlock"]:
            out.append(_unlock(rng, p))
        else:
            d = _lock(rng, p)
            out.append(d)
            t = d["to"] * (60 if d["tf"] & 0x40 else 1)
            e = d["ex"] * (60 if d["ef"] & 0x40 else 1)
            if not d["ef"] & 0x4000:
                maxE = max(maxE, e)
            maxT = max(maxT, t)
    out.append({"op": "drain", "n": min(maxT + 4, 400)})
    sc = {"name": f"rnd-{name}-{seed}-{idx}", "cfg": p.get("cfg", {}), "steps": out, "complete": True, "mode": "seq"}
    return sc

def gen_big(seed, idx):
    """Holder / waiter populations that cross the representation switches (6/128 holder slots,
    8/128 waiter slots, priority ring) and releases in random order."""
    rng = random.Random(seed * 7919 + idx)
    kind = idx % 7
    steps = []
    if kind == 0:      # many holders on a semaphore key, random-order unlock, re-lock some
        n = rng.choice([10, 140, 200])
        cnt = rng.choice([n, 0xffff, n + 5])
        lids = list(range(1, n + 1))
        for l in lids:
            steps.append({"op": "lock", "conn": 1 + l % 3, "key": 1, "lid": l, "to": 0, "ex": 50, "cnt": cnt, "rc": rng.choice([0, 1])})
        rng.shuffle(lids)
        for l in lids[: n // 2]:
            steps.append({"op": "unlock", "conn": 1, "key": 1, "lid": l, "rc": 0})
        for l in lids[: n // 4]:
            steps.append({"op": "unlock", "conn": 1, "key": 1, "lid": l, "rc": 0})      # second unlock: must be refused
            steps.append({"op": "lock", "conn": 2, "key": 1, "lid": l, "to": 0, "ex": 50, "cnt": cnt})
        steps.append({"op": "lock", "conn": 2, "key": 1, "lid": 100000, "to": 0, "ex": 5, "cnt": 3})   # Count 3 newcomer: refused if > 3 holds
    elif kind == 1:    # many waiters FIFO, then release one by one
        n = rng.choice([9, 20, 135, 160, 300])
        steps.append({"op": "lock", "conn": 1, "key": 1, "lid": 1, "to": 0, "ex": 300, "cnt": 0})
        for i in range(n):
            steps.append({"op": "lock", "conn": 2 + i % 3, "key": 1, "lid": 10 + i, "to": rng.choice([30, 50, 100]), "ex": 300, "cnt": 0, "nodup": True})
        if n > 150:
            # cancel waiters that sit in the overflow part of the wait queue while its first part is still full
            for v in rng.sample(range(145, n), 3):
                steps.append({"op": "unlock", "conn": 1, "key": 1, "lid": 10 + v, "flag": 2})
        steps.append({"op": "unlock", "conn": 1, "key": 1, "lid": 1})
        for i in range(n // 2):
            if rng.random() < 0.2:
                steps.append({"op": "unlock", "conn": 1, "key": 1, "lid": 10 + rng.randint(0, n - 1), "flag": 2})   # cancel a waiter
            steps.append({"op": "unlock", "conn": 1, "key": 1, "lid": 10 + i})
        steps.append({"op": "tick", "n": 3})
    elif kind == 2:    # priority waiters, mixed priorities, enough to use the priority ring
        n = rng.choice([5, 12, 40, 140])
        steps.append({"op": "lock", "conn": 1, "key": 1, "lid": 1, "to": 0, "ex": 300, "cnt": 0})
        for i in range(n):
            pr = rng.choice([0, 1, 1, 2, 5, 5, 9])
            tf = 0x10 if rng.random() < 0.8 else 0
            steps.append({"op": "lock", "conn": 2 + i % 3, "key": 1, "lid": 10 + i, "to": rng.choice([40, 60]), "tf": tf, "ex": 300, "cnt": 0, "rc": pr, "nodup": True})
        lids = [1] + [10 + i for i in range(n)]
        for _ in range(n + 1):
            # always release the current oldest holder via unlock-first with a LockId nobody holds
            steps.append({"op": "unlock", "conn": 1, "key": 1, "lid": 999999, "flag": 1})
            if rng.random() < 0.15:
                steps.append({"op": "tick", "n": 1})
    elif kind == 4:    # waiters parked in the long-wait table (> 8 re-checks), holes punched by grants / cancels before the deadline
        n = rng.choice([3, 5, 9])
        T = rng.choice([52, 60, 75])     # the hand-over to the long table happens at the 9th re-check, ~ +44 s
        c = rng.choice([0, 1])
        steps.append({"op": "lock", "conn": 1, "key": 1, "lid": 1, "to": 0, "ex": 300, "cnt": c})
        if c:
            steps.append({"op": "lock", "conn": 1, "key": 1, "lid": 2, "to": 0, "ex": 300, "cnt": c})
        for i in range(n):
            steps.append({"op": "lock", "conn": 2 + i % 3, "key": 1, "lid": 10 + i, "to": T if rng.random() < 0.8 else T + 1, "ex": 300, "cnt": c, "nodup": True})
            if rng.random() < 0.2:
                steps.append({"op": "tick", "n": 1})
        steps.append({"op": "tick", "n": rng.choice([45, 47, 49])})
        for i in range(n):
            r = rng.random()
            if r < 0.3:
                steps.append({"op": "unlock", "conn": 1, "key": 1, "lid": 10 + i, "flag": 2})     # cancel this waiter
            elif r < 0.5:
                steps.append({"op": "unlock", "conn": 1, "key": 1, "lid": 999999, "flag": 1})      # release the oldest holder: head waiter is granted
        steps.append({"op": "tick", "n": 35})
    elif kind == 5:    # holds parked in the long expiry table, then unlocked / re-locked / updated before the deadline
        n = rng.choice([3, 6, 10])
        E = rng.choice([52, 60, 75])
        for i in range(n):
            steps.append({"op": "lock", "conn": 1 + i % 3, "key": 1, "lid": 10 + i, "to": 0, "ex": E if rng.random() < 0.8 else E + 1, "cnt": 50, "rc": 2})
            if rng.random() < 0.2:
                steps.append({"op": "tick", "n": 1})
        steps.append({"op": "tick", "n": rng.choice([45, 47, 49])})
        for i in range(n):
            r = rng.random()
            if r < 0.25:
                steps.append({"op": "unlock", "conn": 1, "key": 1, "lid": 10 + i})
            elif r < 0.45:
                steps.append({"op": "lock", "conn": 1, "key": 1, "lid": 10 + i, "to": 0, "ex": rng.choice([5, 30, 80]), "cnt": 50, "rc": 2})          # re-lock restarts the period
            elif r < 0.65:
                steps.append({"op": "lock", "conn": 1, "key": 1, "lid": 10 + i, "flag": 2, "to": 0, "ex": rng.choice([5, 30, 80]), "cnt": 50, "rc": 2})  # update
        steps.append({"op": "tick", "n": 100})
    elif kind == 6:    # holder population large enough for the map-backed "scale" holder queue (> ~193 queued holders),
                       # released oldest-first so holders are promoted out of the scale queue; LockIds reused afterwards
        n = rng.choice([230, 260, 300])
        cnt = rng.choice([0xffff, n + 10])
        for l in range(1, n + 1):
            steps.append({"op": "lock", "conn": 1 + l % 3, "key": 1, "lid": l, "to": 0, "ex": 200, "cnt": cnt, "rc": 0})
        released = []
        for l in range(1, n - 15):
            steps.append({"op": "unlock", "conn": 1, "key": 1, "lid": l, "rc": 0})
            released.append(l)
            if l > 195 and rng.random() < 0.25:
                v = rng.choice(released[-20:])
                steps.append({"op": "unlock", "conn": 2, "key": 1, "lid": v, "rc": 0})          # duplicate unlock: must be refused
            if l > 195 and rng.random() < 0.15:
                v = rng.choice(released[-20:])
                released.remove(v)
                # LockId reused: a new hold - admissible only if the request's own Count allows the outstanding holds
                steps.append({"op": "lock", "conn": 2, "key": 1, "lid": v, "to": 0, "ex": rng.choice([5, 200]), "cnt": rng.choice([cnt, cnt, 3, 0])})
        steps.append({"op": "tick", "n": 8})
    else:              # semaphore with waiters of mixed Count: wake passes that admit several at once
        c = rng.choice([2, 3, 5])
        for l in range(1, c + 2):
            steps.append({"op": "lock", "conn": 1, "key": 1, "lid": l, "to": 0, "ex": 100, "cnt": c})
        for i in range(rng.choice([6, 12, 30])):
            steps.append({"op": "lock", "conn": 2, "key": 1, "lid": 50 + i, "to": 60, "ex": 100, "cnt": rng.choice([0, 1, c, c, c + 3]), "nodup": True})
        for l in range(1, c + 2):
            steps.append({"op": "unlock", "conn": 1, "key": 1, "lid": l})
            if rng.random() < 0.3:
                steps.append({"op": "tick", "n": rng.randint(1, 3)})
        steps.append({"op": "tick", "n": 5})
    steps.append({"op": "drain", "n": 110})
    return {"name": f"big-{kind}-{seed}-{idx}", "cfg": {}, "steps": steps, "complete": True, "mode": "seq", "snap": 1 if len(steps) > 150 else 0}


def gen_edge(seed, idx):
    """Boundary values of the request fields: timers near the 16-bit / unit-conversion limits (minute flag x 60 does
    not fit 16 bits from 1093 minutes on), re-entrant depth at the 8-bit limit, Count at the 16-bit limit, and
    zero-expiry waiters (answered without ever holding) in front of other waiters."""
    rng = random.Random(seed * 104729 + idx * 13 + 5)
    kind = idx % 4
    steps = []
    L = lambda **kw: dict({"op": "lock", "conn": 1, "db": 0, "key": 1, "lid": 1, "flag": 0, "tf": 0, "ef": 0, "to": 0, "ex": 30, "cnt": 0, "rc": 0, "nodup": True}, **kw)
    U = lambda **kw: dict({"op": "unlock", "conn": 1, "db": 0, "key": 1, "lid": 1, "flag": 0, "tf": 0, "ef": 0, "to": 0, "ex": 0, "cnt": 0, "rc": 0}, **kw)
    if kind == 0:
        # huge wait timeouts and expiries: nothing may fire early while the clock runs for some hundred seconds
        bigmin = [1092, 1093, 1100, 2185, 4000, 65535]
        bigsec = [3000, 40000, 65535]
        steps.append(L(lid=1, ex=rng.choice(bigmin), ef=0x40))                      # holder, minute expiry
        steps.append(L(key=2, lid=2, ex=rng.choice(bigsec)))                        # holder, seconds expiry
        for i in range(rng.randint(2, 5)):
            if rng.random() < 0.6:
                steps.append(L(conn=2, lid=10 + i, to=rng.choice(bigmin), tf=0x40, ex=rng.choice([5, 1100]), ef=rng.choice([0, 0x40])))
            else:
                steps.append(L(conn=2, key=2, lid=10 + i, to=rng.choice(bigsec), ex=5))
        if rng.random() < 0.5:
            steps.append(L(lid=1, flag=2, ex=rng.choice(bigmin), ef=0x40))          # update to another huge expiry
        for _ in range(rng.randint(2, 4)):
            steps.append({"op": "tick", "n": rng.choice([60, 200, 470, 700])})
            if rng.random() < 0.4:
                steps.append(U(conn=2, lid=10, flag=2))                             # cancel one waiter
        steps.append(U(lid=1))
        steps.append(U(key=2, lid=2))
        steps.append({"op": "tick", "n": 3})
    elif kind == 1:
        # re-entrant depth up to (and past) the 8-bit limit
        rc = rng.choice([254, 255, 255])
        cnt = rng.choice([0, 1])
        n = rc + rng.choice([0, 1, 2, 3])
        for i in range(n + 1):
            steps.append(L(lid=1, rc=rc, cnt=cnt, ex=300))
        steps.append(L(conn=2, lid=2, cnt=cnt, to=0, ex=5))                         # a second owner: admissible only if Count allows
        steps.append(U(lid=1, rc=1))                                                # one level
        steps.append(L(conn=2, lid=2, cnt=cnt, to=0, ex=5))
        for _ in range(rng.randint(0, 4)):
            steps.append(U(lid=1, rc=1))
        steps.append(L(lid=1, rc=rc, cnt=cnt, ex=300))
        steps.append(U(lid=1, rc=0))                                                # all levels
        steps.append(U(lid=1, rc=1))                                                # must be refused
        steps.append(L(conn=2, lid=3, cnt=cnt, to=0, ex=5))
    elif kind == 2:
        # Count at the 16-bit limit, many holders, a newcomer with a small Count
        cnt = rng.choice([0xffff, 0xfffe, 0x8000])
        n = rng.choice([3, 40, 300])
        for l in range(1, n + 1):
            steps.append(L(conn=1 + l % 3, lid=l, cnt=cnt, ex=100, rc=rng.choice([0, 0, 2])))
        steps.append(L(conn=2, lid=5000, cnt=rng.choice([0, 1, n - 1, n]), to=0, ex=5))
        steps.append(L(conn=2, lid=5001, cnt=cnt, to=2, ex=5))
        for l in rng.sample(range(1, n + 1), min(n, 20)):
            steps.append(U(lid=l, rc=0))
        steps.append({"op": "tick", "n": 4})
    else:
        # zero-expiry waiters (granted and gone at once) in front of ordinary waiters, on exclusive and shared keys
        cnt = rng.choice([0, 0, 1])
        steps.append(L(lid=1, cnt=cnt, ex=rng.choice([3, 50])))
        if cnt:
            steps.append(L(lid=2, cnt=cnt, ex=50))
        for i in range(rng.randint(2, 6)):
            steps.append(L(conn=2 + i % 2, lid=20 + i, cnt=rng.choice([cnt, cnt, 0]), to=rng.choice([20, 60]),
                           ex=0 if rng.random() < 0.5 else rng.choice([2, 40]), tf=rng.choice([0, 0, 0x0200])))
        if rng.random() < 0.5:
            steps.append({"op": "tick", "n": rng.randint(1, 5)})
        steps.append(U(lid=1))
        if cnt:
            steps.append(U(lid=2))
        steps.append(L(conn=4, lid=99, cnt=cnt, to=0, ex=5))                        # a late arrival must not overtake live waiters
        steps.append({"op": "tick", "n": rng.randint(1, 6)})
    steps.append({"op": "drain", "n": 110})
    return {"name": f"edge-{kind}-{seed}-{idx}", "cfg": {}, "steps": steps, "complete": True, "mode": "seq", "snap": 0}


# ---------------------------------------------------------------------------------------------------------------------
# terms of a hold that CHANGE between the requests of one LockId (Count / Rcount carried by re-locks and updates)

def gen_terms(seed, idx):
    """Histories in which the requests of ONE LockId carry different Count / Rcount values while the hold lives:
    updates that change only Count / Rcount (deadline class unchanged: unlimited -> unlimited, timed -> the same
    deadline within the granularity, keep-the-deadline 0xffff), by the oldest holder or by a later one, with flag 0x02
    by the holder or 0x03 (show + update) by anybody; re-entrant re-locks with another Count; other LockIds holding the
    key meanwhile; then newcomers whose admission depends on the holder's NEW Count, unlocks / re-locks / duplicate
    unlocks of the OTHER holders, and the levels of the re-entrant hold released.  The wide-range complement of the
    `relock` / `newcomer` / `hunlock` turn classes of spec/LockEngineSim.tla (sim/LockEngine_sim_terms.cfg)."""
    rng = random.Random(seed * 15485863 + idx * 31 + 7)
    kind = idx % 3
    db = rng.choice([0, 0, 0, 3])
    key = rng.choice([1, 1, 2, 0, 77])
    L = lambda **kw: dict({"op": "lock", "conn": rng.randint(1, 4), "db": db, "key": key, "lid": 1, "flag": 0, "tf": 0, "ef": 0, "to": 0, "ex": 60, "cnt": 0, "rc": 0, "nodup": True}, **kw)
    U = lambda **kw: dict({"op": "unlock", "conn": rng.randint(1, 4), "db": db, "key": key, "lid": 1, "flag": 0, "tf": 0, "ef": 0, "to": 0, "ex": 0, "cnt": 0, "rc": 0}, **kw)
    steps = []
    # deadline class of the hold whose terms change: (expiry flag, Expried of the first request, Expried of the later ones)
    cls = rng.choice(["unl", "unl", "unl", "sec", "sec", "min", "keep"])
    def terms_of(first):
        if cls == "unl":
            return {"ef": 0x4000, "ex": rng.choice([1, 5, 30, 0x7fff, 0xfffe])}
        if cls == "keep":
            return {"ef": 0x4000 if (first or rng.random() < 0.8) else 0, "ex": rng.choice([5, 40]) if first else 0xffff} if not first else {"ef": rng.choice([0, 0x4000]), "ex": 50}
        if cls == "min":
            return {"ef": 0x40, "ex": 2}
        return {"ef": 0, "ex": 50}
    def fix_keep(d):
        if cls == "keep" and d["ex"] == 0xffff:
            d["ef"] = 0x4000
        return d
    A = rng.choice([1, 5, 9])
    if kind == 0:
        # (a) Count-only / Rcount-only updates, newcomers judged against the new Count
        c0 = rng.choice([1, 2, 3, 5, 0xffff])
        nother = rng.choice([0, 0, 1, 2]) if c0 < 0xffff else rng.choice([0, 3, 8])
        first_is_A = rng.random() < 0.7
        order = [A] + [20 + i for i in range(nother)]
        if not first_is_A and nother:
            order = order[1:2] + [A] + order[2:]
        for l in order:
            steps.append(L(lid=l, cnt=max(c0, nother), rc=rng.choice([0, 1, 3]), **(terms_of(True) if l == A else {"ef": rng.choice([0, 0x4000]), "ex": 80})))
        held = len(order)
        for rnd in range(rng.randint(1, 3)):
            newc = rng.choice([0, 0, held - 1, held, max(0, held - 2), c0 + 1, 1])
            newc = max(0, min(newc, 0xffff))
            who = rng.random()
            d = fix_keep(L(lid=A, flag=2, cnt=newc, rc=rng.choice([0, 1, 3]), **terms_of(False)))
            if who < 0.25:
                d.update(lid=rng.choice([777, A]), flag=3)          # show + update: addresses the OLDEST holder whatever LockId it names
            steps.append(d)
            if rng.random() < 0.3:
                steps.append(L(lid=A, flag=1, cnt=9, to=0))         # show: echoes the oldest holder's terms
            # newcomers answered at once: Count chosen around the number of holds outstanding
            for j in range(rng.randint(1, 3)):
                steps.append(L(lid=100 + 10 * rnd + j, cnt=rng.choice([held, held + 1, c0, max(c0, held), 0xffff, 1]), to=rng.choice([0, 0, 0, 3]),
                               ex=rng.choice([40, 80]), tf=0))
            if rng.random() < 0.4:
                steps.append({"op": "tick", "n": 1})
            if rng.random() < 0.4 and nother:
                steps.append(U(lid=20 + rng.randrange(nother)))
        steps.append({"op": "tick", "n": rng.choice([1, 2, 4])})
    elif kind == 1:
        # (b) a re-entrant re-lock / an update replaces the hold's Count while OTHER LockIds hold the key; then the others
        #     unlock, re-lock, unlock twice; wide holder populations (inline slots, ring, map-backed queue)
        nother = rng.choice([1, 1, 2, 3, 7, 12, 140])
        c0 = rng.choice([nother, nother + 1, nother + 3, 0xffff])
        rcA = rng.choice([1, 2, 5, 255])
        others = [20 + i for i in range(nother)]
        a_first = rng.random() < 0.75
        seq = ([A] if a_first else []) + others[: nother // 2 + 1] + ([] if a_first else [A]) + others[nother // 2 + 1:]
        for l in seq:
            if l == A:
                steps.append(L(lid=A, cnt=c0, rc=rcA, **terms_of(True)))
            else:
                steps.append(L(lid=l, cnt=c0, rc=rng.choice([0, 1, 2]), ex=rng.choice([60, 90])))
        for rnd in range(rng.randint(1, 3)):
            newc = rng.choice([0, 0, 0, 1, nother - 1 if nother > 1 else 0, c0])
            if rng.random() < 0.65:
                steps.append(fix_keep(L(lid=A, cnt=newc, rc=rng.choice([rcA, rcA, 1, 3]), **terms_of(False))))                 # re-entrant re-lock with another Count
            else:
                steps.append(fix_keep(L(lid=A, flag=2, cnt=newc, rc=rng.choice([rcA, 0, 2]), **terms_of(False))))              # update with another Count
            pick = rng.sample(others, min(len(others), rng.choice([1, 2, 4])))
            for l in pick:
                r = rng.random()
                if r < 0.45:
                    steps.append(U(lid=l, rc=rng.choice([0, 1])))
                    if rng.random() < 0.4:
                        steps.append(U(lid=l, rc=0))                 # second unlock of a released hold: refused, unless a level was left
                elif r < 0.7:
                    steps.append(L(lid=l, cnt=rng.choice([c0, newc]), rc=rng.choice([1, 2]), ex=60))      # re-lock by a later holder
                elif r < 0.85:
                    steps.append(U(lid=l, flag=2))                   # cancel-wait by a HOLDER: nothing queued under that LockId
                else:
                    steps.append(L(lid=l, flag=2, cnt=rng.choice([c0, 0]), rc=1, ex=60))                 # update by a later holder
            if rng.random() < 0.5:
                steps.append(L(lid=300 + rnd, cnt=rng.choice([c0, nother + 2, 1]), to=0, ex=30))          # newcomer
            if rng.random() < 0.3:
                steps.append(U(lid=A, rc=1))                         # one level of the re-entrant hold
            if rng.random() < 0.3:
                steps.append({"op": "tick", "n": 1})
        steps.append(U(lid=A, rc=rng.choice([0, 1])))
        for l in rng.sample(others, min(len(others), 3)):
            steps.append(U(lid=l, rc=0))
    else:
        # (c) free mixture on one key: every request draws its own Count / Rcount / deadline class
        lids = [1, 2, 3, 4]
        counts = rng.choice([[0, 1, 2, 3], [0, 2, 0xffff], [1, 3, 5], [0, 1, 0xfffe, 0xffff]])
        for _ in range(rng.randint(18, 40)):
            r = rng.random()
            if r < 0.55:
                d = L(lid=rng.choice(lids), cnt=rng.choice(counts), rc=rng.choice([0, 1, 2, 3, 255]), to=rng.choice([0, 0, 0, 4]),
                      ex=rng.choice([40, 60, 0xffff, 2]), ef=rng.choice([0, 0, 0x4000, 0x4000, 0x40]))
                if d["ex"] == 0xffff:
                    d["ef"] = 0x4000
                if d["ef"] == 0x40:
                    d["ex"] = rng.choice([1, 2])
                d["flag"] = rng.choice([0, 0, 0, 2, 2, 3, 1])
                steps.append(d)
            elif r < 0.85:
                steps.append(U(lid=rng.choice(lids), rc=rng.choice([0, 1, 1]), flag=rng.choice([0, 0, 0, 0, 1, 2])))
            else:
                steps.append({"op": "tick", "n": rng.choice([1, 1, 2])})
    steps.append({"op": "drain", "n": rng.choice([8, 130])})
    return {"name": f"terms-{kind}-{cls}-{seed}-{idx}", "cfg": {}, "steps": steps, "complete": True, "mode": "seq", "snap": 1 if len(steps) > 150 else 0}


# ---------------------------------------------------------------------------------------------------------------------
# wait queues that change their representation AFTER they have outgrown the inline part

def gen_bigq(seed, idx, fixed=None):
    """One key whose wait queue outgrows its inline slice (8 -> 16 -> ... doubling while cap <= 128; from then on new
    waiters go to a plain ring while the older ones stay in the slice) with waiters of ONE priority, and only then
    meets a request of ANOTHER priority (the one-time rebuild into the priority ring) - before anything was served,
    after a part of the inline slice was served, around the point where the slice runs empty, and after it; with and
    without tombstoned (cancelled / timed-out) entries in both parts.  Afterwards more waiters of both priorities
    arrive and the holds end one by one until every request has been served: C04 judges the order of the grants, the
    newcomers, and at the `snap` steps whether a live queued request could be admitted."""
    rng = random.Random(seed * 2750159 + idx * 17 + 3)
    steps = []
    n = rng.choice([150, 170, 200, 200, 260, 300, 330])         # beyond the inline part (144 slots with this Go runtime; 256 at most)
    sem = rng.random() < 0.25                       # shared key: several holders, wake passes that admit more than one
    cnt = rng.choice([1, 2]) if sem else 0
    p0 = rng.choice([0, 0, 3, 5])                   # priority of the long queue (0: mostly without the priority flag)
    p1 = rng.choice([x for x in [0, 1, 3, 5, 9, 200] if x != p0])
    flagged0 = p0 > 0 or rng.random() < 0.3
    # how much of the queue is served before the switch: mostly while the inline slice still holds waiters (both parts
    # non-empty at the rebuild), sometimes around the point where the slice runs empty, sometimes well after it
    r = rng.random()
    if r < 0.6:
        served0 = rng.choice([0, 0, 1, 7, 60, 120, 127, 128, rng.randint(8, 139), rng.randint(8, 139)])
    elif r < 0.8:
        served0 = rng.choice([140, 141, 142, 143, 144, 145, 146])
    else:
        served0 = rng.choice([150, 200, 255, 256, 257, 300])
    if fixed:
        n, cnt, p0, p1, served0 = fixed["n"], fixed.get("cnt", 0), fixed["p0"], fixed["p1"], fixed["served"]
        flagged0 = p0 > 0
    def W(lid, prio, flagged, **kw):
        d = {"op": "lock", "conn": 2 + lid % 3, "key": 1, "lid": lid, "to": rng.choice([10, 12, 15]), "tf": 0x40 | (0x10 if flagged else 0), "ex": 300,
             "cnt": cnt, "rc": prio if flagged else 0, "nodup": True}
        d.update(kw)
        return d
    rel = {"op": "unlock", "conn": 1, "key": 1, "lid": 999999, "flag": 1}      # unlock-first by a LockId nobody holds: ends the oldest hold
    for h in range(cnt + 1):
        steps.append({"op": "lock", "conn": 1, "key": 1, "lid": 1 + h, "to": 0, "ex": 300, "cnt": cnt})
    lid = 10
    for i in range(n):
        steps.append(W(lid, p0, flagged0)); lid += 1
    # tombstones in both parts of the queue
    if rng.random() < 0.5:
        for v in rng.sample(range(n), rng.choice([1, 3, 10])):
            steps.append({"op": "unlock", "conn": 1, "key": 1, "lid": 10 + v, "flag": 2})
    # part of the queue is served before the switch
    served = min(n - 2, served0)
    for _ in range(served):
        steps.append(rel)
    if served and rng.random() < 0.5:
        # the queue grows again behind the served part (the slice is compacted / the ring continues)
        for i in range(rng.choice([1, 5, 40])):
            steps.append(W(lid, p0, flagged0)); lid += 1
    steps.append({"op": "snap"})
    # the request with another priority: the queue is rebuilt as a priority ring
    steps.append(W(lid, p1, True if p1 > 0 else (not flagged0 or rng.random() < 0.5))); lid += 1
    steps.append({"op": "snap"})
    # later arrivals of both priorities and of a third one
    for i in range(rng.choice([0, 2, 6, 20])):
        pr = rng.choice([p0, p0, p1, 7])
        steps.append(W(lid, pr, pr > 0 or flagged0)); lid += 1
    if rng.random() < 0.3:
        steps.append({"op": "unlock", "conn": 1, "key": 1, "lid": 10 + rng.randrange(n), "flag": 2})
    # the holds end one by one: everybody must be served, in order
    total = lid - 10 + cnt + 1
    k = 0
    while k < total + 3:
        steps.append(rel); k += 1
        if k % 97 == 0 or rng.random() < 0.01:
            steps.append({"op": "snap"})
        if rng.random() < 0.01:
            steps.append({"op": "lock", "conn": 4, "key": 1, "lid": 500000 + k, "to": 0, "ex": 300, "cnt": cnt})     # a newcomer may not pass the queue
    steps.append({"op": "snap"})
    steps.append({"op": "tick", "n": 2})
    steps.append({"op": "drain", "n": 5})
    name = f"bigq-{n}-{served}-{p0}to{p1}-{seed}-{idx}" if not fixed else f"dir-bigq-{n}-waiters-{served}-served-priority-{p0}-then-{p1}"
    return {"name": name, "cfg": {}, "steps": steps, "complete": True, "mode": "seq", "snap": 1}

def bigq_directed():
    """Fixed members of the family (the same in every run): a long queue of unflagged waiters met by a higher priority,
    a long priority-5 queue met by a LOWER priority after a part was served, and a shared key."""
    return [gen_bigq(0, 1000, {"n": 300, "p0": 0, "p1": 5, "served": 0}),
            gen_bigq(0, 1001, {"n": 200, "p0": 5, "p1": 0, "served": 60}),
            gen_bigq(0, 1002, {"n": 260, "p0": 0, "p1": 9, "served": 100, "cnt": 1})]

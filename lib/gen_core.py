"""Seeded wide-range scenario generator for engine S (core command subset, virtual clock).

These histories complement the TLC-generated behaviours: they use parameter ranges the bounded
model cannot hold (Count up to 0xffff, hundreds of holders / waiters, long timers that migrate to
the long-wait tables).  The monitors (unbounded TLA+) judge them."""
import random

PROFILES = ["mutex", "sem", "reent", "prio", "long", "mixed", "flags", "zero", "multi_db"]

def _lock(rng, p, **kw):
    d = {"op": "lock", "conn": rng.randint(1, p["conns"]), "db": rng.choice(p["dbs"]), "key": rng.choice(p["keys"]),
         "lid": rng.choice(p["lids"]), "flag": 0, "tf": 0, "ef": 0, "to": rng.choice(p["timeouts"]),
         "ex": rng.choice(p["expireds"]), "cnt": rng.choice(p["counts"]), "rc": rng.choice(p["rcounts"]), "nodup": True}
    if p.get("prio") and rng.random() < p["prio"]:
        d["tf"] |= 0x10
        d["rc"] = rng.choice(p["prios"])
    if p.get("minute") and rng.random() < p["minute"]:
        if rng.random() < 0.5:
            d["tf"] |= 0x40
            d["to"] = rng.choice([0, 1, 1, 2])
        else:
            d["ef"] |= 0x40
            d["ex"] = rng.choice([1, 1, 2])
    r = rng.random()
    if r < p.get("show", 0):
        d["flag"] |= 0x01
    elif r < p.get("show", 0) + p.get("update", 0):
        d["flag"] |= 0x02
    elif r < p.get("show", 0) + p.get("update", 0) + p.get("showupdate", 0):
        d["flag"] |= 0x03
    if rng.random() < p.get("conc", 0):
        d["flag"] |= 0x08
        d["to"] = 0
    if rng.random() < p.get("unlimited", 0):
        d["ef"] |= 0x4000
        if d["ex"] == 0:
            d["ex"] = 5
    if rng.random() < p.get("aofflags", 0):
        d["ef"] |= rng.choice([0x0100, 0x0200, 0x1000])
    if rng.random() < p.get("waitunlock", 0):
        d["tf"] |= 0x0200
    d.update(kw)
    return d

def _unlock(rng, p, **kw):
    d = {"op": "unlock", "conn": rng.randint(1, p["conns"]), "db": rng.choice(p["dbs"]), "key": rng.choice(p["keys"]),
         "lid": rng.choice(p["lids"]), "flag": 0, "tf": 0, "ef": 0, "to": 0, "ex": 0, "cnt": 0,
         "rc": rng.choice(p["rcounts"])}
    r = rng.random()
    if r < p.get("ufirst", 0):
        d["flag"] |= 0x01
    elif r < p.get("ufirst", 0) + p.get("ucancel", 0):
        d["flag"] |= 0x02
    if p.get("prio") and rng.random() < 0.1:
        d["tf"] |= 0x10
    d.update(kw)
    return d

def profile(name, rng):
    base = {"conns": 4, "dbs": [0], "keys": [1, 2], "lids": [1, 2, 3, 4, 5], "timeouts": [0, 0, 1, 2, 3, 5, 8],
            "expireds": [0, 2, 3, 5, 10, 10, 20], "counts": [0], "rcounts": [0], "ufirst": 0.05, "ucancel": 0.08,
            "show": 0.03, "update": 0.05, "showupdate": 0.01, "conc": 0.03, "unlimited": 0.03, "aofflags": 0.08,
            "steps": 40, "ptick": 0.25, "punlock": 0.35, "tickmax": 3}
    p = dict(base)
    if name == "mutex":
        pass
    elif name == "sem":
        p.update(counts=rng.choice([[1], [2], [1, 2], [0, 1, 2, 5], [2, 0xffff], [0xfffe, 0xffff, 3]]), lids=list(range(1, 9)))
    elif name == "reent":
        p.update(rcounts=rng.choice([[1], [2], [0, 1, 3], [255], [0, 255]]), counts=rng.choice([[0], [0, 1], [3]]), lids=[1, 2, 3],
                 punlock=0.4)
    elif name == "prio":
        p.update(prio=rng.choice([0.5, 0.9, 1.0]), prios=rng.choice([[0, 1, 2], [1, 5, 9], [3], [0, 255, 7, 7]]), counts=rng.choice([[0], [1], [0, 2]]),
                 lids=list(range(1, 10)), timeouts=[2, 5, 8, 12, 20], keys=[1])
    elif name == "long":
        p.update(timeouts=[0, 5, 9, 12, 20, 37, 45, 70], expireds=[5, 9, 12, 20, 38, 50, 90, 130], tickmax=rng.choice([3, 12, 40]),
                 ptick=0.35, counts=rng.choice([[0], [1], [0, 1]]), minute=rng.choice([0, 0, 0.1]))
    elif name == "mixed":
        p.update(counts=[0, 1, 2, 0xffff], rcounts=[0, 0, 1, 2], keys=[1, 2, 3], lids=list(range(1, 8)),
                 timeouts=[0, 1, 3, 5, 12, 40], expireds=[0, 1, 3, 8, 15, 40, 60], tickmax=rng.choice([2, 6, 15]), prio=rng.choice([0, 0, 0.2]),
                 prios=[0, 1, 2])
    elif name == "flags":
        p.update(show=0.12, update=0.2, showupdate=0.05, conc=0.1, unlimited=0.1, aofflags=0.25, ufirst=0.15, ucancel=0.2, waitunlock=0.12,
                 counts=[0, 1], rcounts=[0, 1], expireds=[0, 3, 6, 10, 30, 45], timeouts=[0, 2, 5, 10, 38])
    elif name == "zero":
        # the all-zero key and LockId, a one-slot key table so managers collide and recycle constantly
        p.update(keys=[0, 1, 2, 64], lids=[0, 1, 2], counts=[0, 1], expireds=[0, 0, 2, 4, 10], cfg={"fastkeys": 1})
    elif name == "multi_db":
        p.update(dbs=[0, 1, 7, 254], keys=[1, 2], counts=[0, 1])
    return p

def gen_scenario(seed, idx, name=None, steps=None):
    rng = random.Random(seed * 1000003 + idx)
    name = name or PROFILES[idx % len(PROFILES)]
    p = profile(name, rng)
    n = steps or p["steps"]
    out = []
    maxT, maxE = 0, 0
    for _ in range(n):
        r = rng.random()
        if r < p["ptick"]:
            out.append({"op": "tick", "n": rng.randint(1, p["tickmax"]), "order": rng.choice(["te", "te", "et"])})
        elif r < p["ptick"] + p["punlock"]:
            out.append(_unlock(rng, p))
        else:
            d = _lock(rng, p)
            out.append(d)
            t = d["to"] * (60 if d["tf"] & 0x40 else 1)
            e = d["ex"] * (60 if d["ef"] & 0x40 else 1)
            if not d["ef"] & 0x4000:
                maxE = max(maxE, e)
            maxT = max(maxT, t)
    out.append({"op": "drain", "n": min(maxT + 4, 400)})
    sc = {"name": f"rnd-{name}-{seed}-{idx}", "cfg": p.get("cfg", {}), "steps": out, "complete": True, "mode": "seq"}
    return sc

def gen_big(seed, idx):
    """Holder / waiter populations that cross the representation switches (6/128 holder slots,
    8/128 waiter slots, priority ring) and releases in random order."""
    rng = random.Random(seed * 7919 + idx)
    kind = idx % 7
    steps = []
    if kind == 0:      # many holders on a semaphore key, random-order unlock, re-lock some
        n = rng.choice([10, 140, 200])
        cnt = rng.choice([n, 0xffff, n + 5])
        lids = list(range(1, n + 1))
        for l in lids:
            steps.append({"op": "lock", "conn": 1 + l % 3, "key": 1, "lid": l, "to": 0, "ex": 50, "cnt": cnt, "rc": rng.choice([0, 1])})
        rng.shuffle(lids)
        for l in lids[: n // 2]:
            steps.append({"op": "unlock", "conn": 1, "key": 1, "lid": l, "rc": 0})
        for l in lids[: n // 4]:
            steps.append({"op": "unlock", "conn": 1, "key": 1, "lid": l, "rc": 0})      # second unlock: must be refused
            steps.append({"op": "lock", "conn": 2, "key": 1, "lid": l, "to": 0, "ex": 50, "cnt": cnt})
        steps.append({"op": "lock", "conn": 2, "key": 1, "lid": 100000, "to": 0, "ex": 5, "cnt": 3})   # Count 3 newcomer: refused if > 3 holds
    elif kind == 1:    # many waiters FIFO, then release one by one
        n = rng.choice([9, 20, 135, 160, 300])
        steps.append({"op": "lock", "conn": 1, "key": 1, "lid": 1, "to": 0, "ex": 300, "cnt": 0})
        for i in range(n):
            steps.append({"op": "lock", "conn": 2 + i % 3, "key": 1, "lid": 10 + i, "to": rng.choice([30, 50, 100]), "ex": 300, "cnt": 0, "nodup": True})
        if n > 150:
            # cancel waiters that sit in the overflow part of the wait queue while its first part is still full
            for v in rng.sample(range(145, n), 3):
                steps.append({"op": "unlock", "conn": 1, "key": 1, "lid": 10 + v, "flag": 2})
        steps.append({"op": "unlock", "conn": 1, "key": 1, "lid": 1})
        for i in range(n // 2):
            if rng.random() < 0.2:
                steps.append({"op": "unlock", "conn": 1, "key": 1, "lid": 10 + rng.randint(0, n - 1), "flag": 2})   # cancel a waiter
            steps.append({"op": "unlock", "conn": 1, "key": 1, "lid": 10 + i})
        steps.append({"op": "tick", "n": 3})
    elif kind == 2:    # priority waiters, mixed priorities, enough to use the priority ring
        n = rng.choice([5, 12, 40, 140])
        steps.append({"op": "lock", "conn": 1, "key": 1, "lid": 1, "to": 0, "ex": 300, "cnt": 0})
        for i in range(n):
            pr = rng.choice([0, 1, 1, 2, 5, 5, 9])
            tf = 0x10 if rng.random() < 0.8 else 0
            steps.append({"op": "lock", "conn": 2 + i % 3, "key": 1, "lid": 10 + i, "to": rng.choice([40, 60]), "tf": tf, "ex": 300, "cnt": 0, "rc": pr, "nodup": True})
        lids = [1] + [10 + i for i in range(n)]
        for _ in range(n + 1):
            # always release the current oldest holder via unlock-first with a LockId nobody holds
            steps.append({"op": "unlock", "conn": 1, "key": 1, "lid": 999999, "flag": 1})
            if rng.random() < 0.15:
                steps.append({"op": "tick", "n": 1})
    elif kind == 4:    # waiters parked in the long-wait table (> 8 re-checks), holes punched by grants / cancels before the deadline
        n = rng.choice([3, 5, 9])
        T = rng.choice([52, 60, 75])     # the hand-over to the long table happens at the 9th re-check, ~ +44 s
        c = rng.choice([0, 1])
        steps.append({"op": "lock", "conn": 1, "key": 1, "lid": 1, "to": 0, "ex": 300, "cnt": c})
        if c:
            steps.append({"op": "lock", "conn": 1, "key": 1, "lid": 2, "to": 0, "ex": 300, "cnt": c})
        for i in range(n):
            steps.append({"op": "lock", "conn": 2 + i % 3, "key": 1, "lid": 10 + i, "to": T if rng.random() < 0.8 else T + 1, "ex": 300, "cnt": c, "nodup": True})
            if rng.random() < 0.2:
                steps.append({"op": "tick", "n": 1})
        steps.append({"op": "tick", "n": rng.choice([45, 47, 49])})
        for i in range(n):
            r = rng.random()
            if r < 0.3:
                steps.append({"op": "unlock", "conn": 1, "key": 1, "lid": 10 + i, "flag": 2})     # cancel this waiter
            elif r < 0.5:
                steps.append({"op": "unlock", "conn": 1, "key": 1, "lid": 999999, "flag": 1})      # release the oldest holder: head waiter is granted
        steps.append({"op": "tick", "n": 35})
    elif kind == 5:    # holds parked in the long expiry table, then unlocked / re-locked / updated before the deadline
        n = rng.choice([3, 6, 10])
        E = rng.choice([52, 60, 75])
        for i in range(n):
            steps.append({"op": "lock", "conn": 1 + i % 3, "key": 1, "lid": 10 + i, "to": 0, "ex": E if rng.random() < 0.8 else E + 1, "cnt": 50, "rc": 2})
            if rng.random() < 0.2:
                steps.append({"op": "tick", "n": 1})
        steps.append({"op": "tick", "n": rng.choice([45, 47, 49])})
        for i in range(n):
            r = rng.random()
            if r < 0.25:
                steps.append({"op": "unlock", "conn": 1, "key": 1, "lid": 10 + i})
            elif r < 0.45:
                steps.append({"op": "lock", "conn": 1, "key": 1, "lid": 10 + i, "to": 0, "ex": rng.choice([5, 30, 80]), "cnt": 50, "rc": 2})          # re-lock restarts the period
            elif r < 0.65:
                steps.append({"op": "lock", "conn": 1, "key": 1, "lid": 10 + i, "flag": 2, "to": 0, "ex": rng.choice([5, 30, 80]), "cnt": 50, "rc": 2})  # update
        steps.append({"op": "tick", "n": 100})
    elif kind == 6:    # holder population large enough for the map-backed "scale" holder queue (> ~193 queued holders),
                       # released oldest-first so holders are promoted out of the scale queue; LockIds reused afterwards
        n = rng.choice([230, 260, 300])
        cnt = rng.choice([0xffff, n + 10])
        for l in range(1, n + 1):
            steps.append({"op": "lock", "conn": 1 + l % 3, "key": 1, "lid": l, "to": 0, "ex": 200, "cnt": cnt, "rc": 0})
        released = []
        for l in range(1, n - 15):
            steps.append({"op": "unlock", "conn": 1, "key": 1, "lid": l, "rc": 0})
            released.append(l)
            if l > 195 and rng.random() < 0.25:
                v = rng.choice(released[-20:])
                steps.append({"op": "unlock", "conn": 2, "key": 1, "lid": v, "rc": 0})          # duplicate unlock: must be refused
            if l > 195 and rng.random() < 0.15:
                v = rng.choice(released[-20:])
                released.remove(v)
                # LockId reused: a new hold - admissible only if the request's own Count allows the outstanding holds
                steps.append({"op": "lock", "conn": 2, "key": 1, "lid": v, "to": 0, "ex": rng.choice([5, 200]), "cnt": rng.choice([cnt, cnt, 3, 0])})
        steps.append({"op": "tick", "n": 8})
    else:              # semaphore with waiters of mixed Count: wake passes that admit several at once
        c = rng.choice([2, 3, 5])
        for l in range(1, c + 2):
            steps.append({"op": "lock", "conn": 1, "key": 1, "lid": l, "to": 0, "ex": 100, "cnt": c})
        for i in range(rng.choice([6, 12, 30])):
            steps.append({"op": "lock", "conn": 2, "key": 1, "lid": 50 + i, "to": 60, "ex": 100, "cnt": rng.choice([0, 1, c, c, c + 3]), "nodup": True})
        for l in range(1, c + 2):
            steps.append({"op": "unlock", "conn": 1, "key": 1, "lid": l})
            if rng.random() < 0.3:
                steps.append({"op": "tick", "n": rng.randint(1, 3)})
        steps.append({"op": "tick", "n": 5})
    steps.append({"op": "drain", "n": 110})
    return {"name": f"big-{kind}-{seed}-{idx}", "cfg": {}, "steps": steps, "complete": True, "mode": "seq", "snap": 1 if len(steps) > 150 else 0}


def gen_edge(seed, idx):
    """Boundary values of the request fields: timers near the 16-bit / unit-conversion limits (minute flag x 60 does
    not fit 16 bits from 1093 minutes on), re-entrant depth at the 8-bit limit, Count at the 16-bit limit, and
    zero-expiry waiters (answered without ever holding) in front of other waiters."""
    rng = random.Random(seed * 104729 + idx * 13 + 5)
    kind = idx % 4
    steps = []
    L = lambda **kw: dict({"op": "lock", "conn": 1, "db": 0, "key": 1, "lid": 1, "flag": 0, "tf": 0, "ef": 0, "to": 0, "ex": 30, "cnt": 0, "rc": 0, "nodup": True}, **kw)
    U = lambda **kw: dict({"op": "unlock", "conn": 1, "db": 0, "key": 1, "lid": 1, "flag": 0, "tf": 0, "ef": 0, "to": 0, "ex": 0, "cnt": 0, "rc": 0}, **kw)
    if kind == 0:
        # huge wait timeouts and expiries: nothing may fire early while the clock runs for some hundred seconds
        bigmin = [1092, 1093, 1100, 2185, 4000, 65535]
        bigsec = [3000, 40000, 65535]
        steps.append(L(lid=1, ex=rng.choice(bigmin), ef=0x40))                      # holder, minute expiry
        steps.append(L(key=2, lid=2, ex=rng.choice(bigsec)))                        # holder, seconds expiry
        for i in range(rng.randint(2, 5)):
            if rng.random() < 0.6:
                steps.append(L(conn=2, lid=10 + i, to=rng.choice(bigmin), tf=0x40, ex=rng.choice([5, 1100]), ef=rng.choice([0, 0x40])))
            else:
                steps.append(L(conn=2, key=2, lid=10 + i, to=rng.choice(bigsec), ex=5))
        if rng.random() < 0.5:
            steps.append(L(lid=1, flag=2, ex=rng.choice(bigmin), ef=0x40))          # update to another huge expiry
        for _ in range(rng.randint(2, 4)):
            steps.append({"op": "tick", "n": rng.choice([60, 200, 470, 700])})
            if rng.random() < 0.4:
                steps.append(U(conn=2, lid=10, flag=2))                             # cancel one waiter
        steps.append(U(lid=1))
        steps.append(U(key=2, lid=2))
        steps.append({"op": "tick", "n": 3})
    elif kind == 1:
        # re-entrant depth up to (and past) the 8-bit limit
        rc = rng.choice([254, 255, 255])
        cnt = rng.choice([0, 1])
        n = rc + rng.choice([0, 1, 2, 3])
        for i in range(n + 1):
            steps.append(L(lid=1, rc=rc, cnt=cnt, ex=300))
        steps.append(L(conn=2, lid=2, cnt=cnt, to=0, ex=5))                         # a second owner: admissible only if Count allows
        steps.append(U(lid=1, rc=1))                                                # one level
        steps.append(L(conn=2, lid=2, cnt=cnt, to=0, ex=5))
        for _ in range(rng.randint(0, 4)):
            steps.append(U(lid=1, rc=1))
        steps.append(L(lid=1, rc=rc, cnt=cnt, ex=300))
        steps.append(U(lid=1, rc=0))                                                # all levels
        steps.append(U(lid=1, rc=1))                                                # must be refused
        steps.append(L(conn=2, lid=3, cnt=cnt, to=0, ex=5))
    elif kind == 2:
        # Count at the 16-bit limit, many holders, a newcomer with a small Count
        cnt = rng.choice([0xffff, 0xfffe, 0x8000])
        n = rng.choice([3, 40, 300])
        for l in range(1, n + 1):
            steps.append(L(conn=1 + l % 3, lid=l, cnt=cnt, ex=100, rc=rng.choice([0, 0, 2])))
        steps.append(L(conn=2, lid=5000, cnt=rng.choice([0, 1, n - 1, n]), to=0, ex=5))
        steps.append(L(conn=2, lid=5001, cnt=cnt, to=2, ex=5))
        for l in rng.sample(range(1, n + 1), min(n, 20)):
            steps.append(U(lid=l, rc=0))
        steps.append({"op": "tick", "n": 4})
    else:
        # zero-expiry waiters (granted and gone at once) in front of ordinary waiters, on exclusive and shared keys
        cnt = rng.choice([0, 0, 1])
        steps.append(L(lid=1, cnt=cnt, ex=rng.choice([3, 50])))
        if cnt:
            steps.append(L(lid=2, cnt=cnt, ex=50))
        for i in range(rng.randint(2, 6)):
            steps.append(L(conn=2 + i % 2, lid=20 + i, cnt=rng.choice([cnt, cnt, 0]), to=rng.choice([20, 60]),
                           ex=0 if rng.random() < 0.5 else rng.choice([2, 40]), tf=rng.choice([0, 0, 0x0200])))
        if rng.random() < 0.5:
            steps.append({"op": "tick", "n": rng.randint(1, 5)})
        steps.append(U(lid=1))
        if cnt:
            steps.append(U(lid=2))
        steps.append(L(conn=4, lid=99, cnt=cnt, to=0, ex=5))                        # a late arrival must not overtake live waiters
        steps.append({"op": "tick", "n": rng.randint(1, 6)})
    steps.append({"op": "drain", "n": 110})
    return {"name": f"edge-{kind}-{seed}-{idx}", "cfg": {}, "steps": steps, "complete": True, "mode": "seq", "snap": 0}

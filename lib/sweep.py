#!/usr/bin/env python3
"""sweep.py <tier> <seed>[,<seed>...] [props...]  : run bin/check for every property and seed on the tree VERIF_REPO
(or /repo) names, one after the other; evidence goes to a scratch directory (the committed evidence files are left
alone).  One line per run: property, seed, exit code, wall seconds, VIOLATION / KNOWN-FINDING / INFRA lines."""
import json, os, subprocess, sys, tempfile, time, shutil

HERE = os.path.dirname(os.path.dirname(os.path.abspath(__file__)))

def main():
    tier = sys.argv[1]
    seeds = [int(s) for s in sys.argv[2].split(",")]
    props = sys.argv[3:] or ["C%02d" % i for i in range(1, 21)]
    evd = tempfile.mkdtemp(prefix="vf_sweep_ev_")
    bad = 0
    try:
        for seed in seeds:
            for p in props:
                env = dict(os.environ, VERIF_SEED=str(seed), VERIF_EVIDENCE_DIR=evd)
                t0 = time.time()
                try:
                    r = subprocess.run([os.path.join(HERE, "bin", "check"), p, tier], cwd=HERE, env=env, capture_output=True, text=True, timeout=3 * 3600)
                    rc, out = r.returncode, r.stdout + r.stderr
                except subprocess.TimeoutExpired as ex:
                    rc, out = 124, "TIMEOUT"
                lines = [l for l in out.splitlines() if l.startswith(("VIOLATION", "INFRA-ERROR", "  {")) or "Traceback" in l]
                kf = len([l for l in out.splitlines() if l.startswith("KNOWN-FINDING")])
                print(json.dumps({"prop": p, "seed": seed, "tier": tier, "rc": rc, "wall_s": round(time.time() - t0, 1), "known": kf, "lines": lines[:6]}), flush=True)
                if rc != 0:
                    bad += 1
                    print(out[-3000:], flush=True)
    finally:
        shutil.rmtree(evd, ignore_errors=True)
    print("SWEEP DONE bad=%d" % bad, flush=True)
    return 1 if bad else 0

if __name__ == "__main__":
    sys.exit(main())

"""Data-structure half of C09 (called from checks/replfam.py): the leader's replication RING BUFFER
(server/replication.go ReplicationBufferQueue) hands every logged record to every cursor exactly once and in order, or
tells the cursor "out of buf" - never a silent gap, duplicate or reordering.

  (1) TLC, exhaustive: spec/ReplRing.tla - the implementation-shaped model of the ring (slots with nextItem pointers,
      head / tail, free list head / tail, seq numbers, byte budget, growth rule, the release loop of ResetQueueItems,
      pollCount / pollIndex bookkeeping, cursors) against the reference in the same module (append-only log + cursor
      positions, operator Judge) and the structural clauses (StructCode) for every operation program of production's usage
      protocol at small bounds; the code's deviation AddPollWrapsMarker and the switch ReleaseClearsNext are constants
      (as coded / repaired / statement dropped).  Exports the program that first reached each state (state cover) and
      every refuted program (CEX).
  (2) TLC -simulate on spec/ReplRingSim.tla: long walks (weighted modes: small records, big records, draining, lagging
      cursors) on wider rings - the size patterns that grow the ring to its maximum, exceed the byte budget by more than
      one slot (release loop body), consume the free list completely and refill it.
  (3) every program (cover, CEX, walks, a few directed ones) is run on the REAL ReplicationBufferQueue by the in-package
      driver TestVerifRing, which records after every operation its result and a projection of the real struct.
  (4) every recorded trace is validated by TLC against spec/mon/MonReplRing.tla (ReplRing!Judge / StructCode as the oracle;
      the model's own run beside it as a conformance check that is never a verdict).  Verdicts come only from (4).
  (5) binding self-test: one recorded field of an accepted trace is corrupted and must be rejected."""
import json, os, random, time, threading, concurrent.futures as cf
import vbuild, vtlc, engine
from vbuild import VERIF, InfraError

ENGINES = [{"name": "Q-ring", "path": "harness/inpkg/server/zz_verif_ring_test.go", "serves_properties": ["C09"],
            "kind_free_text": "in-package operation-program interpreter over the real ReplicationBufferQueue (Push / Pop / Head / Search / AddPoll / RemovePoll and the cursor statements of handleInitSync / SendProcess); records every result and a bounded-walk projection of the struct after every operation as ndjson; traces validated by TLC against spec/mon/MonReplRing.tla"}]

SPEC = os.path.join(VERIF, "spec")
SPECMON = os.path.join(VERIF, "spec", "mon")

MC = '''SPECIFICATION Spec
CONSTANTS
  BufSize = %(buf)d
  MaxBufSize = %(max)d
  NC = %(nc)d
  DataLens = {%(dls)s}
  MaxPush = %(maxpush)d
  MaxSync = %(maxsync)d
  SearchBack = %(sb)d
  ReleaseClearsNext = %(rcn)s
  AddPollWrapsMarker = %(wrap)s
VIEW view
INVARIANTS CexExport BooksOK %(cover)s
CHECK_DEADLOCK FALSE
'''

SIM = '''SPECIFICATION SimSpec
CONSTANTS
  BufSize = %(buf)d
  MaxBufSize = %(max)d
  NC = %(nc)d
  DataLens = {%(dls)s}
  MaxPush = 100000
  MaxSync = 100000
  SearchBack = %(sb)d
  ReleaseClearsNext = TRUE
  AddPollWrapsMarker = TRUE
  SimLen = %(len)d
INVARIANTS CexExport SimExport
CHECK_DEADLOCK FALSE
'''

def cfg_of(c):
    d = dict(buf=128, max=256, nc=2, dls=[0, 200], maxpush=3, maxsync=2, sb=2, rcn=True, wrap=True, cover=False)
    d.update(c)
    return d

def mc_text(d):
    return MC % dict(d, dls=", ".join(str(x) for x in d["dls"]), rcn="TRUE" if d["rcn"] else "FALSE", wrap="TRUE" if d["wrap"] else "FALSE",
                     cover="CoverExport" if d["cover"] else "")

def model_configs(quick):
    """name -> constants.  `as-coded*` are the refinement runs proper; `repaired` shows that AddPollWrapsMarker is the only
    deviation at these bounds (no refuted program left); `next-not-cleared` that the clauses are not vacuous."""
    if quick:
        return [("as-coded-cover", cfg_of(dict(cover=True)), 3),
                ("repaired", cfg_of(dict(wrap=False)), 2),
                ("next-not-cleared", cfg_of(dict(rcn=False, nc=1, maxsync=1)), 1)]
    return [("as-coded-three-cursors", cfg_of(dict(nc=3, maxpush=3, maxsync=3, sb=1)), 3),          # (the largest first)
            ("as-coded-three-sizes-deep", cfg_of(dict(buf=128, max=512, nc=1, dls=[0, 70, 200], maxpush=5)), 2),
            ("as-coded-cover", cfg_of(dict(cover=True, maxpush=4)), 2),
            ("as-coded-one-slot-unit", cfg_of(dict(buf=64, max=256, dls=[0, 100], maxpush=4, sb=1)), 2),
            ("repaired", cfg_of(dict(wrap=False, maxpush=4)), 2),
            ("repaired-one-slot-unit", cfg_of(dict(wrap=False, buf=64, max=256, dls=[0, 100], maxpush=4, sb=1)), 2),
            ("next-not-cleared", cfg_of(dict(rcn=False, nc=1, maxsync=1, maxpush=4)), 1)]

def sim_configs(quick):
    """(constants, walks).  Rings of 2..32 slots; data lengths below, at and far above the byte budget."""
    base = [dict(buf=256, max=1024, nc=3, dls=[0, 40, 200, 700], sb=6, len=120),
            dict(buf=128, max=2048, nc=2, dls=[0, 0, 64, 1000], sb=4, len=160),
            dict(buf=64, max=512, nc=3, dls=[0, 30, 130], sb=3, len=100),
            dict(buf=512, max=512, nc=2, dls=[0, 100, 450, 1200], sb=5, len=120)]
    n = 30 if quick else 500
    return [(b, n) for b in base]

def drop_prefixes(progs):
    """keep maximal programs only (every prefix is observed on the way when the longer one is replayed)"""
    ss = sorted(p[:-1] for p in progs if p != "[]")
    keep = []
    for i, s in enumerate(ss):
        if i + 1 < len(ss) and ss[i + 1].startswith(s + ","):
            continue
        keep.append(json.loads(s + "]"))
    return keep

def run_model(name, d, workers, wd, timeout):
    r = vtlc.run_tlc(SPEC, "ReplRing", mc_text(d), os.path.join(wd, "mc_" + name), workers=workers, timeout=timeout, heap="4g")
    st = vtlc.parse_stats(r["out"])
    if r["rc"] == -9 or st is None or "No error has been found" not in r["out"] or st["queue"] != 0:
        raise InfraError(f"ReplRing model run {name} did not complete (design model, not a verdict):\n" + r["out"][-2500:])
    cover, cex = set(), []
    for ln in r["out"].splitlines():
        if ln.startswith('"T '):
            cover.add(json.loads(ln)[2:])
        elif ln.startswith('"CEX '):
            cex.append(json.loads(json.loads(ln)[4:]))
    return {"name": name, "d": d, "states": st["distinct"], "transitions": st["generated"], "wall": r["wall"], "cover": cover, "cex": cex}

def run_sim(i, b, n, seed, wd):
    r = vtlc.run_tlc(SPEC, "ReplRingSim", SIM % dict(b, dls=", ".join(str(x) for x in b["dls"])), os.path.join(wd, f"sim_{i}"), workers=1,
                     timeout=600, simulate="num=%d" % n, depth=b["len"] + 40, seed=seed * 31 + i)
    behs, cex = set(), []
    for ln in r["out"].splitlines():
        if ln.startswith('"BEHAVIOUR '):
            behs.add(json.loads(ln)[10:])
        elif ln.startswith('"CEX '):
            cex.append(json.loads(json.loads(ln)[4:]))
    if r["rc"] == -9 or len(behs) + len(cex) < max(3, n // 4):
        raise InfraError(f"behaviour generation from ReplRingSim.tla ({b}) failed:\n" + r["out"][-2000:])
    m = [int(x) for x in __import__("re").findall(r"(\d+) states checked", r["out"])]
    return {"b": b, "behs": [json.loads(x) for x in sorted(behs)], "cex": cex, "states": m[-1] if m else 0, "wall": r["wall"]}

def directed():
    """Deterministic programs (they do not depend on the seed): the size patterns on a 4 -> 16 slot ring, and the
    reproductions of finding R5 (Search / Head position on record 0, the ring wraps before AddPoll)."""
    P = lambda dl: ["push", 0, dl]
    out = []
    # a registered cursor that lags: growth 256 -> 512 -> 1024 (maximum), then forced release of unread records ("out of buf")
    ops = [P(0), ["head", 1, 0], ["addpoll", 1, 0], ["pop", 1, 0]] + [P(0)] * 17 + [["pop", 1, 0], ["rmpoll", 1, 0]]
    out.append({"name": "dir-lagging-cursor-grows-ring-to-max", "buf": 256, "max": 1024, "nc": 1, "ops": ops})
    # no cursor: small records consume the free list completely, a big record exceeds the budget by several slots (release
    # loop body runs, free list refilled), small records consume it again, a very big record refills it again
    ops = [P(0)] * 4 + [P(900), P(0)] + [P(0)] * 5 + [P(2000), P(0), P(0)] + [P(0)] * 6
    out.append({"name": "dir-exhaust-release-refill", "buf": 256, "max": 1024, "nc": 1, "ops": ops})
    # bufferSize below one slot: no free list at first, slots allocated by NewReplicationBufferQueueItem, growth by zero slots
    ops = [P(0), ["head", 1, 0], ["addpoll", 1, 0], P(10), ["pop", 1, 0], P(0), ["pop", 1, 0], ["pop", 1, 0], P(0), P(0), ["pop", 1, 0], ["rmpoll", 1, 0]]
    out.append({"name": "dir-no-free-list", "buf": 32, "max": 256, "nc": 1, "ops": ops})
    # R5: follower resumes at record 0 (Search) / full sync starts at record 0 (Head); the ring wraps with the release loop
    # before AddPoll; Pop then reads the released slot's seq 0 as "still my record" and follows the free list
    ops = [P(0), ["search", 1, 0], P(200), P(200), P(200), ["addpoll", 1, 0], ["pop", 1, 0], P(200), ["pop", 1, 0]]
    out.append({"name": "dir-R5-search-record0-wrap-before-addpoll", "buf": 128, "max": 128, "nc": 1, "ops": ops})
    ops = [P(0), ["head", 1, 0], P(200), P(200), ["addpoll", 1, 0], ["pop", 1, 0], P(0), ["pop", 1, 0]]
    out.append({"name": "dir-R5-head-record0-wrap-before-addpoll", "buf": 128, "max": 256, "nc": 1, "ops": ops})
    for p in out:
        p["src"] = "directed"
    return out

# ------------------------------------------------------------------ trace validation

MON_CFG = '''SPECIFICATION Spec
CONSTANTS
  TraceFile = "%(trace)s"
  Props = {"C09"}
INVARIANT Stats
POSTCONDITION TraceConsumed
CHECK_DEADLOCK FALSE
'''

def monitor(traces, wd, timeout=1500):
    """-> (viols, divergences, stats).  Raises InfraError when TLC does not consume a trace completely."""
    def one(arg):
        i, tr = arg
        r = vtlc.run_tlc([SPECMON, SPEC], "MonReplRing", MON_CFG % {"trace": tr}, os.path.join(wd, f"mon_{i}"), workers=1, timeout=timeout, heap="3g")
        return tr, r
    viols, divs = [], []
    stats = {"events": 0, "monitor_states": 0, "steps_judged": 0, "histories": 0, "strict_reference_only": 0}
    with cf.ThreadPoolExecutor(max_workers=engine.NCPU) as ex:
        for tr, r in ex.map(one, list(enumerate(traces))):
            out = r["out"]
            st = vtlc.parse_stats(out)
            if r["rc"] == -9:
                raise InfraError(f"TLC timed out on {tr}")
            if "No error has been found" not in out or st is None:
                raise InfraError(f"TLC did not accept the trace file {tr} completely (monitor/infra problem, not a verdict):\n" + out[-3000:])
            with open(tr) as fh:
                n = sum(1 for _ in fh)
            if st["distinct"] != n + 1:
                raise InfraError(f"trace {tr}: {n} events but {st['distinct']} monitor states")
            stats["events"] += n
            stats["monitor_states"] += st["distinct"]
            for v in vtlc.parse_viols(out):
                v["file"] = tr
                viols.append(v)
            for ln in out.splitlines():
                if ln.startswith('"DIVG '):
                    divs.append(json.loads(json.loads(ln)[5:]))
                elif ln.startswith('"CONF '):
                    c = json.loads(json.loads(ln)[5:])
                    stats["steps_judged"] += c["steps"]
                    stats["histories"] += c["histories"]
                    stats["strict_reference_only"] += c["strict_only"]
    return viols, divs, stats

def selftest(traces, bad_names, wd):
    """Take an accepted history with a Pop that handed out a record; corrupt ONE recorded field: (a) the seq of that record
    (+1: a skipped record), (b) the projection (the first live slot also named at the end of the free list);
    MonReplRing must reject both."""
    lines = None
    for tr in traces:
        cur = []
        with open(tr) as fh:
            for ln in fh:
                cur.append(ln.rstrip("\n"))
                if ln.startswith('{"cov"'):          # the end event (keys are sorted, "cov" comes first)
                    name = json.loads(cur[0]).get("name")
                    if name not in bad_names and len(cur) < 200 and any('"op":"pop"' in x and '"rec"' in x for x in cur):
                        lines = cur
                        break
                    cur = []
        if lines:
            break
    if not lines:
        return [{"corruption": None, "rejected": None}]
    res, files, wants = [], [], []
    for kind, want in (("pop-record", {"pop-skipped-records", "pop-returned-wrong-record"}), ("free-list", {"live-slot-on-free-list", "free-list-not-terminated"})):
        evs = [json.loads(x) for x in lines]
        desc = None
        for i, e in enumerate(evs):
            if kind == "pop-record" and e.get("e") == "op" and e.get("op") == "pop" and "rec" in e:
                r = e["rec"]
                for k in ("seq", "id", "bid", "b2"):
                    r[k] += 1
                if r["dl"] >= 4:
                    r["d0"] += 1
                desc = f"history {evs[0].get('name')}: line {i+1}: record handed out by pop changed from {r['seq']-1} to {r['seq']}"
                break
            if kind == "free-list" and e.get("e") == "op" and e["st"]["live"] and -1 not in e["st"]["live"]:
                e["st"]["free"].append(e["st"]["live"][0])
                e["st"]["fpc"].append(-1)
                desc = f"history {evs[0].get('name')}: line {i+1}: first live slot also recorded at the end of the free list"
                break
        if desc is None:
            res.append({"corruption": None, "rejected": None})
            continue
        pth = os.path.join(wd, f"selftest_{kind}.ndjson")
        with open(pth, "w") as fh:
            fh.write("\n".join(json.dumps(e) for e in evs) + "\n")
        files.append(pth)
        wants.append((desc, want))
    if files:
        viols, _, _ = monitor(files, os.path.join(wd, "selftest"), timeout=300)
        for pth, (desc, want) in zip(files, wants):
            codes = sorted({v["code"] for v in viols if v["file"] == pth})
            res.append({"corruption": desc, "rejected": bool(set(codes) & want), "codes": codes})
    return res

# ------------------------------------------------------------------ the part

def run_part(out, tier, seed, wd, binp=None):
    quick = tier == "quick"
    t0 = time.time()
    os.makedirs(wd, exist_ok=True)
    timing = {}
    rng = random.Random(seed * 7919 + 9)
    # (1) + (2): TLC, in parallel
    mcfgs, scfgs = model_configs(quick), sim_configs(quick)
    with cf.ThreadPoolExecutor(max_workers=4) as ex:
        fm = [ex.submit(run_model, n, d, w, wd, 300 if quick else 1500) for n, d, w in mcfgs]
        fs = [ex.submit(run_sim, i, b, n, seed, wd) for i, (b, n) in enumerate(scfgs)]
        if binp is None:
            binp = vbuild.build_inpkg("server", wd)
        models = [f.result() for f in fm]
        sims = [f.result() for f in fs]
    timing["tlc_models_and_walks_s"] = round(time.time() - t0, 1)
    by = {m["name"]: m for m in models}
    for m in models:
        if m["name"].startswith("repaired") and m["cex"]:
            # the model with the named deviation repaired still has refuted programs: they are replayed like every other one
            pass
        if m["name"] == "next-not-cleared" and not m["cex"]:
            raise InfraError("ReplRing with ReleaseClearsNext = FALSE did not refute any clause (vacuous model?)")
    # (3) programs
    progs = []
    def add(name, d, ops, src):
        progs.append({"name": name, "buf": d["buf"], "max": d["max"], "nc": d["nc"], "ops": ops, "src": src})
    ncover_all = 0
    for m in models:
        if not m["d"]["rcn"]:
            continue        # programs of the variant with the dropped statement are not evidence about the code
        cov = drop_prefixes(m["cover"])
        ncover_all += len(cov)
        if quick and len(cov) > 2500:
            cov = rng.sample(cov, 2500)
        for j, p in enumerate(cov):
            add(f"cover-{m['name']}-{j}", m["d"], p, "model-cover")
        cex = sorted(m["cex"], key=lambda c: len(c["prog"]))
        head, rest = cex[:10], cex[10:]
        rng.shuffle(rest)
        for j, c in enumerate((head + rest)[:40 if quick else 400]):
            add(f"cex-{m['name']}-{j}", m["d"], c["prog"], "model-cex")
    for i, s in enumerate(sims):
        for j, p in enumerate(s["behs"]):
            add(f"walk-{i}-{j}", s["b"], p, "tlc-walk")
        for j, c in enumerate(s["cex"][:20 if quick else 200]):
            add(f"walkcex-{i}-{j}", s["b"], c["prog"], "model-cex")
    progs += directed()
    # (4) replay on the real ring
    t1 = time.time()
    traces = []
    todo, rnd = progs, 0
    while todo and rnd < 5:
        res = engine.run_harness(binp, "TestVerifRing", todo, os.path.join(wd, f"run{rnd}"), tag=f"g{rnd}", nshards=min(len(todo), engine.NCPU * (1 if quick else 3)))
        todo = []
        for fin, fout, p in res:
            if p is not None:
                raise InfraError(f"ring driver died on {fin} (outside an operation of the ring; harness problem):\n" + (p.stdout or "")[-3000:] + (p.stderr or "")[-2000:])
            traces.append(fout)
            with open(fout, "rb") as fh:
                fh.seek(max(0, os.path.getsize(fout) - 400))
                tail = fh.read().decode(errors="replace").strip().splitlines()
            if tail and tail[-1].startswith('{"done"'):          # the watchdog ended the process inside an operation
                done = json.loads(tail[-1])["done"]
                with open(fin) as fh:
                    todo += [json.loads(x) for x in fh.read().splitlines()[done + 1:]]
        rnd += 1
    timing["replay_on_real_ring_s"] = round(time.time() - t1, 1)
    # implementation-level coverage, measured by the driver from the real struct
    reach = {"grown_to_max": 0, "release_loop_body": 0, "free_list_exhausted": 0, "free_list_refilled": 0, "all_four": 0, "addpoll_on_recycled_slot": 0}
    nops = nhist = 0
    maxslots = 0
    for tr in traces:
        with open(tr) as fh:
            for ln in fh:
                if ln.startswith('{"cov"'):
                    nhist += 1
                    c = json.loads(ln)["cov"]
                    for k in ("grown_to_max", "release_loop_body", "free_list_exhausted", "free_list_refilled", "addpoll_on_recycled_slot"):
                        reach[k] += 1 if c.get(k, 0) > 0 else 0
                    reach["all_four"] += 1 if all(c.get(k, 0) > 0 for k in ("grown_to_max", "release_loop_body", "free_list_exhausted", "free_list_refilled")) else 0
                    maxslots = max(maxslots, c.get("slots", 0))
                elif '"e":"op"' in ln[:60]:
                    nops += 1
    # (4) the verdict
    t2 = time.time()
    viols, divs, mst = monitor(traces, os.path.join(wd, "mon"))
    timing["trace_validation_s"] = round(time.time() - t2, 1)
    byname = {p["name"]: p for p in progs}
    per_code, counts = {}, {}
    for v in sorted(viols, key=lambda v: len(byname.get(v.get("name"), {}).get("ops", []))):
        counts[v["code"]] = counts.get(v["code"], 0) + 1
        if per_code.get(v["code"], 0) >= 3:
            continue
        per_code[v["code"]] = per_code.get(v["code"], 0) + 1
        pg = byname.get(v.get("name"))
        out.viols.append((v, {"program": pg, "how": "feed the program (one json line) to TestVerifRing via VERIF_IN/VERIF_OUT (harness/inpkg/server/zz_verif_ring_test.go) and validate the trace with spec/mon/MonReplRing.tla"}))
    cex_names = {p["name"] for p in progs if p["src"] == "model-cex"}
    reproduced = cex_names & {v.get("name") for v in viols}
    # (5) self-test
    t3 = time.time()
    stest = selftest(traces, {v.get("name") for v in viols}, wd)
    timing["selftest_s"] = round(time.time() - t3, 1)
    for s_ in stest:
        if s_["rejected"] is False:
            raise InfraError(f"ring self-test failed: MonReplRing accepted a corrupted trace ({s_['corruption']}; codes {s_.get('codes')})")
    if all(s_["rejected"] is None for s_ in stest) and not viols:
        raise InfraError("ring self-test could not find a history to corrupt")     # (with violations in nearly every history there may be no accepted one)
    timing["total_s"] = round(time.time() - t0, 1)
    src_count = {}
    for p in progs:
        src_count[p["src"]] = src_count.get(p["src"], 0) + 1
    refine = [m for m in models if m["d"]["rcn"] and m["d"]["wrap"]]
    return {
        "states": sum(m["states"] for m in models) + sum(s["states"] for s in sims),
        "transitions": sum(m["transitions"] for m in models) + sum(s["states"] for s in sims),
        "traces_validated_against_impl": nhist,
        "model": [{"module": "spec/ReplRing.tla", "config": m["name"],
                   "constants": {k: m["d"][k] for k in ("buf", "max", "nc", "dls", "maxpush", "maxsync", "sb")},
                   "ReleaseClearsNext": m["d"]["rcn"], "AddPollWrapsMarker": m["d"]["wrap"],
                   "distinct_states": m["states"], "transitions": m["transitions"], "wall_s": round(m["wall"], 1),
                   "refuted_programs": len(m["cex"]), "refuted_clauses": sorted({c["code"] for c in m["cex"]}),
                   "cover_programs": len(m["cover"])} for m in models],
        "invariants": ["every result equals what the reference allows (Judge: record handed out = successor of the cursor's position, EOF only at the newest record, delivered stream = log, Search / Head positions)",
                       "tight reference (found iff in the ring, out of buf only when the needed or the current record is recycled, Head = newest)",
                       "StructCode: live chain from tail ends on head, free list nil-terminated on freeHead, disjoint, seqs consecutive, used = sum of live sizes, registered cursor on a live slot or flagged out",
                       "no walk over nextItem that does not end", "BooksOK"],
        "walks": [{"module": "spec/ReplRingSim.tla", "constants": s["b"], "behaviours": len(s["behs"]), "refuted_walks": len(s["cex"]),
                   "states_checked": s["states"], "wall_s": round(s["wall"], 1)} for s in sims],
        "programs_run": len(progs), "programs_by_source": src_count, "cover_programs_available": ncover_all,
        "ops_run_on_real_ring": nops, "largest_ring_slots": maxslots,
        "programs_reaching": reach,
        "monitor": dict(mst, module="spec/mon/MonReplRing.tla"),
        "model_conformance": {"steps_compared": mst["steps_judged"], "divergences": len(divs), "first": divs[:3],
                              "meaning": "result, record handed out, record delivered and the struct projection (up to slot names) of the real ring equal the ReplRing model's after every step; a divergence is not a verdict"},
        "monitor_rejections_by_code": counts,
        "model_refutations_replayed": len(cex_names), "model_refutations_reproduced_on_real_code": len(reproduced),
        "selftest": stest, "timing": timing,
        "samples": [{"name": p["name"], "buf": p["buf"], "max": p["max"], "nc": p["nc"], "ops": p["ops"][:16]} for p in (progs[:1] + [q for q in progs if q["src"] == "tlc-walk"][:1])],
        "assumptions": ["single goroutine, one operation at a time (the ring's mutex serialises Push against Pop / Search / Head; the lock-free pollIndex++ of SendProcess is one step here)",
                        "manager = nil: Push grows at once instead of first waiting 10 ms for slow followers",
                        "cursors are used as production uses them: handleInitSync positions (Head / Search / catch-up), addServerChannel registers, SendProcess sends and pops until an error, removeServerChannel unregisters; records may be pushed between any two of these steps",
                        "'out of buf', a refused Search and Head on any live record are accepted (the follower resynchronises / gets a complete stream); the tight reference on them is counted only (strict_reference_only)"],
    }

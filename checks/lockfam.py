"""Checks C01 C02 C03 C04 C05 C06 C17 (lock engine family), engine S part.

  (1) TLC exhaustive design check of spec/LockEngine.tla (bounded constants)
  (2) TLC -simulate behaviours of LockEngineSim -> replayed on the real code (engine S)
  (3) seeded wide-range histories + directed regression histories on the real code
  (4) every recorded trace validated by TLC against the property monitor spec/mon/MonLock.tla
  (5) binding self-test: a recorded trace is corrupted and must be rejected
"""
import json, os, random, shutil, time, copy
import vbuild, vtlc, engine, gen_core, gen_conc, gen_rt, checklib
from vbuild import VERIF, InfraError

PROPS = ["C01", "C02", "C03", "C04", "C05", "C06", "C17"]

FLAGMAP = {"": (0, 0), "show": (1, 0), "update": (2, 0), "showupdate": (3, 0), "conc": (8, 0), "prio": (0, 0x10)}
UFLAGMAP = {"": 0, "first": 1, "cancel": 2}

MC_CFG = '''SPECIFICATION Spec
CONSTANTS
  Keys = {1}
  Lids = {1, 2, 3}
  Counts = {0, 1}
  Rcounts = {0, 1}
  Timeouts = {0, 2}
  Expireds = {0, 2}
  MaxReq = %(maxreq)d
  MaxNow = %(maxnow)d
  MaxDepth = 2
  LockFlags = {%(lockflags)s}
  UnlockFlags = {"first", "cancel"}
  A1Fixed = TRUE
  A13Fixed = TRUE
  NoDupWait = TRUE
  Roles = {%(roles)s}
  MaxRoleChanges = %(mrc)d
  AofDelay = %(aofdelay)d
  WaitLeader = 3
  ReArm = 1
  Turns = {"any"}
  Lag = %(lag)s
VIEW view
INVARIANTS TypeOK HoldersWellFormed OneTerminalReply QueuedMeansLive NoLostWakeup WaitedFlagInv QueueOrderInv
PROPERTY ActionProps
CHECK_DEADLOCK FALSE
'''

def behaviours_to_scenarios(lines, seed, limit):
    """TLC prints every prefix that satisfies the export condition; keep maximal behaviours only."""
    hs = set()
    for ln in lines:
        ln = ln.strip()
        if ln.startswith('"BEHAVIOUR '):
            try:
                hs.add(json.loads(ln)[10:])
            except Exception:
                pass
    hists = sorted(hs)
    # drop strict prefixes
    keep = []
    for i, h in enumerate(hists):
        core = h[:-1]
        if i + 1 < len(hists) and hists[i + 1].startswith(core + ","):
            continue
        keep.append(json.loads(h))
    rng = random.Random(seed)
    rng.shuffle(keep)
    keep = keep[:limit]
    scs = []
    for n, h in enumerate(keep):
        steps = []
        for st in h:
            if st["op"] == "tick":
                if steps and steps[-1]["op"] == "tick":
                    steps[-1]["n"] += 1
                else:
                    steps.append({"op": "tick", "n": 1, "order": "te"})
            elif st["op"] == "lock":
                fl, tf = FLAGMAP[st["fl"]]
                steps.append({"op": "lock", "conn": 1 + (st["lid"] + n) % 3, "db": 0, "key": st["key"], "lid": st["lid"], "flag": fl, "tf": tf,
                              "ef": 0, "to": st["to"], "ex": st["ex"], "cnt": st["cnt"], "rc": st["rc"], "nodup": True})
            else:
                steps.append({"op": "unlock", "conn": 1 + (st["lid"] + n) % 3, "db": 0, "key": st["key"], "lid": st["lid"], "flag": UFLAGMAP[st["fl"]],
                              "tf": 0, "ef": 0, "to": 0, "ex": 0, "cnt": 0, "rc": st["rc"]})
        steps.append({"op": "drain", "n": 12})
        scs.append({"name": f"tlc-{seed}-{n}", "cfg": {}, "steps": steps, "complete": True, "mode": "seq"})
    return scs, len(hists)

def fine_behaviours_to_scenarios(lines, seed, limit):
    """Behaviours of LockEngineFine (one step = one critical section of one actor) -> engine C `fine` steps."""
    hs = set()
    for ln in lines:
        ln = ln.strip()
        if ln.startswith('"BEHAVIOUR '):
            try:
                hs.add(json.loads(ln)[10:])
            except Exception:
                pass
    hists = [json.loads(h) for h in sorted(hs)]
    rng = random.Random(seed)
    rng.shuffle(hists)
    scs = []
    for n, h in enumerate(hists[:limit]):
        actors, script = {}, []
        for st in h:
            a = st.get("actor", "")
            if st["op"] == "lock":
                fl, tf = FLAGMAP[st["fl"]]
                actors[a] = {"op": "lock", "conn": 1 + int(a[1:]) % 4, "db": 0, "key": st["key"], "lid": st["lid"], "flag": fl, "tf": tf, "ef": 0,
                             "to": st["to"], "ex": st["ex"], "cnt": st["cnt"], "rc": st["rc"], "nodup": True}
                script.append(a)
            elif st["op"] == "unlock":
                actors[a] = {"op": "unlock", "conn": 1 + int(a[1:]) % 4, "db": 0, "key": st["key"], "lid": st["lid"], "flag": UFLAGMAP[st["fl"]],
                             "tf": 0, "ef": 0, "to": 0, "ex": 0, "cnt": 0, "rc": st["rc"]}
                script.append(a)
            elif st["op"] == "tick":
                script.append("clock")
            else:
                script.append(a)
        steps = [{"op": "fine", "actors": actors, "script": script}, {"op": "drain", "n": 10}]
        scs.append({"name": f"fine-{seed}-{n}", "cfg": {}, "steps": steps, "complete": True})
    return scs, len(hists)

def directed_scenarios():
    path = os.path.join(VERIF, "scenarios", "lock_directed.json")
    with open(path) as fh:
        return json.load(fh)

# ------------------------------------------------------------------ self-test (binding demonstration)

def corrupt_trace(prop, lines):
    """Return (corrupted lines, description) or None.  Each corruption changes ONE recorded field (or
    duplicates / swaps one recorded line) of a trace the monitor accepted."""
    evs = [json.loads(x) for x in lines]
    def dump():
        return [json.dumps(e) for e in evs]
    if prop == "C01":
        # an immediate TIMEOUT / queued request on a busy exclusive key is turned into SUCCED
        held = {}
        for i, e in enumerate(evs):
            if e["e"] == "snap":
                held = {(k["db"], k["key"]): k for k in e["keys"]}
            if e["e"] == "reply" and e["ct"] == 1 and e["res"] == 8 and e["cur"] == e["rid"]:
                k = held.get((e["db"], e["key"]))
                if k and k["locked"] > 0 and e["cnt"] == 0 and e["ex"] > 0:
                    e["res"] = 0
                    return dump(), f"line {i+1}: TIMEOUT reply of a Count-0 request on a held key rewritten to SUCCED"
    if prop == "C02":
        for i, e in enumerate(evs):
            if e["e"] == "reply" and e["ct"] == 2 and e["res"] in (6, 7) and e["cur"] == e["rid"]:
                e["res"] = 0
                return dump(), f"line {i+1}: refused unlock rewritten to SUCCED"
    if prop == "C03":
        for i, e in enumerate(evs):
            if e["e"] == "reply" and e["res"] in (0, 8) and e["ct"] == 1:
                evs.insert(i + 1, dict(e))
                return dump(), f"line {i+1}: terminal reply duplicated"
    if prop == "C04":
        # swap two consecutive wake-up grants of the same key
        for i in range(len(evs) - 1):
            a, b = evs[i], evs[i + 1]
            if a["e"] == "reply" and b["e"] == "reply" and a["res"] == 0 and b["res"] == 0 and a["ct"] == 1 and b["ct"] == 1 \
               and a["cur"] != a["rid"] and b["cur"] != b["rid"] and a["key"] == b["key"] and a["db"] == b["db"] and a["rid"] != b["rid"]:
                evs[i], evs[i + 1] = b, a
                return dump(), f"lines {i+1},{i+2}: two wake-up grants swapped"
    if prop == "C05":
        for i, e in enumerate(evs):
            if e["e"] == "reply" and e["res"] == 8 and e["cur"] == -1 and e["to"] >= 2:
                e["t"] = e["t"] - e["to"]
                return dump(), f"line {i+1}: TIMEOUT of a queued request moved {e['to']} s earlier"
    if prop == "C06":
        for i, e in enumerate(evs):
            if e["e"] == "reply" and e["res"] == 9 and e["ex"] >= 2:
                e["t"] = e["t"] - e["ex"]
                return dump(), f"line {i+1}: EXPRIED notice moved {e['ex']} s earlier"
    if prop == "C17":
        for i, e in enumerate(evs):
            if e["e"] == "reply" and e["res"] == 0 and e["ct"] == 1 and e["lc"] >= 1:
                e["lc"] += 1
                return dump(), f"line {i+1}: LCount of a SUCCED reply incremented"
    return None

def selftest(prop, traces, workdir):
    """Corrupt one accepted trace; the monitor must reject it for this property."""
    for tr in traces:
        with open(tr) as fh:
            lines = fh.read().splitlines()
        # split into histories, try each
        starts = [i for i, x in enumerate(lines) if x.startswith('{"e":"begin"') or '"e":"begin"' in x[:40]]
        starts.append(len(lines))
        for a, b in zip(starts, starts[1:]):
            if b - a > 4000:
                continue
            res = corrupt_trace(prop, lines[a:b])
            if res:
                cl, desc = res
                p = os.path.join(workdir, f"selftest_{prop}.ndjson")
                with open(p, "w") as fh:
                    fh.write("\n".join(cl) + "\n")
                viols, _ = engine.monitor_traces("MonLock", [p], [prop], os.path.join(workdir, "selftest"))
                return {"corruption": desc, "rejected": len(viols) > 0, "codes": sorted({v["code"] for v in viols})}
    return {"corruption": None, "rejected": None}

# ------------------------------------------------------------------ the check

# properties that promise an ANSWER or an eventual effect (a reply, a wake-up, a timer firing, reclamation): a server that
# dies of a panic in its own code breaks them; for the pure safety properties (C01, C02) a dead driver decides nothing
CRASH_BREAKS = {"C03", "C04", "C05", "C06", "C10", "C17"}

def died(prop, out, binp, testname, fin, fout, p, wd, eng):
    """a driver process died: the histories it finished are still validated; the death itself is a verdict only when it is
    a panic of the code under test that the history in flight reproduces alone (engine.crash_verdict)"""
    cv = engine.crash_verdict(prop, binp, testname, fin, fout, p, os.path.join(wd, "crash")) if prop in CRASH_BREAKS else None
    if cv is None:
        raise InfraError(f"engine {eng} died on {fin}:\n" + (p.stdout or "")[-3000:] + (p.stderr or "")[-2000:])
    out.viols.append(cv)
    engine.drop_unfinished(fout)

def run(prop, tier, seed):
    out = checklib.Outcome()
    wd = vbuild.scratch(f"vf_{prop}_")
    try:
        quick = tier == "quick"
        t0 = time.time()
        # (1) exhaustive design check
        mc = MC_CFG % {"maxreq": 3 if quick else 4, "maxnow": 3 if quick else 4, "lag": "FALSE", "roles": '"leader"', "mrc": 0, "aofdelay": 100,
                       "lockflags": '"show", "update", "showupdate", "conc", "prio"'}
        r = vtlc.run_tlc(os.path.join(VERIF, "spec"), "LockEngine", mc, os.path.join(wd, "mc"), workers=engine.NCPU,
                         timeout=900 if quick else 3600)
        st = vtlc.parse_stats(r["out"])
        if st is None or "No error has been found" not in r["out"]:
            raise InfraError("LockEngine exhaustive check did not complete cleanly (design model, not a verdict on the code):\n" + r["out"][-3000:])
        mc_wall = r["wall"]
        # (1a) C01: the lock-free key table (GetOrNewLockManager / RemoveLockManager / re-check), one step per atomic access
        keytable = None
        if prop == "C01":
            with open(os.path.join(VERIF, "spec", "mc", "KeyTable_3p.cfg")) as fh:
                ktcfg = fh.read()
            if quick:
                ktcfg = ktcfg.replace("MaxOps = 3", "MaxOps = 2")
            rk = vtlc.run_tlc(os.path.join(VERIF, "spec"), "KeyTable", ktcfg, os.path.join(wd, "mc_keytable"), workers=engine.NCPU, timeout=900 if quick else 3600)
            sk = vtlc.parse_stats(rk["out"])
            if sk is None or "No error has been found" not in rk["out"]:
                raise InfraError("KeyTable exhaustive check did not complete cleanly (design model, not a verdict on the code):\n" + rk["out"][-3000:])
            keytable = {"module": "spec/KeyTable.tla", "processes": 2, "requests_each": 2 if quick else 3, "distinct_states": sk["distinct"],
                        "generated": sk["generated"], "wall_s": round(rk["wall"], 1),
                        "invariants": ["NoHoldInDeadManager", "OneManagerPerHeldKey", "RefsCoverHolds", "MutexOK"]}
            st = {"distinct": st["distinct"] + sk["distinct"], "generated": st["generated"] + sk["generated"], "queue": 0}
        # (1b) C05 / C06: the timer wheel design model (back-off re-checks, long-table hand-over, sweeper lag, updates)
        wheel = None
        if prop in ("C05", "C06"):
            wheel = {"module": "spec/TimerWheel.tla", "configs": {}}
            for cfgname in ("TimerWheel_one", "TimerWheel_upd"):
                with open(os.path.join(VERIF, "spec", "mc", cfgname + ".cfg")) as fh:
                    cfgtxt = fh.read()
                rw = vtlc.run_tlc(os.path.join(VERIF, "spec"), "TimerWheel", cfgtxt, os.path.join(wd, "mc_" + cfgname), workers=engine.NCPU, timeout=600)
                sw = vtlc.parse_stats(rw["out"])
                if sw is None or "No error has been found" not in rw["out"]:
                    raise InfraError("TimerWheel exhaustive check did not complete cleanly (design model, not a verdict on the code):\n" + rw["out"][-3000:])
                wheel["configs"][cfgname] = {"distinct_states": sw["distinct"], "generated": sw["generated"], "wall_s": round(rw["wall"], 1)}
                st = {"distinct": st["distinct"] + sw["distinct"], "generated": st["generated"] + sw["generated"], "queue": 0}
        # (2) behaviours
        nb = 150 if quick else 3000
        with open(os.path.join(VERIF, "spec", "sim", "LockEngine_sim.cfg")) as fh:
            simcfg = fh.read()
        rs = vtlc.run_tlc(os.path.join(VERIF, "spec"), "LockEngineSim", simcfg, os.path.join(wd, "sim"), workers=1, timeout=600,
                          simulate=f"num={nb}", depth=120, seed=seed)
        if "Error:" in rs["out"] and "BEHAVIOUR" not in rs["out"]:
            raise InfraError("behaviour generation failed:\n" + rs["out"][-2000:])
        beh, nprinted = behaviours_to_scenarios(rs["out"].splitlines(), seed, nb)
        if len(beh) < 10:
            raise InfraError("behaviour generation produced too few behaviours")
        # (3) wide-range + directed
        nr = 180 if quick else 4000
        rnd = [gen_core.gen_scenario(seed, i) for i in range(nr)]
        big = [gen_core.gen_big(seed, i) for i in range(24 if quick else 240)]
        big += [gen_core.gen_edge(seed, i) for i in range(16 if quick else 160)]       # boundary values of the request fields
        direct = directed_scenarios()
        scs = beh + rnd + big + direct
        binp = vbuild.build_inpkg("server", wd)
        res = engine.run_harness(binp, "TestVerifS", scs, os.path.join(wd, "run"))
        traces = []
        for fin, fout, p in res:
            if p is not None:
                died(prop, out, binp, "TestVerifS", fin, fout, p, wd, "S")
            traces.append(fout)
        # (3b) engine C: gated concurrent schedules (client requests racing each other and the sweepers)
        nc = 200 if quick else 4000
        conc = [gen_conc.gen_conc(seed, i) for i in range(nc)]
        conc += [gen_conc.gen_conc_free(seed, i) for i in range(40 if quick else 600)]
        conc += [gen_conc.gen_conc_recycle(seed, i) for i in range(120 if quick else 1500)]   # a request parked while its key manager is freed and reused     # ungated bursts: first requests of databases / keys
        # schedules generated by TLC from the fine-atomicity spec (one step = one critical section)
        with open(os.path.join(VERIF, "spec", "sim", "LockEngineFine_sim.cfg")) as fh:
            fsimcfg = fh.read()
        nfb = 150 if quick else 2500
        rf = vtlc.run_tlc(os.path.join(VERIF, "spec"), "LockEngineFineSim", fsimcfg, os.path.join(wd, "fsim"), workers=1, timeout=600,
                          simulate=f"num={nfb}", depth=90, seed=seed)
        fine, nfine = fine_behaviours_to_scenarios(rf["out"].splitlines(), seed, nfb)
        if len(fine) < 10:
            raise InfraError("fine-atomicity behaviour generation produced too few behaviours:\n" + rf["out"][-1500:])
        conc += fine
        with open(os.path.join(VERIF, "scenarios", "conc_directed.json")) as fh:
            conc += json.load(fh)
        resc = engine.run_harness(binp, "TestVerifC", conc, os.path.join(wd, "runc"), tag="c")
        for fin, fout, p in resc:
            if p is not None:
                died(prop, out, binp, "TestVerifC", fin, fout, p, wd, "C")
            traces.append(fout)
        scs = scs + conc
        # (3c) engine RT: millisecond timers on the real clock with the server's own sweepers (C05 / C06 / C03)
        rt = []
        if prop in ("C03", "C05", "C06"):
            rt = [gen_rt.gen_rt(seed, i) for i in range(48 if quick else 480) if i % 4 != 3]
            resr = engine.run_harness(binp, "TestVerifRT", rt, os.path.join(wd, "runrt"), tag="rt", nshards=min(len(rt), 48))
            for fin, fout, p in resr:
                if p is not None:
                    died(prop, out, binp, "TestVerifRT", fin, fout, p, wd, "RT")
                traces.append(fout)
            scs = scs + rt
        # (4) monitors
        viols, mst = engine.monitor_traces("MonLock", traces, [prop], os.path.join(wd, "mon"))
        byname = {sc["name"]: sc for sc in scs}
        for v in viols:
            if v["prop"] == prop:
                out.viols.append((v, byname.get(v.get("name"))))
        # (5) self-test
        stest = selftest(prop, traces, wd)
        if stest["rejected"] is False:
            raise InfraError(f"self-test failed: the monitor accepted a corrupted trace ({stest['corruption']})")
        # (5) C03 on real text / binary protocol objects (engine W): reply streams stay aligned with the requests
        realproto = None
        if prop == "C03":
            from checks import sessfam
            realproto = sessfam.run_c03_part(out, tier, seed, wd)
        samples = []
        for sc in (beh[:1] + rnd[:1]):
            samples.append({"name": sc["name"], "steps": sc["steps"][:12]})
        out.coverage = {
            "states": st["distinct"], "transitions": st["generated"], "traces_validated_against_impl": len(scs),
            "samples": samples, "exhaustive": True,
            "model": {"module": "spec/LockEngine.tla", "constants": "1 key, 3 LockIds, Count {0,1}, Rcount {0,1}, T {0,2}, E {0,2}, flags show/update/showupdate/conc/prio, unlock first/cancel, <= %d requests, clock <= %d" % ((3, 3) if quick else (4, 4)),
                      "invariants": ["HoldersWellFormed", "OneTerminalReply", "QueuedMeansLive", "NoLostWakeup", "WaitedFlagInv", "QueueOrderInv", "GrantOK", "RefusedUnlockChangesNothing", "NoEarlyTimeout"],
                      "wall_s": round(mc_wall, 1)},
            "timer_wheel_model": wheel, "key_table_model": keytable,
            "tlc_behaviours_replayed": len(beh), "tlc_behaviour_prefixes_printed": nprinted,
            "gated_concurrent_histories": len(conc), "tlc_fine_schedules_replayed": len(fine), "realtime_ms_histories": len(rt), "random_histories": len(rnd), "big_histories": len(big), "directed_histories": len(direct),
            "monitor": {"module": "spec/mon/MonLock.tla", "events": mst["events"], "monitor_states": mst["monitor_states"], "clauses_of": prop},
            "selftest": stest, "real_protocol_connections": realproto,
            "evaluations": len(scs), "distinct_nontrivial": len({json.dumps(s["steps"], sort_keys=True) for s in scs}),
            "rule": "one evaluation = one history replayed on the real code and validated by the TLA+ monitor; distinct = distinct step sequences",
        }
        out.assumptions = [
            "engine S is sequential: one goroutine, virtual clock, sweeps run by the driver (hook H1)",
            "engine C runs requests and sweepers as goroutines gated at the reply callback and the verifPoint hooks; schedules are seeded random (not enumerated); exact-count clauses of C17 are judged on sequential histories only",
            "requests with a LockId that already has a live queued request on the same key are skipped by the driver (finding A12 is explored by a directed history only)",
            "millisecond timers run on the real clock (engine RT): only the lower bound (measured from the send stamp of the request that set the terms; 50 ms tolerance for grants from the queue) and eventual firing are judged, as the statement says",
        ]
        return out
    finally:
        shutil.rmtree(wd, ignore_errors=True)


def replay(prop, path):
    """bin/check Cxx --replay <file>: re-run the stored history on the real code and judge it with the monitor."""
    with open(path) as fh:
        rec = json.load(fh)
    sc = rec.get("replay")
    if not sc:
        print("replay file carries no scenario")
        return 2
    wd = vbuild.scratch(f"vf_replay_{prop}_")
    try:
        binp = vbuild.build_inpkg("server", wd)
        conc = any(st.get("op") in ("par", "fine") for st in sc["steps"])
        rt = sc["name"].startswith("rt-")
        test = "TestVerifRT" if rt else ("TestVerifC" if conc else "TestVerifS")
        res = engine.run_harness(binp, test, [sc], os.path.join(wd, "run"), nshards=1)
        if res[0][2] is not None:
            print("harness died:\n" + res[0][2].stdout[-2000:])
            return 2
        viols, _ = engine.monitor_traces("MonLock", [res[0][1]], [prop], os.path.join(wd, "mon"))
        for v in viols:
            print("VIOLATION property=%s replay=%s" % (prop, path))
            print("  " + json.dumps({k: v[k] for k in v if k != "file"})[:800])
        if not viols:
            print("no violation of %s on this history" % prop)
        return 1 if viols else 0
    finally:
        shutil.rmtree(wd, ignore_errors=True)

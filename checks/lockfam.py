"""Checks C01 C02 C03 C04 C05 C06 C17 (lock engine family), engine S part.

  (1) TLC exhaustive design check of spec/LockEngine.tla (bounded constants)
  (2) TLC -simulate behaviours of LockEngineSim -> replayed on the real code (engine S)
  (3) seeded wide-range histories + directed regression histories on the real code
  (4) every recorded trace validated by TLC against the property monitor spec/mon/MonLock.tla
  (5) binding self-test: a recorded trace is corrupted and must be rejected
"""
import json, os, random, shutil, time, copy
import vbuild, vtlc, engine, gen_core, gen_conc, gen_rt, checklib
from vbuild import VERIF, InfraError

PROPS = ["C01", "C02", "C03", "C04", "C05", "C06", "C17"]

# model flag word -> (lock flag, timeout flag, expiry flag); "updkeep" also fixes Expried = 0xffff (keep the deadline)
FLAGMAP = {"": (0, 0, 0), "show": (1, 0, 0), "update": (2, 0, 0), "showupdate": (3, 0, 0), "conc": (8, 0, 0), "prio": (0, 0x10, 0),
           "unl": (0, 0, 0x4000), "updunl": (2, 0, 0x4000), "showupdunl": (3, 0, 0x4000), "updkeep": (2, 0, 0x4000)}
UFLAGMAP = {"": 0, "first": 1, "cancel": 2}

MC_CFG = '''SPECIFICATION Spec
CONSTANTS
  Keys = {1}
  Lids = {1, 2, 3}
  Counts = {0, 1}
  Rcounts = {0, 1}
  Timeouts = {0, 2}
  Expireds = {0, 2}
  MaxReq = %(maxreq)d
  MaxNow = %(maxnow)d
  MaxDepth = 2
  LockFlags = {%(lockflags)s}
  UnlockFlags = {"first", "cancel"}
  A1Fixed = TRUE
  A13Fixed = TRUE
  NoDupWait = TRUE
  Roles = {%(roles)s}
  MaxRoleChanges = %(mrc)d
  AofDelay = %(aofdelay)d
  WaitLeader = 3
  ReArm = 1
  Turns = {"any"}
  Lag = %(lag)s
VIEW view
INVARIANTS TypeOK HoldersWellFormed OneTerminalReply QueuedMeansLive NoLostWakeup WaitedFlagInv QueueOrderInv
PROPERTY ActionProps
CHECK_DEADLOCK FALSE
'''

def behaviours_to_scenarios(lines, seed, limit, tag="tlc"):
    """TLC prints every prefix that satisfies the export condition; keep maximal behaviours only."""
    hs = set()
    for ln in lines:
        ln = ln.strip()
        if ln.startswith('"BEHAVIOUR '):
            try:
                hs.add(json.loads(ln)[10:])
            except Exception:
                pass
    hists = sorted(hs)
    # drop strict prefixes
    keep = []
    for i, h in enumerate(hists):
        core = h[:-1]
        if i + 1 < len(hists) and hists[i + 1].startswith(core + ","):
            continue
        keep.append(json.loads(h))
    rng = random.Random(seed)
    rng.shuffle(keep)
    keep = keep[:limit]
    scs = []
    for n, h in enumerate(keep):
        steps = []
        for st in h:
            if st["op"] == "tick":
                if steps and steps[-1]["op"] == "tick":
                    steps[-1]["n"] += 1
                else:
                    steps.append({"op": "tick", "n": 1, "order": "te"})
            elif st["op"] == "lock":
                fl, tf, ef = FLAGMAP[st["fl"]]
                steps.append({"op": "lock", "conn": 1 + (st["lid"] + n) % 3, "db": 0, "key": st["key"], "lid": st["lid"], "flag": fl, "tf": tf,
                              "ef": ef, "to": st["to"], "ex": 0xffff if st["fl"] == "updkeep" else st["ex"], "cnt": st["cnt"], "rc": st["rc"], "nodup": True})
            else:
                steps.append({"op": "unlock", "conn": 1 + (st["lid"] + n) % 3, "db": 0, "key": st["key"], "lid": st["lid"], "flag": UFLAGMAP[st["fl"]],
                              "tf": 0, "ef": 0, "to": 0, "ex": 0, "cnt": 0, "rc": st["rc"]})
        steps.append({"op": "drain", "n": 12})
        scs.append({"name": f"{tag}-{seed}-{n}", "cfg": {}, "steps": steps, "complete": True, "mode": "seq"})
    return scs, len(hists)

def fine_behaviours_to_scenarios(lines, seed, limit):
    """Behaviours of LockEngineFine (one step = one critical section of one actor) -> engine C `fine` steps."""
    hs = set()
    for ln in lines:
        ln = ln.strip()
        if ln.startswith('"BEHAVIOUR '):
            try:
                hs.add(json.loads(ln)[10:])
            except Exception:
                pass
    hists = [json.loads(h) for h in sorted(hs)]
    rng = random.Random(seed)
    rng.shuffle(hists)
    scs = []
    for n, h in enumerate(hists[:limit]):
        actors, script = {}, []
        for st in h:
            a = st.get("actor", "")
            if st["op"] == "lock":
                fl, tf, ef = FLAGMAP[st["fl"]]
                actors[a] = {"op": "lock", "conn": 1 + int(a[1:]) % 4, "db": 0, "key": st["key"], "lid": st["lid"], "flag": fl, "tf": tf, "ef": ef,
                             "to": st["to"], "ex": 0xffff if st["fl"] == "updkeep" else st["ex"], "cnt": st["cnt"], "rc": st["rc"], "nodup": True}
                script.append(a)
            elif st["op"] == "unlock":
                actors[a] = {"op": "unlock", "conn": 1 + int(a[1:]) % 4, "db": 0, "key": st["key"], "lid": st["lid"], "flag": UFLAGMAP[st["fl"]],
                             "tf": 0, "ef": 0, "to": 0, "ex": 0, "cnt": 0, "rc": st["rc"]}
                script.append(a)
            elif st["op"] == "tick":
                script.append("clock")
            else:
                script.append(a)
        steps = [{"op": "fine", "actors": actors, "script": script}, {"op": "drain", "n": 10}]
        scs.append({"name": f"fine-{seed}-{n}", "cfg": {}, "steps": steps, "complete": True})
    return scs, len(hists)

def directed_scenarios():
    path = os.path.join(VERIF, "scenarios", "lock_directed.json")
    with open(path) as fh:
        return json.load(fh)

# ------------------------------------------------------------------ self-test (binding demonstration)

SELFTEST_VARIANTS = {"C04": 2}
# the code the monitor has to report for a variant (None: any violation of the property)
SELFTEST_EXPECT = {("C04", 1): "admissible-queued-request-not-served"}

def corrupt_trace(prop, lines, variant=0):
    """Return (corrupted lines, description) or None.  Each corruption changes ONE recorded field (or
    duplicates / swaps one recorded line) of a trace the monitor accepted."""
    evs = [json.loads(x) for x in lines]
    def dump():
        return [json.dumps(e) for e in evs]
    if prop == "C04" and variant == 1:
        # the SUCCED reply of a wake-up grant is re-addressed to a request id nobody sent: for the monitor the request stays
        # queued and its hold never starts - at the next quiescent point a live queued request could be admitted
        if not evs or evs[0].get("mode", "seq") != "seq" or any(x["e"] == "status" for x in evs):
            return None
        # keys on which a wait-until-unlocked / ack-required request was ever sent are not judged by that clause
        special = {(x["db"], x["key"]) for x in evs if x["e"] == "req" and x["tf"] & (0x0200 | 0x1000)}
        for i, e in enumerate(evs):
            if e["e"] == "reply" and e["ct"] == 1 and e["res"] == 0 and e["cur"] != e["rid"] and e["ex"] > 0 and e["cnt"] == 0 \
               and (e["db"], e["key"]) not in special and any(x["e"] == "snap" for x in evs[i + 1:i + 6]):
                e["rid"] = 987654321
                return dump(), f"line {i+1}: rid of a wake-up grant rewritten to an id nobody sent (the grant is lost from the record)"
        return None
    if prop == "C01":
        # an immediate TIMEOUT / queued request on a busy exclusive key is turned into SUCCED
        held = {}
        for i, e in enumerate(evs):
            if e["e"] == "snap":
                held = {(k["db"], k["key"]): k for k in e["keys"]}
            if e["e"] == "reply" and e["ct"] == 1 and e["res"] == 8 and e["cur"] == e["rid"]:
                k = held.get((e["db"], e["key"]))
                if k and k["locked"] > 0 and e["cnt"] == 0 and e["ex"] > 0:
                    e["res"] = 0
                    return dump(), f"line {i+1}: TIMEOUT reply of a Count-0 request on a held key rewritten to SUCCED"
    if prop == "C02":
        for i, e in enumerate(evs):
            if e["e"] == "reply" and e["ct"] == 2 and e["res"] in (6, 7) and e["cur"] == e["rid"]:
                e["res"] = 0
                return dump(), f"line {i+1}: refused unlock rewritten to SUCCED"
    if prop == "C03":
        for i, e in enumerate(evs):
            if e["e"] == "reply" and e["res"] in (0, 8) and e["ct"] == 1:
                evs.insert(i + 1, dict(e))
                return dump(), f"line {i+1}: terminal reply duplicated"
    if prop == "C04":
        # swap two consecutive wake-up grants of the same key
        for i in range(len(evs) - 1):
            a, b = evs[i], evs[i + 1]
            if a["e"] == "reply" and b["e"] == "reply" and a["res"] == 0 and b["res"] == 0 and a["ct"] == 1 and b["ct"] == 1 \
               and a["cur"] != a["rid"] and b["cur"] != b["rid"] and a["key"] == b["key"] and a["db"] == b["db"] and a["rid"] != b["rid"]:
                evs[i], evs[i + 1] = b, a
                return dump(), f"lines {i+1},{i+2}: two wake-up grants swapped"
    if prop == "C05":
        for i, e in enumerate(evs):
            if e["e"] == "reply" and e["res"] == 8 and e["cur"] == -1 and e["to"] >= 2:
                e["t"] = e["t"] - e["to"]
                return dump(), f"line {i+1}: TIMEOUT of a queued request moved {e['to']} s earlier"
    if prop == "C06":
        for i, e in enumerate(evs):
            if e["e"] == "reply" and e["res"] == 9 and e["ex"] >= 2:
                e["t"] = e["t"] - e["ex"]
                return dump(), f"line {i+1}: EXPRIED notice moved {e['ex']} s earlier"
    if prop == "C17":
        for i, e in enumerate(evs):
            if e["e"] == "reply" and e["res"] == 0 and e["ct"] == 1 and e["lc"] >= 1:
                e["lc"] += 1
                return dump(), f"line {i+1}: LCount of a SUCCED reply incremented"
    return None

def selftest(prop, traces, workdir):
    """Corrupt one accepted trace per variant; the monitor must reject each for this property."""
    res = selftest1(prop, traces, workdir, 0)
    for v in range(1, SELFTEST_VARIANTS.get(prop, 1)):
        r2 = selftest1(prop, traces, workdir, v)
        want = SELFTEST_EXPECT.get((prop, v))
        if r2["rejected"] and want and want not in r2["codes"]:
            r2["rejected"] = False
        res.setdefault("more", []).append(r2)
        if r2["rejected"] is False or (r2["rejected"] is None and res["rejected"] is not None):
            res["rejected"] = False
            res["corruption"] = r2["corruption"] or f"variant {v}: no trace offers the pattern"
    return res

def selftest1(prop, traces, workdir, variant):
    for tr in traces:
        with open(tr) as fh:
            lines = fh.read().splitlines()
        # split into histories, try each
        starts = [i for i, x in enumerate(lines) if x.startswith('{"e":"begin"') or '"e":"begin"' in x[:40]]
        starts.append(len(lines))
        for a, b in zip(starts, starts[1:]):
            if b - a > 4000:
                continue
            res = corrupt_trace(prop, lines[a:b], variant)
            if res:
                cl, desc = res
                p = os.path.join(workdir, f"selftest_{prop}_{variant}.ndjson")
                with open(p, "w") as fh:
                    fh.write("\n".join(cl) + "\n")
                viols, _ = engine.monitor_traces("MonLock", [p], [prop], os.path.join(workdir, f"selftest{variant}"))
                return {"corruption": desc, "rejected": len(viols) > 0, "codes": sorted({v["code"] for v in viols})}
    return {"corruption": None, "rejected": None}

# ------------------------------------------------------------------ measured coverage of the additions

def terms_coverage(traces):
    """What the recorded histories actually did (evidence only, never a verdict): a light book-keeping of holds and
    queued requests from the req / ret / reply events of the real code."""
    c = {"updates_changing_only_terms_of_unlimited_hold": 0, "of_which_by_oldest_holder": 0, "of_which_lower_count": 0,
         "keep_deadline_updates_changing_terms": 0, "updates_changing_count_of_timed_hold": 0, "show_update_changing_terms": 0,
         "new_requests_answered_after_oldest_count_lowered": 0, "of_which_refused": 0,
         "relocks_changing_count": 0, "of_which_with_other_holders": 0, "of_which_to_count_zero_with_other_holders": 0,
         "unlocks_by_later_holder_after_oldest_count_replaced": 0, "of_which_oldest_count_zero": 0,
         "relocks_by_later_holder_after_oldest_count_replaced": 0, "max_holders_when_oldest_count_replaced": 0,
         "priority_switches_on_queue_over_128": 0, "queue_sizes_at_priority_switch": [], "switch_after_partial_service": 0,
         "priority_switches_after_queue_peaked_over_128": 0, "peak_and_live_queue_at_those_switches": [],
         "wake_grants_after_switch_on_big_queue": 0, "max_queued_on_one_key": 0}
    for tr in traces:
        reqs, holds, wq, lowered, replaced, served, switched, peak = {}, {}, {}, set(), set(), {}, set(), {}
        with open(tr) as fh:
            for ln in fh:
                if ln.startswith('{"e":"snap"') or ln.startswith('{"e":"tock"'):
                    continue
                e = json.loads(ln)
                k = e.get("e")
                if k == "begin":
                    reqs, holds, wq, lowered, replaced, served, switched, peak = {}, {}, {}, set(), set(), {}, set(), {}
                elif k == "req":
                    e["done"] = False
                    reqs[e["id"]] = e
                elif k == "ret":
                    r = reqs.get(e["id"])
                    if r and not r["done"] and r["cmd"] == "L":
                        key = (r["db"], r["key"])
                        q = wq.setdefault(key, {})
                        pr = r["rc"] if r["tf"] & 0x10 else 0
                        if not q:
                            peak[key] = 0
                        # the queue was longer than 128 since it was last empty (its older part sits in the inline slice, the
                        # newer part in the plain ring, however many were served since) and now meets another priority
                        if q and peak.get(key, 0) > 128 and len({v for v in q.values()}) == 1 and pr not in q.values():
                            c["priority_switches_after_queue_peaked_over_128"] += 1
                            c["peak_and_live_queue_at_those_switches"].append([peak[key], len(q)])
                            switched.add(key)
                        if len(q) > 128 and len({v for v in q.values()}) == 1 and pr not in q.values():
                            c["priority_switches_on_queue_over_128"] += 1
                            c["queue_sizes_at_priority_switch"].append(len(q))
                            if served.get(key, 0) > 0:
                                c["switch_after_partial_service"] += 1
                            switched.add(key)
                        q[r["id"]] = pr
                        peak[key] = max(peak.get(key, 0), len(q))
                        c["max_queued_on_one_key"] = max(c["max_queued_on_one_key"], len(q))
                elif k == "reply":
                    r = reqs.get(e["rid"])
                    if r is None:
                        continue
                    key = (r["db"], r["key"])
                    H = holds.setdefault(key, [])
                    was_queued = r["id"] in wq.get(key, {})
                    if e["res"] == 9 and r["done"]:
                        holds[key] = [h for h in H if h["lid"] != e["lid"]]
                        continue
                    r["done"] = True
                    wq.get(key, {}).pop(r["id"], None)
                    idx = next((i for i, h in enumerate(H) if h["lid"] == e["lid"]), -1)
                    if r["cmd"] == "L":
                        unl = bool(r["ef"] & 0x4000)
                        fresh = (idx < 0 or was_queued)
                        if fresh and e["res"] in (0, 8) and key in lowered and not was_queued:
                            c["new_requests_answered_after_oldest_count_lowered"] += 1
                            c["of_which_refused"] += e["res"] == 8
                        if e["res"] == 0 and r["ex"] > 0:
                            if fresh:
                                if was_queued:
                                    served[key] = served.get(key, 0) + 1
                                    if key in switched:
                                        c["wake_grants_after_switch_on_big_queue"] += 1
                                H.append({"lid": e["lid"], "cnt": r["cnt"], "rc": r["rc"], "unl": unl, "depth": 1})
                            else:
                                h = H[idx]
                                if h["cnt"] != r["cnt"]:
                                    c["relocks_changing_count"] += 1
                                    if len(H) > 1:
                                        c["of_which_with_other_holders"] += 1
                                        c["of_which_to_count_zero_with_other_holders"] += r["cnt"] == 0
                                    if idx == 0:
                                        replaced.add(key)
                                        c["max_holders_when_oldest_count_replaced"] = max(c["max_holders_when_oldest_count_replaced"], len(H))
                                        if r["cnt"] < h["cnt"]:
                                            lowered.add(key)
                                elif idx > 0 and key in replaced:
                                    c["relocks_by_later_holder_after_oldest_count_replaced"] += 1
                                keep = unl and r["ex"] == 0xffff
                                h.update(cnt=r["cnt"], rc=r["rc"], depth=h["depth"] + 1, unl=h["unl"] if keep else unl)
                        elif e["res"] == 5 and r["flag"] & 2 and idx >= 0:
                            h = H[idx]
                            keep = unl and r["ex"] == 0xffff
                            changed = h["cnt"] != r["cnt"] or h["rc"] != r["rc"]
                            if changed and r["flag"] & 1:
                                c["show_update_changing_terms"] += 1
                            if changed and keep:
                                c["keep_deadline_updates_changing_terms"] += 1
                            elif changed and unl and h["unl"]:
                                c["updates_changing_only_terms_of_unlimited_hold"] += 1
                                c["of_which_by_oldest_holder"] += idx == 0
                                c["of_which_lower_count"] += r["cnt"] < h["cnt"]
                            elif h["cnt"] != r["cnt"] and not unl and not h["unl"]:
                                c["updates_changing_count_of_timed_hold"] += 1
                            if idx == 0 and h["cnt"] != r["cnt"]:
                                replaced.add(key)
                                c["max_holders_when_oldest_count_replaced"] = max(c["max_holders_when_oldest_count_replaced"], len(H))
                                if r["cnt"] < h["cnt"]:
                                    lowered.add(key)
                            elif idx > 0 and key in replaced:
                                c["relocks_by_later_holder_after_oldest_count_replaced"] += 1
                            h.update(cnt=r["cnt"], rc=r["rc"], unl=h["unl"] if keep else unl)
                    else:
                        own = next((i for i, h in enumerate(H) if h["lid"] == r["lid"]), -1)
                        if own > 0 and key in replaced and not e.get("drain"):
                            c["unlocks_by_later_holder_after_oldest_count_replaced"] += 1
                            c["of_which_oldest_count_zero"] += H[0]["cnt"] == 0
                        if e["res"] == 0 and idx >= 0:
                            h = H[idx]
                            rc = r["rc"] if e["lid"] == r["lid"] else e["rc"]
                            if h["depth"] > 1 and rc > 0 and e["lrc"] == h["depth"] - 1:
                                h["depth"] -= 1
                            else:
                                H.pop(idx)
                                if idx == 0:
                                    lowered.discard(key); replaced.discard(key)
    c["queue_sizes_at_priority_switch"] = sorted(c["queue_sizes_at_priority_switch"])[:40]
    c["peak_and_live_queue_at_those_switches"] = sorted(c["peak_and_live_queue_at_those_switches"])[:40]
    return c

# what each property's own addition has to reach in every run (a run that does not is not evidence: exit 2)
REACH = {"C01": ["of_which_by_oldest_holder", "new_requests_answered_after_oldest_count_lowered"],
         "C02": ["of_which_to_count_zero_with_other_holders", "unlocks_by_later_holder_after_oldest_count_replaced"],
         "C04": ["priority_switches_after_queue_peaked_over_128", "wake_grants_after_switch_on_big_queue"]}

# ------------------------------------------------------------------ the check

# properties that promise an ANSWER or an eventual effect (a reply, a wake-up, a timer firing, reclamation): a server that
# dies of a panic in its own code breaks them; for the pure safety properties (C01, C02) a dead driver decides nothing
CRASH_BREAKS = {"C03", "C04", "C05", "C06", "C10", "C17"}

def died(prop, out, binp, testname, fin, fout, p, wd, eng):
    """a driver process died: the histories it finished are still validated; the death itself is a verdict only when it is
    a panic of the code under test that the history in flight reproduces alone (engine.crash_verdict)"""
    cv = engine.crash_verdict(prop, binp, testname, fin, fout, p, os.path.join(wd, "crash")) if prop in CRASH_BREAKS else None
    if cv is None:
        raise InfraError(f"engine {eng} died on {fin}:\n" + (p.stdout or "")[-3000:] + (p.stderr or "")[-2000:])
    out.viols.append(cv)
    engine.drop_unfinished(fout)

def run(prop, tier, seed):
    out = checklib.Outcome()
    wd = vbuild.scratch(f"vf_{prop}_")
    try:
        quick = tier == "quick"
        t0 = time.time()
        # (1) exhaustive design check
        mc = MC_CFG % {"maxreq": 3 if quick else 4, "maxnow": 3 if quick else 4, "lag": "FALSE", "roles": '"leader"', "mrc": 0, "aofdelay": 100,
                       "lockflags": '"show", "update", "showupdate", "conc", "prio"'}
        r = vtlc.run_tlc(os.path.join(VERIF, "spec"), "LockEngine", mc, os.path.join(wd, "mc"), workers=engine.NCPU,
                         timeout=900 if quick else 3600)
        st = vtlc.parse_stats(r["out"])
        if st is None or "No error has been found" not in r["out"]:
            raise InfraError("LockEngine exhaustive check did not complete cleanly (design model, not a verdict on the code):\n" + r["out"][-3000:])
        mc_wall = r["wall"]
        # (1a) C01: the lock-free key table (GetOrNewLockManager / RemoveLockManager / re-check), one step per atomic access
        keytable = None
        if prop == "C01":
            with open(os.path.join(VERIF, "spec", "mc", "KeyTable_3p.cfg")) as fh:
                ktcfg = fh.read()
            if quick:
                ktcfg = ktcfg.replace("MaxOps = 3", "MaxOps = 2")
            rk = vtlc.run_tlc(os.path.join(VERIF, "spec"), "KeyTable", ktcfg, os.path.join(wd, "mc_keytable"), workers=engine.NCPU, timeout=900 if quick else 3600)
            sk = vtlc.parse_stats(rk["out"])
            if sk is None or "No error has been found" not in rk["out"]:
                raise InfraError("KeyTable exhaustive check did not complete cleanly (design model, not a verdict on the code):\n" + rk["out"][-3000:])
            keytable = {"module": "spec/KeyTable.tla", "processes": 2, "requests_each": 2 if quick else 3, "distinct_states": sk["distinct"],
                        "generated": sk["generated"], "wall_s": round(rk["wall"], 1),
                        "invariants": ["NoHoldInDeadManager", "OneManagerPerHeldKey", "RefsCoverHolds", "MutexOK"]}
            st = {"distinct": st["distinct"] + sk["distinct"], "generated": st["generated"] + sk["generated"], "queue": 0}
        # (1a') C01: the unlimited-expiry flag family and updates that change only the terms (UpdateSetsTerms), plus the
        #       vacuity guard: with the named deviation UnlEqualSkipsCounts (seed class C01e) TLC must refute it
        unlmodel = None
        if prop == "C01":
            with open(os.path.join(VERIF, "spec", "mc", "LockEngine_unl.cfg")) as fh:
                ucfg = fh.read()
            if not quick:
                ucfg = ucfg.replace("MaxReq = 3", "MaxReq = 4")
            ru = vtlc.run_tlc(os.path.join(VERIF, "spec"), "LockEngine", ucfg, os.path.join(wd, "mc_unl"), workers=engine.NCPU, timeout=600 if quick else 3600)
            su = vtlc.parse_stats(ru["out"])
            if su is None or "No error has been found" not in ru["out"]:
                raise InfraError("LockEngine (unlimited flag family) exhaustive check did not complete cleanly (design model, not a verdict on the code):\n" + ru["out"][-3000:])
            with open(os.path.join(VERIF, "spec", "mc", "LockEngine_unl_dev.cfg")) as fh:
                dcfg = fh.read()
            rd = vtlc.run_tlc(os.path.join(VERIF, "spec"), "LockEngine", dcfg, os.path.join(wd, "mc_unl_dev"), workers=engine.NCPU, timeout=300)
            if "Action property ActionProps is violated" not in rd["out"]:
                raise InfraError("vacuity guard failed: with the deviation UnlEqualSkipsCounts the model still satisfies UpdateSetsTerms:\n" + rd["out"][-2000:])
            unlmodel = {"module": "spec/LockEngine.tla", "config": "spec/mc/LockEngine_unl.cfg", "requests": 3 if quick else 4,
                        "distinct_states": su["distinct"], "generated": su["generated"], "wall_s": round(ru["wall"], 1),
                        "action_property": "UpdateSetsTerms", "deviation_UnlEqualSkipsCounts_refuted": True, "deviation_wall_s": round(rd["wall"], 1)}
            st = {"distinct": st["distinct"] + su["distinct"], "generated": st["generated"] + su["generated"], "queue": 0}
        # (1b) C05 / C06: the timer wheel design model (back-off re-checks, long-table hand-over, sweeper lag, updates)
        wheel = None
        if prop in ("C05", "C06"):
            wheel = {"module": "spec/TimerWheel.tla", "configs": {}}
            for cfgname in ("TimerWheel_one", "TimerWheel_upd"):
                with open(os.path.join(VERIF, "spec", "mc", cfgname + ".cfg")) as fh:
                    cfgtxt = fh.read()
                rw = vtlc.run_tlc(os.path.join(VERIF, "spec"), "TimerWheel", cfgtxt, os.path.join(wd, "mc_" + cfgname), workers=engine.NCPU, timeout=600)
                sw = vtlc.parse_stats(rw["out"])
                if sw is None or "No error has been found" not in rw["out"]:
                    raise InfraError("TimerWheel exhaustive check did not complete cleanly (design model, not a verdict on the code):\n" + rw["out"][-3000:])
                wheel["configs"][cfgname] = {"distinct_states": sw["distinct"], "generated": sw["generated"], "wall_s": round(rw["wall"], 1)}
                st = {"distinct": st["distinct"] + sw["distinct"], "generated": st["generated"] + sw["generated"], "queue": 0}
        # (2) behaviours
        nb = 150 if quick else 3000
        with open(os.path.join(VERIF, "spec", "sim", "LockEngine_sim.cfg")) as fh:
            simcfg = fh.read()
        # (2b) "terms" walks: the holders come back with other Count / Rcount values (turn classes relock / newcomer / hunlock);
        #      generated at the same time as the plain walks (two single-worker TLC processes)
        nbt = 80 if quick else 1500
        with open(os.path.join(VERIF, "spec", "sim", "LockEngine_sim_terms.cfg")) as fh:
            tsimcfg = fh.read()
        import concurrent.futures as _cf
        with _cf.ThreadPoolExecutor(max_workers=2) as _ex:
            f1 = _ex.submit(vtlc.run_tlc, os.path.join(VERIF, "spec"), "LockEngineSim", simcfg, os.path.join(wd, "sim"), workers=1, timeout=600,
                            simulate=f"num={nb}", depth=120, seed=seed)
            f2 = _ex.submit(vtlc.run_tlc, os.path.join(VERIF, "spec"), "LockEngineSim", tsimcfg, os.path.join(wd, "simterms"), workers=1, timeout=600,
                            simulate=f"num={nbt}", depth=120, seed=seed)
            rs, rt_ = f1.result(), f2.result()
        if "Error:" in rs["out"] and "BEHAVIOUR" not in rs["out"]:
            raise InfraError("behaviour generation failed:\n" + rs["out"][-2000:])
        beh, nprinted = behaviours_to_scenarios(rs["out"].splitlines(), seed, nb)
        if len(beh) < 10:
            raise InfraError("behaviour generation produced too few behaviours")
        if "Error:" in rt_["out"] and "BEHAVIOUR" not in rt_["out"]:
            raise InfraError("behaviour generation (terms walks) failed:\n" + rt_["out"][-2000:])
        behterms, nprinted_t = behaviours_to_scenarios(rt_["out"].splitlines(), seed, nbt, tag="tlcterms")
        if len(behterms) < 10:
            raise InfraError("behaviour generation (terms walks) produced too few behaviours")
        beh = beh + behterms
        # (3) wide-range + directed
        nr = 180 if quick else 4000
        rnd = [gen_core.gen_scenario(seed, i) for i in range(nr)]
        terms = [gen_core.gen_terms(seed, i) for i in range(36 if quick else 900)]     # Count / Rcount changing between the requests of one LockId
        rnd += terms
        big = [gen_core.gen_big(seed, i) for i in range(24 if quick else 240)]
        big += [gen_core.gen_edge(seed, i) for i in range(16 if quick else 160)]       # boundary values of the request fields
        bigq = [gen_core.gen_bigq(seed, i) for i in range(5 if quick else 60)]         # priority switch on a wait queue that outgrew its inline part
        bigq += gen_core.bigq_directed()
        big += bigq
        direct = directed_scenarios()
        scs = beh + rnd + big + direct
        binp = vbuild.build_inpkg("server", wd)
        res = engine.run_harness(binp, "TestVerifS", scs, os.path.join(wd, "run"))
        traces = []
        for fin, fout, p in res:
            if p is not None:
                died(prop, out, binp, "TestVerifS", fin, fout, p, wd, "S")
            traces.append(fout)
        # (3b) engine C: gated concurrent schedules (client requests racing each other and the sweepers)
        nc = 200 if quick else 4000
        conc = [gen_conc.gen_conc(seed, i) for i in range(nc)]
        conc += [gen_conc.gen_conc_free(seed, i) for i in range(40 if quick else 600)]
        conc += [gen_conc.gen_conc_recycle(seed, i) for i in range(120 if quick else 1500)]   # a request parked while its key manager is freed and reused     # ungated bursts: first requests of databases / keys
        # schedules generated by TLC from the fine-atomicity spec (one step = one critical section)
        with open(os.path.join(VERIF, "spec", "sim", "LockEngineFine_sim.cfg")) as fh:
            fsimcfg = fh.read()
        nfb = 150 if quick else 2500
        rf = vtlc.run_tlc(os.path.join(VERIF, "spec"), "LockEngineFineSim", fsimcfg, os.path.join(wd, "fsim"), workers=1, timeout=600,
                          simulate=f"num={nfb}", depth=90, seed=seed)
        fine, nfine = fine_behaviours_to_scenarios(rf["out"].splitlines(), seed, nfb)
        if len(fine) < 10:
            raise InfraError("fine-atomicity behaviour generation produced too few behaviours:\n" + rf["out"][-1500:])
        conc += fine
        with open(os.path.join(VERIF, "scenarios", "conc_directed.json")) as fh:
            conc += json.load(fh)
        resc = engine.run_harness(binp, "TestVerifC", conc, os.path.join(wd, "runc"), tag="c")
        for fin, fout, p in resc:
            if p is not None:
                died(prop, out, binp, "TestVerifC", fin, fout, p, wd, "C")
            traces.append(fout)
        scs = scs + conc
        # (3c) engine RT: millisecond timers on the real clock with the server's own sweepers (C05 / C06 / C03)
        rt = []
        if prop in ("C03", "C05", "C06"):
            rt = [gen_rt.gen_rt(seed, i) for i in range(48 if quick else 480) if i % 4 != 3]
            resr = engine.run_harness(binp, "TestVerifRT", rt, os.path.join(wd, "runrt"), tag="rt", nshards=min(len(rt), 48))
            for fin, fout, p in resr:
                if p is not None:
                    died(prop, out, binp, "TestVerifRT", fin, fout, p, wd, "RT")
                traces.append(fout)
            scs = scs + rt
        # (4) monitors
        viols, mst = engine.monitor_traces("MonLock", traces, [prop], os.path.join(wd, "mon"))
        byname = {sc["name"]: sc for sc in scs}
        for v in viols:
            if v["prop"] == prop:
                out.viols.append((v, byname.get(v.get("name"))))
        # (4b) what the additions reached on the real code (measured); a run in which the property's own addition reached
        #      nothing is not evidence
        tcov = terms_coverage([fout for fin, fout, p in res])
        for kq in REACH.get(prop, []):
            if not tcov[kq]:
                raise InfraError(f"the generated histories did not reach '{kq}' (generator problem, not a verdict)")
        # (5) self-test
        stest = selftest(prop, traces, wd)
        if stest["rejected"] is False:
            raise InfraError(f"self-test failed: the monitor accepted a corrupted trace ({stest['corruption']})")
        # (5) C03 on real text / binary protocol objects (engine W): reply streams stay aligned with the requests
        realproto = None
        if prop == "C03":
            from checks import sessfam
            realproto = sessfam.run_c03_part(out, tier, seed, wd)
        samples = []
        for sc in (beh[:1] + rnd[:1] + behterms[:1] + terms[:1]):
            samples.append({"name": sc["name"], "steps": sc["steps"][:12]})
        out.coverage = {
            "states": st["distinct"], "transitions": st["generated"], "traces_validated_against_impl": len(scs),
            "samples": samples, "exhaustive": True,
            "model": {"module": "spec/LockEngine.tla", "constants": "1 key, 3 LockIds, Count {0,1}, Rcount {0,1}, T {0,2}, E {0,2}, flags show/update/showupdate/conc/prio, unlock first/cancel, <= %d requests, clock <= %d" % ((3, 3) if quick else (4, 4)),
                      "invariants": ["HoldersWellFormed", "OneTerminalReply", "QueuedMeansLive", "NoLostWakeup", "WaitedFlagInv", "QueueOrderInv", "GrantOK", "RefusedUnlockChangesNothing", "NoEarlyTimeout"],
                      "wall_s": round(mc_wall, 1)},
            "timer_wheel_model": wheel, "key_table_model": keytable, "unlimited_flag_model": unlmodel,
            "tlc_behaviours_replayed": len(beh), "tlc_behaviour_prefixes_printed": nprinted,
            "tlc_terms_behaviours_replayed": len(behterms), "terms_histories": len(terms), "big_queue_priority_switch_histories": len(bigq),
            "terms_and_big_queue_coverage": tcov,
            "gated_concurrent_histories": len(conc), "tlc_fine_schedules_replayed": len(fine), "realtime_ms_histories": len(rt), "random_histories": len(rnd), "big_histories": len(big), "directed_histories": len(direct),
            "monitor": {"module": "spec/mon/MonLock.tla", "events": mst["events"], "monitor_states": mst["monitor_states"], "clauses_of": prop},
            "selftest": stest, "real_protocol_connections": realproto,
            "evaluations": len(scs), "distinct_nontrivial": len({json.dumps(s["steps"], sort_keys=True) for s in scs}),
            "rule": "one evaluation = one history replayed on the real code and validated by the TLA+ monitor; distinct = distinct step sequences",
        }
        out.assumptions = [
            "engine S is sequential: one goroutine, virtual clock, sweeps run by the driver (hook H1)",
            "engine C runs requests and sweepers as goroutines gated at the reply callback and the verifPoint hooks; schedules are seeded random (not enumerated); exact-count clauses of C17 are judged on sequential histories only",
            "requests with a LockId that already has a live queued request on the same key are skipped by the driver (finding A12 is explored by a directed history only)",
            "millisecond timers run on the real clock (engine RT): only the lower bound (measured from the send stamp of the request that set the terms; 50 ms tolerance for grants from the queue) and eventual firing are judged, as the statement says",
        ]
        return out
    finally:
        shutil.rmtree(wd, ignore_errors=True)


def replay(prop, path):
    """bin/check Cxx --replay <file>: re-run the stored history on the real code and judge it with the monitor."""
    with open(path) as fh:
        rec = json.load(fh)
    sc = rec.get("replay")
    if not sc:
        print("replay file carries no scenario")
        return 2
    wd = vbuild.scratch(f"vf_replay_{prop}_")
    try:
        binp = vbuild.build_inpkg("server", wd)
        conc = any(st.get("op") in ("par", "fine") for st in sc["steps"])
        rt = sc["name"].startswith("rt-")
        test = "TestVerifRT" if rt else ("TestVerifC" if conc else "TestVerifS")
        res = engine.run_harness(binp, test, [sc], os.path.join(wd, "run"), nshards=1)
        if res[0][2] is not None:
            print("harness died:\n" + res[0][2].stdout[-2000:])
            return 2
        viols, _ = engine.monitor_traces("MonLock", [res[0][1]], [prop], os.path.join(wd, "mon"))
        for v in viols:
            print("VIOLATION property=%s replay=%s" % (prop, path))
            print("  " + json.dumps({k: v[k] for k in v if k != "file"})[:800])
        if not viols:
            print("no violation of %s on this history" % prop)
        return 1 if viols else 0
    finally:
        shutil.rmtree(wd, ignore_errors=True)

"""Extra check (growth of the specification, NOT one of the 20 listed properties): MEMBERSHIP of the replica set
(server/arbiter.go without the vote / proposal / commit election itself, admin.go `replset ...`).

  (1) TLC exhaustive design checks of spec/Membership.tla (spec/mc/Membership_{formed,grow,fixed}.cfg)
  (2) counterexample hunt on the as-coded model: one promise per TLC run (Cex* invariants of Membership_hunt.cfg); the
      printed history is replayed on the REAL code (engine Mb) and judged by the monitor: reproduced = finding
  (3) TLC -simulate behaviours of MembershipSim -> schedules of engine Mb (harness/inpkg/server/zz_verif_member_test.go:
      N real ArbiterManager objects, real listeners, the driver delivers / cuts every announcement, runs the admin
      commands through the real text handler, crashes and restarts members)
  (4) seeded wide-range schedules (the driver's adaptive scheduler) and directed histories (lib/gen_member.py)
  (5) every recorded trace validated by TLC against spec/mon/MonMembership.tla (verdicts); a driver process that died
      inside the code under test is confirmed alone and recorded as a `crashed` event of its history
  (6) binding self-test: recorded snapshots are corrupted and must be rejected

Run through bin/extra:  extra member quick|thorough
"""
import json, os, random, shutil, time, copy, subprocess
import concurrent.futures as cf
import vbuild, vtlc, engine, checklib
import gen_member
from vbuild import VERIF, InfraError

NAME = "member"
PROP = "extra:member"
SPEC = os.path.join(VERIF, "spec")
TEST = "TestVerifMember"
PROPOSED = os.path.join(VERIF, "scenarios", "extra_member_known.proposed.json")

MC = {"quick": [("formed", 4, 240), ("grow", 3, 240)],
      "thorough": [("formed", 4, 600), ("grow", 4, 600), ("fixed", 6, 900)]}
HUNTS = ["CexNoRegress", "CexRestConverged", "CexAckedAtRest", "CexLeaderEligible", "CexNoDirtyRefuse", "CexRemovedQuits", "CexOneLeaderAtRest"]
# promise of the model -> monitor codes that count as "the counterexample reproduces on the real code"
HUNT_CODES = {"CexNoRegress": {"version-regress"}, "CexRestConverged": {"members-not-converged", "no-leader-at-rest"},
              "CexAckedAtRest": {"acked-command-lost"}, "CexLeaderEligible": {"leader-not-eligible"},
              "CexNoDirtyRefuse": {"metafile-differs"}, "CexRemovedQuits": {"removed-member-stays"}, "CexOneLeaderAtRest": {"two-leaders"}}

def read(sub, name):
    with open(os.path.join(SPEC, sub, name)) as fh:
        return fh.read()

# ------------------------------------------------------------------ TLC

def run_mc(name, workers, timeout, wd):
    r = vtlc.run_tlc(SPEC, "Membership", read("mc", f"Membership_{name}.cfg"), os.path.join(wd, "mc_" + name), workers=workers, timeout=timeout, heap="4g")
    st = vtlc.parse_stats(r["out"])
    done = "Model checking completed. No error has been found." in r["out"]
    if r["rc"] == -9:
        return {"config": name, "exhaustive": False, "wall_s": round(r["wall"], 1), "distinct": st["distinct"] if st else 0, "generated": st["generated"] if st else 0}
    if not done:
        raise InfraError(f"the design check Membership_{name} fails on the model (never a verdict; the spec needs attention):\n" + r["out"][-2500:])
    return {"config": name, "exhaustive": True, "wall_s": round(r["wall"], 1), "distinct": st["distinct"], "generated": st["generated"]}

def run_hunt(inv, wd, timeout):
    cfg = read("mc", "Membership_hunt.cfg").replace("@INV@", inv)
    r = vtlc.run_tlc(SPEC, "Membership", cfg, os.path.join(wd, "hunt_" + inv), workers=2, timeout=timeout, heap="3g")
    hist = None
    for line in r["out"].splitlines():
        line = line.strip()
        if line.startswith('"CEX '):
            s = json.loads(line)
            hist = json.loads(s[s.index("["):])
            break
    return {"invariant": inv, "found": hist is not None, "steps": len(hist) if hist else 0, "wall_s": round(r["wall"], 1), "hist": hist}

def run_sim(cfgname, num, depth, seed, wd):
    r = vtlc.run_tlc(SPEC, "MembershipSim", read("sim", cfgname), os.path.join(wd, "sim_" + cfgname), workers=1, timeout=300,
                     simulate=f"num={num}", depth=depth, seed=seed)
    hs, seen = [], set()
    for line in r["out"].splitlines():
        line = line.strip()
        if line.startswith('"BEHAVIOUR '):
            s = json.loads(line)
            body = s[len("BEHAVIOUR "):]
            if body in seen:
                continue
            seen.add(body)
            hs.append(json.loads(body))
    if not hs:
        raise InfraError("MembershipSim printed no behaviour:\n" + r["out"][-1500:])
    return hs

# ------------------------------------------------------------------ engine Mb with resume after a dead driver

def run_shard(binpath, scs, wd, tag, crashes):
    """runs the scenarios of one shard; a driver that dies inside the code under test is confirmed (the scenario alone,
    twice), its history ends with a `crashed` event, the rest of the shard runs in a fresh process"""
    os.makedirs(wd, exist_ok=True)
    trace = os.path.join(wd, f"{tag}_trace.ndjson")
    open(trace, "w").close()
    i, part = 0, 0
    while i < len(scs):
        fin = os.path.join(wd, f"{tag}_in_{part}.ndjson")
        fout = os.path.join(wd, f"{tag}_out_{part}.ndjson")
        with open(fin, "w") as fh:
            for sc in scs[i:]:
                fh.write(json.dumps(sc) + "\n")
        try:
            p = vbuild.run_test(binpath, TEST, {"VERIF_IN": fin, "VERIF_OUT": fout}, cwd=wd, timeout=420)
        except subprocess.TimeoutExpired:
            raise InfraError(f"engine Mb: shard {tag} timed out")
        ok = p.returncode == 0 and "PASS" in p.stdout
        lines = open(fout, errors="replace").read().split("\n") if os.path.exists(fout) else []
        done, cur, good = 0, [], []
        for ln in lines:
            if not ln.strip():
                continue
            try:
                e = json.loads(ln)
            except Exception:
                break
            cur.append(ln)
            if e.get("e") == "end":
                good += cur
                cur = []
                done += 1
        with open(trace, "a") as fh:
            for ln in good:
                fh.write(ln + "\n")
        if ok:
            break
        text = (p.stdout or "") + "\n" + (p.stderr or "")
        c = engine.parse_go_crash(text)
        if i + done >= len(scs) or not c or not c[1] or "zz_verif" in c[1]["at"]:
            k = text.find("panic:")
            raise InfraError(f"engine Mb: driver of shard {tag} died outside the code under test (scenario {scs[min(i + done, len(scs) - 1)]['name']}):\n" + text[max(k, 0):][:700] + "\n...\n" + text[-1200:])
        sc = scs[i + done]
        # confirm: the scenario alone, twice
        same = 0
        for k in range(2):
            d = os.path.join(wd, f"{tag}_crash_{part}_{k}")
            os.makedirs(d, exist_ok=True)
            one = os.path.join(d, "in.ndjson")
            with open(one, "w") as fh:
                fh.write(json.dumps(sc) + "\n")
            q = vbuild.run_test(binpath, TEST, {"VERIF_IN": one, "VERIF_OUT": os.path.join(d, "out.ndjson")}, cwd=d, timeout=300)
            c2 = engine.parse_go_crash((q.stdout or "") + "\n" + (q.stderr or ""))
            if q.returncode != 0 and c2 and c2[1] and c2[1]["func"] == c[1]["func"]:
                same += 1
        crashes.append({"name": sc["name"], "func": c[1]["func"], "at": c[1]["at"], "panic": c[0][:160], "reproduced_alone": same})
        if cur and same >= 1:
            with open(trace, "a") as fh:
                for ln in cur:
                    fh.write(ln + "\n")
                fh.write(json.dumps({"e": "crashed", "name": sc["name"], "panic": c[0][:160], "func": c[1]["func"], "at": c[1]["at"], "alone": same}) + "\n")
                fh.write(json.dumps({"e": "end", "name": sc["name"], "crashed": True}) + "\n")
        i += done + 1
        part += 1
    return trace

def run_engine(binpath, scs, wd, tag):
    shards = engine.shard(scs, engine.NCPU)
    crashes = []
    with cf.ThreadPoolExecutor(max_workers=engine.NCPU) as ex:
        traces = list(ex.map(lambda a: run_shard(binpath, a[1], os.path.join(wd, f"{tag}{a[0]}"), f"{tag}{a[0]}", crashes), enumerate(shards)))
    return traces, crashes

# ------------------------------------------------------------------ self-test

def selftest(traces, wd, viol_names):
    """an accepted history with corrupted snapshot fields must be rejected by the monitor"""
    hist = None
    for strict in (True, False):
      if hist:
          break
      for tr in traces:
        cur = []
        for ln in open(tr):
            e = json.loads(ln)
            if e["e"] == "begin":
                cur = [e]
            elif cur:
                cur.append(e)
                if e["e"] == "end":
                    steps = [x for x in cur if x["e"] == "step"]
                    last = steps[-1]["nodes"] if steps else []
                    if (e["name"] not in viol_names or not strict) and not any(x["e"] in ("crashed", "hung", "stuck") for x in cur) and len(steps) >= 6 and steps[-1]["op"] == "heal" \
                            and all(n.get("up") for n in last) and sum(1 for n in last if n.get("cfg")) >= 2 \
                            and any(n.get("cfg") and n["own"] == n["ldr"] and n["st"] == 1 and len(n["mem"]) >= 2 for n in last):
                        hist = cur
                        break
                    cur = []
        if hist:
            break
    if not hist:
        raise InfraError("self-test: no accepted history to corrupt")
    def cfgd(ev):
        return [k for k, n in enumerate(ev["nodes"]) if n.get("cfg")]
    cases = {}
    # (a) a node's version drops between two steps
    h = copy.deepcopy(hist)
    st = [e for e in h if e["e"] == "step" and e["op"] != "heal"]
    for a, b in zip(st, st[1:]):
        both = [k for k in cfgd(a) if k in cfgd(b)]
        if both and b["op"] != "restart":
            k = both[0]
            b["nodes"][k]["ver"] = a["nodes"][k]["ver"] - 1
            b["nodes"][k]["disk"]["ver"] = b["nodes"][k]["ver"]
            cases["version-lowered"] = (h, "version-regress")
            break
    # (b) meta.pb differs from memory
    h = copy.deepcopy(hist)
    for e in h:
        if e["e"] == "step" and cfgd(e):
            e["nodes"][cfgd(e)[0]]["disk"]["ver"] += 1
            cases["metafile-version-changed"] = (h, "metafile-differs")
            break
    # (c) at rest a member holds another list
    h = copy.deepcopy(hist)
    e = [x for x in h if x["e"] == "step" and x["op"] == "heal"][-1]
    lead = [k for k in cfgd(e) if e["nodes"][k]["own"] == e["nodes"][k]["ldr"] and e["nodes"][k]["st"] == 1][0]
    ks = [k for k in cfgd(e) if k != lead and (k + 1) in [m[0] for m in e["nodes"][lead]["mem"]]]
    if ks:
        nd = e["nodes"][ks[0]]
        nd["mem"][0][1] += 1
        nd["disk"]["mem"][0][1] += 1
        cases["member-weight-changed-at-rest"] = (h, "members-not-converged")
    res = {}
    for name, (h, code) in cases.items():
        f = os.path.join(wd, f"selftest_{name}.ndjson")
        with open(f, "w") as fh:
            for e in h:
                fh.write(json.dumps(e) + "\n")
        viols, _ = engine.monitor_traces("MonMembership", [f], [PROP], os.path.join(wd, "selftest_" + name))
        hit = [v for v in viols if v["code"] == code]
        base = 0
        if hist[-1]["name"] in viol_names:      # no accepted history in this run (a changed tree): the corruption must ADD a rejection
            f0 = os.path.join(wd, f"selftest_{name}_orig.ndjson")
            with open(f0, "w") as fh:
                for e in hist:
                    fh.write(json.dumps(e) + "\n")
            v0, _ = engine.monitor_traces("MonMembership", [f0], [PROP], os.path.join(wd, "selftest0_" + name))
            base = len([v for v in v0 if v["code"] == code])
        res[name] = {"expected": code, "rejected": len(hit) > base, "history_was_accepted": base == 0}
        if len(hit) <= base:
            raise InfraError(f"self-test: corrupted trace ({name}) accepted by the monitor")
    if len(res) < 2:
        raise InfraError("self-test: could not build the corruptions")
    return res

# ------------------------------------------------------------------ run

def load_proposed():
    if not os.path.exists(PROPOSED):
        return []
    already = {k["id"] for k in checklib.load_known() if k["property"] == PROP}
    return [k for k in json.load(open(PROPOSED))["findings"] if k["id"] not in already]

def run(tier, seed):
    out = checklib.Outcome()
    wd = vbuild.scratch("extra_member")
    t0 = time.time()
    try:
        binpath = vbuild.build_inpkg("server", wd)
        quick = tier == "quick"
        # ---- scenarios
        scs = gen_member.directed() + gen_member.seeded(seed, 320 if quick else 1600)
        pool = cf.ThreadPoolExecutor(max_workers=6)
        f_mc = [pool.submit(run_mc, n, w, t, wd) for n, w, t in MC[tier]]
        f_hunt = [pool.submit(run_hunt, inv, wd, 90 if quick else 400) for inv in HUNTS]
        sims = []
        for cfgname, num in (("Membership_sim.cfg", 70 if quick else 300), ("Membership_sim_formed.cfg", 70 if quick else 300)):
            for k, h in enumerate(run_sim(cfgname, num, 80, seed, wd)):
                sc = gen_member.from_behaviour(f"sim-{cfgname[11:-4]}-{seed}-{k}", 3, h)
                if "formed" in cfgname:
                    sc["steps"] = gen_member.grow(3) + sc["steps"]
                sims.append(sc)
        scs += sims
        hunts = [f.result() for f in f_hunt]
        for hres in hunts:
            if hres["found"]:
                sc = gen_member.from_behaviour("cex-" + hres["invariant"], 3, hres["hist"])
                sc["steps"] = gen_member.grow(3) + sc["steps"]
                scs.append(sc)
        random.Random(seed).shuffle(scs)
        traces, crashes = run_engine(binpath, scs, wd, "mb")
        mcs = [f.result() for f in f_mc]
        pool.shutdown()
        if vbuild.repo_clean_guard():
            raise InfraError("the repository under test is not clean after the run: " + vbuild.repo_clean_guard()[:300])
        # ---- verdicts
        viols, mstats = engine.monitor_traces("MonMembership", traces, [PROP], os.path.join(wd, "mon"))
        by_name = {s["name"]: s for s in scs}
        proposed = load_proposed()
        obs = {}
        for v in viols:
            v.pop("file", None)
            v.pop("line", None)
            hit = next((k for k in proposed if checklib._match(k["signature"], v)), None)
            if hit:
                obs.setdefault(hit["id"], [hit, 0, v])[1] += 1
            else:
                out.viols.append((v, by_name.get(v.get("name"))))
        for kid, (k, n, v) in sorted(obs.items()):
            print(f"OBSERVATION extra={NAME} id={kid} (proposed entry, {os.path.relpath(PROPOSED, VERIF)}) count={n} signature={json.dumps(k['signature'], sort_keys=True)}: {k.get('what', '')[:260]}")
        # ---- which counterexamples of the model reproduce on the code
        codes_of = {}
        for v in viols:
            codes_of.setdefault(v.get("name"), set()).add(v["code"])
        for hres in hunts:
            got = codes_of.get("cex-" + hres["invariant"], set())
            hres["codes_on_real_code"] = sorted(got)
            hres["reproduced"] = bool(got & HUNT_CODES[hres["invariant"]])
            hres.pop("hist", None)
        # ---- evidence
        nsteps, ndiv, nhist, ops, calm, notcalm = 0, 0, 0, {}, 0, 0
        for tr in traces:
            for ln in open(tr):
                e = json.loads(ln)
                if e["e"] == "step":
                    nsteps += 1
                    ops[e["op"]] = ops.get(e["op"], 0) + 1
                    if e["op"] == "heal":
                        calm += 1 if e.get("calm") else 0
                        notcalm += 0 if e.get("calm") else 1
                elif e["e"] == "diverge":
                    ndiv += 1
                elif e["e"] == "end":
                    nhist += 1
        st = selftest(traces, wd, {v.get("name") for v in viols})
        bycode = {}
        for v in viols:
            bycode[v["code"]] = bycode.get(v["code"], 0) + 1
        out.coverage = {
            "states": sum(m["distinct"] for m in mcs), "transitions": sum(m["generated"] for m in mcs), "model_configs": mcs,
            "counterexample_hunts": hunts,
            "traces_validated_against_impl": nhist, "steps_judged": nsteps, "steps_by_op": ops, "schedule_steps_not_enabled_on_the_code": ndiv,
            "heals_calm": calm, "heals_not_calm": notcalm,
            "histories": {"directed": len(gen_member.directed()), "seeded": len([s for s in scs if s["name"].startswith("rnd-")]),
                          "simulated": len(sims), "counterexamples": len([s for s in scs if s["name"].startswith("cex-")])},
            "driver_processes_died_in_code_under_test": crashes,
            "monitor": mstats, "violations_by_code": bycode, "proposed_observations": {k: n for k, (_, n, _) in obs.items()},
            "samples": [s["name"] for s in scs[:12]], "evaluations": nsteps, "distinct_nontrivial": nhist,
            "rule": "MonMembership clauses K1 K2 K3 K5 R1 R2 R3 R4 R5 over engine-Mb traces", "selftest": st,
            "wall_s": round(time.time() - t0, 1),
        }
        out.assumptions = ["the election inside a vote step is the real StartVote loop, unmodified (its safety is property C12)",
                           "crashes happen at quiescence only (never inside ArbiterStore.Save)",
                           "all in-process nodes share one data dir for their (empty) append files; meta.pb is per node"]
        return out
    finally:
        if not os.environ.get("VERIF_KEEP"):
            shutil.rmtree(wd, ignore_errors=True)

def replay(path):
    """extra member --replay <file>: run the scenario of a replay file alone and print the monitor's verdicts"""
    doc = json.load(open(path))
    sc = doc.get("replay") or doc
    wd = vbuild.scratch("extra_member_replay")
    try:
        binpath = vbuild.build_inpkg("server", wd)
        traces, crashes = run_engine(binpath, [sc], wd, "rp")
        viols, _ = engine.monitor_traces("MonMembership", traces, [PROP], os.path.join(wd, "mon"))
        for v in viols:
            print("VIOL " + json.dumps({k: v[k] for k in v if k != "file"})[:1200])
        for c in crashes:
            print("CRASH " + json.dumps(c))
        return 1 if viols else 0
    finally:
        shutil.rmtree(wd, ignore_errors=True)

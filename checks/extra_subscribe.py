"""Extra check (growth of the specification, NOT one of the 20 listed properties): the SUBSCRIBE / PUBLISH subsystem.

  (1) TLC exhaustive design checks of spec/Subscribe.tla (aspect configs spec/mc/Subscribe_*.cfg), plus the regression
      counterexamples of the named deviations (an invariant that must FAIL on the model of the code as it is)
  (2) TLC -simulate behaviours of SubscribeSim (driver atomicity) -> scenarios -> the REAL subsystem (engine "Sub",
      harness/inpkg/server/zz_verif_sub_test.go); after every step the real state (in-package snapshot + frames read
      on every connection) is compared with the projection of the model state (refinement, never a verdict)
  (3) seeded random histories (timers, value data, several masks, re-attach, slow readers, overflow, role change),
      directed histories and "storms" (concurrent pushers) on the real subsystem
  (4) every recorded trace validated by TLC against the trace specification spec/mon/MonSubscribe.tla  (verdicts)
  (5) binding self-test: recorded traces are corrupted (frame key, duplicated frame, dropped frame) and must be rejected

Run through bin/extra:  extra subscribe quick|thorough
"""
import json, os, random, shutil, time, copy, hashlib, re
import concurrent.futures as cf
import vbuild, vtlc, engine, checklib
from vbuild import VERIF, InfraError

NAME = "subscribe"
KNOWN_PROP = "extra:subscribe"          # `property` of entries in known_findings.json that turn a violation into an OBSERVATION
SPEC = os.path.join(VERIF, "spec")

PUSH = 0x20

# aspect configs: (name, workers, timeout)
MC = {
    "quick": [("wake_q", 3, 420), ("shutdown", 2, 300)],
    "thorough": [("wake", 4, 1800), ("wake_fixed", 3, 1200), ("reattach", 4, 2400), ("overflow", 3, 1800), ("order", 4, 2400), ("two", 4, 2400), ("shutdown", 2, 900)],
}
# deviations of the code: (id, config, invariant that must be violated on the model of the code as it is)
DEVIATIONS = {
    "quick": [("D4/D5", "wake_q", "NoStuckFrames"), ("D1", "reattach", "NoD1")],
    "thorough": [("D4/D5", "wake_q", "NoStuckFrames"), ("D6", "wake_q", "NoD6"), ("D1", "reattach", "NoD1"), ("D3", "reattach", "NoD3"),
                 ("D7", "shutdown", "FlushedMeansEmpty")],
}

def read_cfg(sub, name):
    with open(os.path.join(SPEC, sub, name)) as fh:
        return fh.read()

# ------------------------------------------------------------------ (1) model checking

import threading
_TLC_SLOTS = threading.Semaphore(3)

def run_mc(name, workers, timeout, wd):
    with _TLC_SLOTS:
        return _run_mc(name, workers, timeout, wd)

def _run_mc(name, workers, timeout, wd):
    cfg = read_cfg("mc", f"Subscribe_{name}.cfg")
    r = vtlc.run_tlc(SPEC, "Subscribe", cfg, os.path.join(wd, "mc_" + name), workers=workers, timeout=timeout, heap="4g")
    st = vtlc.parse_stats(r["out"])
    done = "Model checking completed. No error has been found." in r["out"]
    if r["rc"] == -9 or (not done and "is violated" not in r["out"] and "was violated" not in r["out"]):
        return {"config": name, "exhaustive": False, "wall_s": round(r["wall"], 1), "generated": st["generated"] if st else 0,
                "distinct": st["distinct"] if st else 0, "note": "did not finish within its budget"}
    if not done:
        raise InfraError(f"the design check Subscribe_{name} fails on the model (a TLC counterexample on a model is never a verdict; the spec needs attention):\n" + r["out"][-2500:])
    return {"config": name, "exhaustive": True, "wall_s": round(r["wall"], 1), "generated": st["generated"], "distinct": st["distinct"]}

def run_deviation(did, name, inv, wd):
    with _TLC_SLOTS:
        return _run_deviation(did, name, inv, wd)

def _run_deviation(did, name, inv, wd):
    cfg = read_cfg("mc", f"Subscribe_{name}.cfg")
    cfg = re.sub(r"^INVARIANTS.*$", "INVARIANTS " + inv, cfg, flags=re.M)
    cfg = re.sub(r"^PROPERTY.*$", "", cfg, flags=re.M).replace("SPECIFICATION FairSpec", "SPECIFICATION Spec")
    r = vtlc.run_tlc(SPEC, "Subscribe", cfg, os.path.join(wd, f"dev_{name}_{inv}"), workers=2, timeout=600, heap="3g")
    hit = f"Invariant {inv} is violated" in r["out"]
    depth = len(re.findall(r"^State \d+: <", r["out"], flags=re.M))
    if not hit:
        raise InfraError(f"deviation {did}: invariant {inv} is expected to FAIL on the model of the code as it is (config {name}) but TLC did not refute it:\n" + r["out"][-1500:])
    return {"deviation": did, "config": name, "invariant": inv, "refuted": True, "counterexample_states": depth, "wall_s": round(r["wall"], 1)}

# ------------------------------------------------------------------ (2) behaviours of the model -> scenarios

def sim_behaviours(n, seed, wd, timeout):
    cfg = read_cfg("sim", "Subscribe_sim.cfg")
    r = vtlc.run_tlc(SPEC, "SubscribeSim", cfg, os.path.join(wd, "sim"), workers=1, timeout=timeout, simulate=f"num={n}", depth=4000, seed=seed)
    if r["rc"] == -9:
        raise InfraError("TLC -simulate of SubscribeSim timed out")
    if "is violated" in r["out"] or "Error:" in r["out"] and "BEHAVIOUR" not in r["out"]:
        raise InfraError("TLC -simulate of SubscribeSim reports an error:\n" + r["out"][-2500:])
    hs = {}
    for ln in r["out"].splitlines():
        ln = ln.strip()
        if ln.startswith('"BEHAVIOUR '):
            try:
                b = json.loads(json.loads(ln)[10:])
            except Exception:
                continue
            hs[json.dumps(b["hist"], sort_keys=True)] = b
    return [hs[k] for k in sorted(hs)]

def _fn(x):
    """a TLA+ function over integers printed by ToJson: list (domain 1..n) or object"""
    if isinstance(x, list):
        return {i + 1: v for i, v in enumerate(x)}
    return {int(k): v for k, v in x.items()}

def behaviour_to_scenario(b, idx, seed, rng):
    mode = "T" if rng.random() < 0.6 else "E0"      # how an event of the model is realised on the lock engine
    keys = sorted({h["k"] for h in b["hist"] if h["a"] == "ev"})
    steps = [{"op": "conn", "c": c} for c in (1, 2, 3)]
    if mode == "T":
        for k in keys:      # a holder without push flags: every later lock with Timeout 0 is refused at once (TIMEOUT)
            steps.append({"op": "lock", "conn": 101, "key": k % 16, "klo": k // 16, "lid": 900 + k, "to": 0, "ex": 600})
    nsetup = len(steps)
    created = 0
    pres = b["pre"] + [b["final"]]
    for i, h in enumerate(b["hist"]):
        a = h["a"]
        if a == "sub":
            reg = set(_fn(pres[i]["subs"]).keys())
            st = {"op": "sub", "c": h["c"], "cid": h["cid"], "typ": h["typ"], "mh": h["m"] % 16, "ml": h["m"] // 16, "sex": h["ex"], "smax": h["max"] * 64}
            if h["sid"] > 0:
                st["ref"] = f"m{h['sid']}"
            if h["sid"] == 0 or h["sid"] not in reg:
                # a new subscriber, unless the id exists under another client id (refused) - the model tells
                post = set(_fn(pres[i + 1]["subs"]).keys())
                created += 1
                st["label"] = f"m{created}"
            steps.append(st)
        elif a == "ev":
            if mode == "T":
                steps.append({"op": "lock", "conn": 100, "key": h["k"] % 16, "klo": h["k"] // 16, "lid": 1000 + h["pid"], "to": 0, "ex": 5, "tf": PUSH})
            else:
                steps.append({"op": "lock", "conn": 100, "key": h["k"] % 16, "klo": h["k"] // 16, "lid": 1000 + h["pid"], "to": 0, "ex": 0, "ef": PUSH})
        elif a == "gate":
            steps.append({"op": "gate", "c": h["c"], "open": h["open"]})
        elif a == "permit":
            steps.append({"op": "permit", "c": h["c"], "n": 1})
        elif a == "cclose":
            steps.append({"op": "cclose", "c": h["c"]})
        elif a == "tick":
            steps.append({"op": "sleep", "ms": 3300})
        else:
            raise InfraError("unknown model action " + a)
    return {"name": f"tlc-{seed}-{idx}", "shards": 2, "steps": steps, "complete": True, "nodata": True,
            "_model": {"pre": pres, "nsetup": nsetup, "mode": mode}}

def _split(fr):
    """what one connection read, as the sequence of results and one sequence of publish ids per subscriber: writers of
    different subscribers that share a connection take turns in an order the scheduler decides"""
    res = [f for f in fr if f[0] == "res"]
    per = {}
    for f in fr:
        if f[0] == "pub":
            per.setdefault(f[1], []).append(f[2])
    return res, per

def compare_with_model(sc, evs):
    """evs: events of the recorded history.  Returns a list of divergences (strings); [] = the real subsystem did,
    step by step, what the model says."""
    mdl = sc["_model"]
    snaps, recv, sidmap, out = [], {}, {}, []
    nsteps = 0
    cur = {1: [], 2: [], 3: []}
    for e in evs:
        if e["e"] == "subres":
            if e["res"] == 0 and e["sid"] not in sidmap:
                sidmap[e["sid"]] = len(sidmap) + 1
            cur.setdefault(e["c"], []).append(("res", e["res"] == 0, sidmap.get(e["sid"], 0) if e["res"] == 0 else None))
        elif e["e"] == "pub":
            cur.setdefault(e["c"], []).append(("pub", sidmap.get(e["sid"], -1), e["lid"] - 1000))
        elif e["e"] == "ssnap":
            snaps.append((e, {c: list(v) for c, v in cur.items()}))
    snaps = snaps[mdl["nsetup"]:]
    pres = mdl["pre"]
    for k in range(min(len(snaps), len(pres) - 1)):
        real, frames = snaps[k]
        want = pres[k + 1]
        wsubs = {s: v for s, v in _fn(want["subs"]).items() if not v["closed"]}
        rsubs = {sidmap.get(s["sid"], -s["sid"]): s for s in real["subs"] if not s["closed"]}
        if set(wsubs) != set(rsubs):
            out.append(f"step {k}: subscribers model {sorted(wsubs)} real {sorted(rsubs)}")
            break
        shared = {}
        for s, w in wsubs.items():
            shared[w["conn"]] = shared.get(w["conn"], 0) + 1
        gatedc = {c["c"] for c in real["conns"] if c["gated"]}
        if any(n > 1 and c in gatedc for c, n in shared.items()):
            continue
        for s, w in wsubs.items():
            r = rsubs[s]
            rm = sorted(m[0] + 16 * m[1] for m in r["masks"])
            if sorted(w["masks"]) != rm or (w["conn"] or -1) != r["conn"] and not (w["conn"] == 0 and r["conn"] == -1) or w["pend"] * 64 != r["pend"]:
                out.append(f"step {k}: subscriber {s} model masks={sorted(w['masks'])} conn={w['conn']} pend={w['pend']} real masks={rm} conn={r['conn']} pend={r['pend'] // 64}")
        wrecv = _fn(want["recv"])
        for c in (1, 2, 3):
            wl = [("res", f["ok"], f["sid"] if f["ok"] else None) if f["t"] == "res" else ("pub", f["sid"], f["pid"]) for f in wrecv.get(c, [])]
            if _split(wl) != _split(frames.get(c, [])):
                out.append(f"step {k}: connection {c} model read {wl} real read {frames.get(c, [])}")
        if out:
            break
    return out

# ------------------------------------------------------------------ (3) seeded random histories

VALS = ["0400000000007631", "05000000000076616c", "040000000000ffee"]      # SET value frames: length (4, = 2 + payload), stage/type 0 = SET, flag 0, payload

def random_history(rng, name):
    shards = rng.choice([1, 1, 2, 3, 4])
    nodata = rng.random() < 0.6
    steps, lid = [], [1000]
    def nl():
        lid[0] += 1
        return lid[0]
    keyspace = [(1, 0), (2, 0), (3, 0), (4, 0), (8, 0), (12, 0), (0, 1), (0, 2), (1, 2), (5, 4), (0, 0), (255, 0), (256, 0)]
    maskspace = [(1, 0), (2, 0), (3, 0), (4, 0), (12, 0), (0, 1), (0, 3), (15, 15), (65535, 65535), (256, 0)]
    subs = {}        # label -> dict(c, cid, masks:set, ex, max, alive)
    conns_dead = set()
    gated = set()
    nlabel = [0]
    held = {}        # key -> lid of a long holder (so that later locks queue / time out)
    def lockstep(**kw):
        st = {"op": "lock", "conn": 100 + rng.randrange(3)}
        st.update(kw)
        return st
    def push_events(n):
        for _ in range(n):
            k = rng.choice(keyspace)
            r = rng.random()
            if k in held:
                if r < 0.5:      # refused at once: TIMEOUT
                    steps.append(lockstep(key=k[0], klo=k[1], lid=nl(), to=0, ex=5, tf=PUSH))
                elif r < 0.8:    # queued, times out at the sweep
                    steps.append(lockstep(key=k[0], klo=k[1], lid=nl(), to=rng.choice([1, 2, 3]), ex=5, tf=PUSH, ef=PUSH))
                    if rng.random() < 0.6:
                        steps.append({"op": "tick", "n": rng.choice([2, 4, 5])})
                else:            # the holder goes: the queued / next request is granted
                    steps.append({"op": "unlock", "conn": 100, "key": k[0], "klo": k[1], "lid": held.pop(k)})
            else:
                if r < 0.35:     # zero expiry: granted and expired at once (MAY publish)
                    steps.append(lockstep(key=k[0], klo=k[1], lid=nl(), to=0, ex=0, ef=PUSH))
                elif r < 0.7:    # short hold that expires at the sweep: EXPRIED
                    st = lockstep(key=k[0], klo=k[1], lid=nl(), to=0, ex=rng.choice([1, 2, 3]), ef=PUSH)
                    if not nodata and rng.random() < 0.5:
                        st["data"] = rng.choice(VALS)
                    steps.append(st)
                    if rng.random() < 0.7:
                        steps.append({"op": "tick", "n": rng.choice([2, 4, 5])})
                elif r < 0.85:   # long holder without push flags
                    l = nl()
                    steps.append(lockstep(key=k[0], klo=k[1], lid=l, to=0, ex=300))
                    held[k] = l
                else:            # a hold that expires WITHOUT the flag: no event
                    steps.append(lockstep(key=k[0], klo=k[1], lid=nl(), to=0, ex=1))
                    steps.append({"op": "tick", "n": 3})
    nconn = 0
    for phase in range(rng.randrange(4, 10)):
        r = rng.random()
        live = [l for l, s in subs.items() if s["alive"] and s["c"] not in conns_dead]
        if r < 0.30 or not subs:
            nconn += 1
            c = nconn if rng.random() < 0.7 or not live else subs[rng.choice(live)]["c"]
            if c in conns_dead or c in gated:
                nconn += 1
                c = nconn
            nlabel[0] += 1
            lb = f"s{nlabel[0]}"
            m = rng.choice(maskspace)
            ex = rng.choice([0, 0, 30, 30, 1])
            mx = rng.choice([0, 0, 0, 4096, 8192, 12288, 100])
            steps.append({"op": "sub", "c": c, "cid": 10 + c % 3, "typ": 0, "mh": m[0], "ml": m[1], "sex": ex, "smax": mx, "label": lb})
            subs[lb] = {"c": c, "cid": 10 + c % 3, "masks": {m}, "ex": ex, "max": mx, "alive": True}
        elif r < 0.42 and live:       # another mask
            lb = rng.choice(live)
            s = subs[lb]
            m = rng.choice(maskspace)
            steps.append({"op": "sub", "c": s["c"], "cid": s["cid"], "ref": lb, "typ": 0, "mh": m[0], "ml": m[1], "sex": s["ex"], "smax": s["max"]})
            s["masks"].add(m)
        elif r < 0.54 and live:       # remove a mask (the last one closes the subscriber and its connection)
            lb = rng.choice(live)
            s = subs[lb]
            if s["c"] not in gated:
                m = rng.choice(sorted(s["masks"])) if rng.random() < 0.8 else rng.choice(maskspace)
                steps.append({"op": "sub", "c": s["c"], "cid": s["cid"], "ref": lb, "typ": 1, "mh": m[0], "ml": m[1]})
                s["masks"].discard(m)
                if not s["masks"]:
                    s["alive"] = False
                    conns_dead.add(s["c"])
        elif r < 0.62 and live:       # wrong client id / unknown id
            lb = rng.choice(live)
            s = subs[lb]
            nconn += 1
            if rng.random() < 0.5:
                steps.append({"op": "sub", "c": nconn, "cid": 99, "ref": lb, "typ": rng.choice([0, 1]), "mh": 1, "ml": 0})
            else:
                steps.append({"op": "sub", "c": nconn, "cid": 98, "sid": 555000 + nconn, "typ": 1, "mh": 1, "ml": 0})
                conns_dead.add(nconn)
        elif r < 0.74 and live:       # the connection is lost; later (maybe) the subscriber is re-attached from a new one
            lb = rng.choice(live)
            s = subs[lb]
            if s["c"] in gated:
                continue
            steps.append({"op": "cclose", "c": s["c"]})
            conns_dead.add(s["c"])
            for o in subs.values():
                if o["c"] == s["c"] and o["ex"] == 0:
                    o["alive"] = False
            if s["ex"] > 0:
                push_events(rng.randrange(0, 4))
                if s["ex"] == 1 and rng.random() < 0.5:
                    steps.append({"op": "sleep", "ms": 3300})
                    s["alive"] = False
                if rng.random() < 0.8:
                    nconn += 1
                    m = sorted(s["masks"])[0] if s["masks"] else (1, 0)
                    for o in subs.values():
                        if o["c"] == s["c"] and o is not s:
                            o["alive"] = o["alive"] and False
                    steps.append({"op": "sub", "c": nconn, "cid": s["cid"], "ref": lb, "typ": 0, "mh": m[0], "ml": m[1], "sex": s["ex"], "smax": s["max"]})
                    s["c"] = nconn
                    s["alive"] = True
        elif r < 0.84 and live:       # a slow reader
            lb = rng.choice(live)
            s = subs[lb]
            c = s["c"]
            if c in gated:
                steps.append({"op": "gate", "c": c, "open": True})
                gated.discard(c)
            else:
                steps.append({"op": "gate", "c": c, "open": False})
                gated.add(c)
                big = s["max"] > 0 and rng.random() < 0.6
                if big:      # fill it up
                    k = rng.choice([kk for kk in keyspace if kk != (0, 0)])
                    for _ in range(rng.choice([70, 140, 200])):
                        steps.append({"op": "lock", "conn": 100, "key": k[0], "klo": k[1], "lid": nl(), "to": 0, "ex": 0, "ef": PUSH})
                else:
                    push_events(rng.randrange(1, 6))
                for _ in range(rng.randrange(0, 3)):
                    steps.append({"op": "permit", "c": c, "n": 1})
                if rng.random() < 0.8:
                    steps.append({"op": "gate", "c": c, "open": True})
                    gated.discard(c)
        elif r < 0.88:                # the node leaves the leader role for a while: nothing is published
            steps.append({"op": "status", "status": 2})
            push_events(rng.randrange(1, 3))
            steps.append({"op": "status", "status": 1})
        elif r < 0.93 and live:       # lock traffic through a subscriber connection (replies and PUBLISH frames share the stream)
            lb = rng.choice(live)
            c = subs[lb]["c"]
            if c not in gated:
                k = rng.choice(keyspace)
                steps.append({"op": "lock", "via": c, "conn": c, "key": k[0], "klo": k[1], "lid": nl(), "to": 0, "ex": 0, "ef": PUSH})
        push_events(rng.randrange(1, 6))
    for c in sorted(gated):
        steps.append({"op": "gate", "c": c, "open": True})
    steps.append({"op": "tick", "n": 6})
    return {"name": name, "shards": shards, "steps": steps, "complete": True, "nodata": nodata}

def ev0(i, key=1):
    return {"op": "lock", "conn": 100, "key": key, "lid": 1000 + i, "to": 0, "ex": 0, "ef": PUSH}
def evT(i, key=1):
    return {"op": "lock", "conn": 100, "key": key, "lid": 1000 + i, "to": 0, "ex": 5, "tf": PUSH}
HOLD1 = {"op": "lock", "conn": 101, "key": 1, "lid": 901, "to": 0, "ex": 600}

def directed_scenarios():
    scs = []
    sub = lambda **kw: dict({"op": "sub", "c": 1, "cid": 7, "typ": 0, "mh": 3, "ml": 0, "sex": 0, "smax": 0}, **kw)
    # re-attach, then the write to the OLD connection fails (deviation D1 a)
    scs.append({"name": "dir-reattach-then-old-write-fails", "shards": 1, "steps": [HOLD1, sub(sex=30, label="a"), {"op": "gate", "c": 1, "open": False}, evT(1),
               sub(c=2, ref="a", sex=30), evT(2), {"op": "cclose", "c": 1}, evT(3), {"op": "settle"}]})
    # connection lost while a write is pending, grace period 30 s (deviation D1 b)
    scs.append({"name": "dir-loss-with-pending-write", "shards": 1, "steps": [HOLD1, sub(sex=30, label="a"), {"op": "gate", "c": 1, "open": False}, evT(1), {"op": "cclose", "c": 1},
               evT(2), sub(c=2, ref="a", sex=30, label="b"), evT(3)]})
    # clean loss, events buffered, re-attach delivers them
    scs.append({"name": "dir-clean-loss-reattach", "shards": 1, "steps": [HOLD1, sub(sex=30, label="a"), evT(1), {"op": "cclose", "c": 1}, evT(2), evT(3),
               sub(c=2, ref="a", sex=30), evT(4)]})
    # expiry of a detached subscriber
    scs.append({"name": "dir-expire", "shards": 1, "steps": [HOLD1, sub(sex=1, label="a"), evT(1), {"op": "cclose", "c": 1}, evT(2), {"op": "sleep", "ms": 3300}, evT(3),
               sub(c=2, ref="a", sex=1, label="b"), evT(4)]})
    # ids: wrong client id, unsubscribe of an unknown id
    scs.append({"name": "dir-ids", "shards": 1, "steps": [HOLD1, sub(label="a"), sub(c=2, cid=8, ref="a"), sub(c=2, cid=8, sid=777, typ=1), evT(1)]})
    # overflow with a blocked reader; the rule counts allocated blocks
    scs.append({"name": "dir-overflow", "shards": 1, "steps": [sub(smax=4096, label="a"), {"op": "gate", "c": 1, "open": False}] + [ev0(i) for i in range(70)] + [{"op": "gate", "c": 1, "open": True}]})
    scs.append({"name": "dir-overflow-8192", "shards": 1, "steps": [sub(smax=8192, label="a"), {"op": "gate", "c": 1, "open": False}] + [ev0(i) for i in range(130)] + [{"op": "gate", "c": 1, "open": True}]})
    scs.append({"name": "dir-block-granularity", "shards": 1, "steps": [sub(smax=4096, label="a"), {"op": "gate", "c": 1, "open": False}] + [ev0(i) for i in range(63)] +
               [{"op": "permit", "c": 1, "n": 1}, ev0(63), {"op": "permit", "c": 1, "n": 1}, ev0(64), ev0(65), {"op": "gate", "c": 1, "open": True}]})
    # masks: both halves, the all-zero key, all-ones mask
    scs.append({"name": "dir-masks", "shards": 2, "steps": [sub(mh=0, ml=2, label="a"), sub(c=2, cid=8, mh=65535, ml=65535, label="b"),
               {"op": "lock", "conn": 100, "key": 0, "klo": 2, "lid": 1001, "to": 0, "ex": 1, "ef": PUSH}, {"op": "lock", "conn": 100, "key": 2, "klo": 0, "lid": 1002, "to": 0, "ex": 1, "ef": PUSH},
               {"op": "lock", "conn": 100, "key": 0, "klo": 0, "lid": 1003, "to": 0, "ex": 1, "ef": PUSH}, {"op": "lock", "conn": 100, "key": 5, "klo": 6, "lid": 1004, "to": 0, "ex": 1, "ef": PUSH},
               {"op": "tick", "n": 4}]})
    # two subscribers share a connection; one unsubscribes its last mask: the server closes the connection, the other dies with it
    scs.append({"name": "dir-shared-connection-unsubscribe", "shards": 1, "steps": [HOLD1, sub(mh=1, label="a"), sub(mh=2, label="b"), evT(1), sub(ref="a", typ=1, mh=1),
               {"op": "lock", "conn": 100, "key": 2, "lid": 1002, "to": 0, "ex": 0, "ef": PUSH}]})
    # shutdown while the write of a re-attached subscriber is still held by its previous connection
    scs.append({"name": "dir-shutdown-write-on-previous-connection", "shards": 1, "steps": [HOLD1, sub(sex=30, label="a"), {"op": "gate", "c": 1, "open": False}, evT(1),
               sub(c=2, ref="a", sex=30)]})
    for s in scs:
        s.update({"complete": True, "nodata": True})
    return scs

def storm_scenarios(rng, n, storms):
    scs = []
    for i in range(n):
        st = [{"op": "sub", "c": 1, "cid": 7, "typ": 0, "mh": 15, "ml": 0, "sex": 0, "smax": 0, "label": "a"}]
        if rng.random() < 0.5:
            st.append({"op": "sub", "c": 2, "cid": 8, "typ": 0, "mh": 15, "ml": 0, "sex": 0, "smax": 0, "label": "b"})
        for _ in range(storms):
            st.append({"op": "storm", "n": rng.choice([2, 3, 4, 6]), "cnt": rng.randint(3, 60)})
        scs.append({"name": f"storm-{i}", "shards": 4, "steps": st, "complete": True, "nodata": True, "lazy": True})
    return scs

# ------------------------------------------------------------------ running the real subsystem

def strip(sc):
    return {k: v for k, v in sc.items() if not k.startswith("_")}

def run_real(binp, scs, wd, tag, timeout):
    """-> {name: [events]}; scenarios of a shard that stopped early (watchdog) are run again in a fresh process"""
    todo = list(scs)
    got = {}
    for rnd in range(12):
        if not todo:
            break
        res = engine.run_harness(binp, "TestVerifSub", [strip(s) for s in todo], os.path.join(wd, f"{tag}_r{rnd}"), tag=tag, timeout=timeout,
                                 extra_env={"VERIF_STEP_DEADLINE": "10"})
        for fin, fout, p in res:
            if p is not None:
                cv = engine.parse_go_crash((p.stdout or "") + "\n" + (p.stderr or ""))
                if cv and cv[1] and "zz_verif" not in cv[1]["at"]:
                    # the code under test killed the process: keep what was recorded, mark the history in flight
                    engine.drop_unfinished(fout)
                    got.setdefault("_crashes", []).append({"panic": cv[0][:200], "func": cv[1]["func"], "at": cv[1]["at"], "file": fout})
                else:
                    raise InfraError(f"harness process failed ({fin}):\n" + ((p.stdout or "")[-1500:] + (p.stderr or "")[-1500:]))
            cur, name = [], None
            if os.path.exists(fout):
                for ln in open(fout, errors="replace"):
                    try:
                        e = json.loads(ln)
                    except Exception:
                        continue
                    if e["e"] == "begin":
                        cur, name = [], e["name"]
                    cur.append(e)
                    if e["e"] == "end" and name:
                        got[name] = cur
                        cur, name = [], None
        done = set(got)
        left = [s for s in todo if s["name"] not in done]
        if len(left) == len(todo):
            break
        todo = left
    if todo:
        raise InfraError(f"{len(todo)} histories were never recorded (first: {todo[0]['name']})")
    return got

def write_traces(traces, wd, tag, nfiles):
    """concatenate histories into a few files (one JVM start each); history index -> name map for the VIOL records"""
    names = sorted(n for n in traces if not n.startswith("_"))
    files, idx = [], {}
    per = max(1, (len(names) + nfiles - 1) // nfiles)
    for f in range(0, len(names), per):
        path = os.path.join(wd, f"{tag}_mon_{f // per}.ndjson")
        with open(path, "w") as fh:
            for k, n in enumerate(names[f:f + per]):
                for e in traces[n]:
                    if e["e"] in ("begin", "end"):
                        e = dict(e, idx=f + k)
                    fh.write(json.dumps(e) + "\n")
                idx[f + k] = n
        files.append(path)
    return files, idx

# ------------------------------------------------------------------ (5) self-test

def selftest(traces, wd, rejected=()):
    """corrupt ONE recorded item of an accepted history in three ways; each must be rejected by the trace specification"""
    cand = None
    for n in sorted(traces):
        if n.startswith("_") or n.startswith("storm") or n in rejected:
            continue
        evs = traces[n]
        pubs = [i for i, e in enumerate(evs) if e["e"] == "pub"]
        # a frame of a MUST event (TIMEOUT of a recorded request) read on an open, ungated connection
        good = [i for i in pubs if evs[i]["res"] == 8]
        if good and not any(e["e"] in ("gate", "cclose", "hold") for e in evs):
            cand = (n, evs, good[0])
            break
    if cand is None:
        raise InfraError("self-test: no recorded history with a TIMEOUT frame on an undisturbed connection")
    n, evs, i = cand
    variants = []
    a = copy.deepcopy(evs); a[i]["key"] = a[i]["key"] + 64; variants.append(("key of one frame changed", a, {"frame-for-no-event", "event-not-matching", "event-not-delivered"}))
    b = copy.deepcopy(evs); b.insert(i + 1, dict(b[i])); variants.append(("one frame duplicated", b, {"event-delivered-twice", "channel-order-broken"}))
    c = copy.deepcopy(evs); del c[i]; variants.append(("one frame dropped", c, {"event-not-delivered"}))
    d = copy.deepcopy(evs); d[i]["sid"] = d[i]["sid"] + 1000; variants.append(("subscriber id of one frame changed", d, {"event-not-matching", "frame-on-foreign-connection", "event-not-delivered"}))
    files = []
    for k, (what, t, _) in enumerate(variants):
        p = os.path.join(wd, f"selftest_{k}.ndjson")
        with open(p, "w") as fh:
            for e in t:
                fh.write(json.dumps(e) + "\n")
        files.append(p)
    base = os.path.join(wd, "selftest_base.ndjson")
    with open(base, "w") as fh:
        for e in evs:
            fh.write(json.dumps(e) + "\n")
    viols, _ = engine.monitor_traces("MonSubscribe", [base] + files, ["SUB"], os.path.join(wd, "selftest_tlc"))
    byf = {}
    for v in viols:
        byf.setdefault(v["file"], set()).add(v["code"])
    if byf.get(base):
        raise InfraError(f"self-test: the uncorrupted history {n} is rejected: {byf[base]}")
    res = []
    for (what, _, want), p in zip(variants, files):
        codes = byf.get(p, set())
        if not codes & want:
            raise InfraError(f"self-test: corrupted history ({what}) was ACCEPTED by the trace specification (codes {codes})")
        res.append({"corruption": what, "history": n, "rejected_with": sorted(codes)})
    return res

# ------------------------------------------------------------------ the check

def run(tier, seed):
    out = checklib.Outcome()
    rng = random.Random(seed * 7919 + 17)
    wd = vbuild.scratch("vf_xsub_")
    cov = {"rule": "TLC trace specification MonSubscribe over recorded behaviour of the real SubscribeManager / Subscriber / SubscribeChannel objects"}
    try:
        quick = tier != "thorough"
        n_sim, n_rand, n_storm, storms = (120, 120, 4, 50) if quick else (800, 1200, 16, 100)
        binp = vbuild.build_inpkg("server", wd)
        with cf.ThreadPoolExecutor(max_workers=8) as ex:
            # (1) model checking runs in the background while the real code is exercised
            mc_f = [ex.submit(run_mc, n, w, t, wd) for (n, w, t) in MC[tier if tier in MC else "quick"]]
            dev_f = [ex.submit(run_deviation, d, n, inv, wd) for (d, n, inv) in DEVIATIONS[tier if tier in DEVIATIONS else "quick"]]
            # (2)
            behs = sim_behaviours(int(n_sim * 1.6), seed, wd, 900 if quick else 3600)
            rng.shuffle(behs)
            behs = behs[:n_sim]
            sim_scs = [behaviour_to_scenario(b, i, seed, rng) for i, b in enumerate(behs)]
            # (3)
            rand_scs = [random_history(random.Random(seed * 1000003 + i), f"rnd-{seed}-{i}") for i in range(n_rand)]
            dir_scs = directed_scenarios()
            storm_scs = storm_scenarios(rng, n_storm, storms)
            allscs = sim_scs + rand_scs + dir_scs + storm_scs
            byname = {s["name"]: s for s in allscs}
            t0 = time.time()
            traces = run_real(binp, allscs, wd, "sub", 1500 if quick else 5400)
            cov["harness_wall_s"] = round(time.time() - t0, 1)
            crashes = traces.pop("_crashes", [])
            # (4)
            t0 = time.time()
            files, idx = write_traces(traces, wd, "sub", engine.NCPU)
            viols, mst = engine.monitor_traces("MonSubscribe", files, ["SUB"], os.path.join(wd, "mon"), timeout=1500 if quick else 5400)
            cov["monitor_wall_s"] = round(time.time() - t0, 1)
            for v in viols:
                v["prop"] = KNOWN_PROP
                nm = v.get("name")
                v.pop("file", None); v.pop("line", None); v.pop("trace", None)
                out.viols.append((v, strip(byname[nm]) if nm in byname else None))
            for c in crashes:
                out.viols.append(({"prop": KNOWN_PROP, "code": "subsystem-panicked", "detail": c}, None))
            # refinement: the real subsystem against the model, step by step
            div = []
            for s in sim_scs:
                d = compare_with_model(s, traces[s["name"]])
                if d:
                    div.append({"history": s["name"], "first": d[0][:400]})
            # (5)
            try:
                st = selftest(traces, wd, {v.get("name") for v, _ in out.viols})
            except InfraError as ex:
                # a tree that delivers (almost) nothing leaves no accepted history to corrupt: the violations stand on their own
                if out.viols and "no recorded history" in str(ex):
                    st = [{"skipped": str(ex)}]
                else:
                    raise
            mcs = [f.result() for f in mc_f]
            devs = [f.result() for f in dev_f]
        npub = sum(1 for n in traces for e in traces[n] if e["e"] == "pub")
        nev = {"TIMEOUT": 0, "EXPRIED": 0}
        for n in traces:
            for e in traces[n]:
                if e["e"] == "pub":
                    nev["TIMEOUT" if e["res"] == 8 else "EXPRIED"] += 1
        shapes = set()
        for n in traces:
            if n.startswith("storm"):
                continue
            shapes.add(tuple(e["e"] + (str(e.get("typ", "")) if e["e"] == "sub" else "") for e in traces[n] if e["e"] in ("sub", "cclose", "gate", "permit", "sclosed", "status", "slept")))
        cov.update({
            "states": sum(m["distinct"] for m in mcs), "transitions": sum(m["generated"] for m in mcs), "model_checks": mcs,
            "deviation_counterexamples": devs,
            "traces_validated_against_impl": len(traces), "evaluations": mst["events"], "monitor_states": mst["monitor_states"],
            "behaviours_from_model": len(sim_scs), "random_histories": len(rand_scs), "directed_histories": len(dir_scs), "storm_histories": len(storm_scs),
            "publish_frames_judged": npub, "frames_by_result": nev, "distinct_nontrivial": len(shapes),
            "refinement_divergences": len(div), "refinement_divergence_samples": div[:5],
            "samples": [{"history": s["name"], "steps": [x for x in strip(s)["steps"][:14]]} for s in (sim_scs[:1] + rand_scs[:1] + dir_scs[:1])],
            "selftest": st,
        })
        out.assumptions = [
            "events are produced by real LockDB.Lock / UnLock calls and sweeps on a virtual lock clock; the subscribe subsystem itself runs on the wall clock (Expried, timers)",
            "subscriber connections are real BinaryServerProtocol objects served by Server.handle over a harness net.Conn (gate = slow reader, client close = EOF + write error)",
            "the follower side (SubscribeClient re-publishing the leader's events) is specified as an event source only and not bound to the code",
            "a zero-expiry grant MAY publish (agnostic); order is judged in single-shard worlds only; overflow is judged with two blocks of slack",
        ]
        out.coverage = cov
        return out
    finally:
        if not os.environ.get("VERIF_KEEP"):
            shutil.rmtree(wd, ignore_errors=True)

def replay(path):
    """run the scenario stored in a replay file alone and print what the trace specification says"""
    with open(path) as fh:
        rp = json.load(fh)
    sc = rp["replay"]
    wd = vbuild.scratch("vf_xsubr_")
    try:
        binp = vbuild.build_inpkg("server", wd)
        tr = run_real(binp, [sc], wd, "rp", 600)
        tr.pop("_crashes", None)
        files, _ = write_traces(tr, wd, "rp", 1)
        viols, _ = engine.monitor_traces("MonSubscribe", files, ["SUB"], os.path.join(wd, "mon"))
        for v in viols:
            print(json.dumps({k: v[k] for k in v if k not in ("file",)})[:900])
        return 1 if viols else 0
    finally:
        shutil.rmtree(wd, ignore_errors=True)

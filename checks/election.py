"""Check C12 (election safety: one winner, newest log, numbers never regress) - engines E and P.

  (1) TLC exhaustive design checks of spec/Election.tla with the switch values of the code as it is today
      (CmpFixed, PidFixed, HostFixed TRUE after the repairs 9de8629 / 11f419c / a3a0796; PersistFixed FALSE):
      the schedule space of 3 members x 2 simultaneous candidates with any subset of messages lost, two candidacies
      per candidate, and the configuration space (weights, arbiters, log positions) - invariants OneWinner,
      ChoiceOK, NewerRefuses, NoRegress and the action property Monotone (no restart: see (2))
  (2) TLC counterexample hunts on that model for the open finding A7 (acceptor restart); every counterexample is
      REPLAYED on the real code - only the replay counts (KNOWN-FINDING A7).  A hunt that finds nothing is fine.
  (3) TLC -simulate behaviours (3..5 members, 2..3 candidates, 2 rounds, losses, restarts) replayed step by step
      into the real ArbiterManager / ArbiterVoter objects; the outcome the spec predicts for every step travels
      with the step and is compared with what the real code did (refinement)
  (4) seeded wide-range histories (real 64-bit log positions incl. wrap-around) by the bench's own adaptive
      scheduler + fixed scripts (scenarios/election_directed.json): directed histories and the REGRESSION
      histories reg-A21/A22/A23 - the counterexamples that exposed the repaired defects; the monitor must now
      accept them, a VIOLATION if a defect returns
  (5) every recorded trace is judged by TLC against the property monitor spec/mon/MonElection.tla
  (6) binding self-tests: recorded fields of an accepted trace are corrupted and must be rejected
  (7) engine P: a real 3-process cluster (loopback), quorum-acknowledged locks, kill -9 of the leader at a seeded
      moment, INFO of the survivors watched until a leader emerges, the locks probed on it; plus the directed
      "stale follower" variant (regression for A21); the observations are judged by the same TLA+ monitor
  (8) thorough tier: more position families / two candidates, and the proposed repair of A7 (PersistFixed) checked
      exhaustively with a restart
  (9) the refusal "my log is newer" must COUNT (switch RejectVetoes of the model, monitor clause (e)): exhaustive runs
      over configurations whose election majority need not contain the newest data member (3 members with an arbiter /
      a newest member of weight 0; 3 data members + 2 arbiters); TLC must REFUTE NewestWins on the deviation
      RejectVetoes = FALSE and the refuting histories are replayed on the real objects (which must not follow them);
      generators sim3h / sim4h / sim5h and the "veto" flavour of the wide-range histories lose the fresher member's
      vote-round messages and deliver its proposal-round messages
"""
import json, os, random, shutil, time, concurrent.futures as cf
import vbuild, vtlc, engine, checklib, electp
from vbuild import VERIF, InfraError

PROPS = ["C12"]

MANIFEST = {
    "C12": dict(
        level="model_checking", design="5/C12", engine="E",
        technique="TLC-exhaustive election spec + TLC behaviours/counterexamples replayed message by message into real ArbiterManager/ArbiterVoter objects, traces judged by a TLA+ monitor",
        text="TLC enumerates every delivery order and every subset of lost vote/proposal/commit messages for 2 simultaneous candidates in a 3-member cluster "
             "(and the weight/arbiter/log-position configurations) on an implementation-shaped spec of arbiter.go; TLC-generated behaviours for 3..5 members, "
             "2..3 candidates, restarts from meta.pb and wrap-around log positions are replayed step by step into the real handlers and the real candidate code, "
             "and every recorded trace is validated by TLC against a monitor that states the property over observable events only.",
        note="trusted: TLC, the bench wiring (harness net.Conn capturing real client frames, handlers called directly, quiescence by goroutine count); "
             "the candidate's own member is served at phase start (no gate inside DoRequests); announcements, offline events and a leader being online are "
             "outside the quantifier and not injected; the three phases are called by the driver with the StartVote loop guard re-evaluated by the driver; "
             "the real 3-process kill -9 part is a handful of seeded runs (exploration, not enumeration)"),
}

# ------------------------------------------------------------------ positions: scaled model -> real

def f32(k):
    """Scaled 4-bit component -> real 32-bit component; preserves every comparison CompareAofId makes
    (a - b >= 7  <=>  f(a) - f(b) >= 0x7fffffff, equality included)."""
    if k <= 6:
        return k
    if k <= 13:
        return 0x7fffffff + (k - 7)
    return 0xfffffffe + (k - 14)

def real_pos(p):
    return {"idx": f32(p["idx"]), "off": f32(p["off"]), "ct": p["ct"] * 1000}

def hist_to_scenario(hist, name, rounds, epilogue=False):
    cfg = hist[0]["exp"]
    n = len(cfg["w"])
    members = [{"w": cfg["w"][i], "arb": cfg["arb"][i], "aof": real_pos(cfg["aof"][i]), "c0": cfg["c0"][i]} for i in range(n)]
    steps, cands = [], set()
    for h in hist[1:]:
        if h["c"]:
            cands.add(h["c"])
        steps.append({"op": h["op"], "c": h["c"], "m": h["m"], "exp": h["exp"]})
    sc = {"name": name, "members": members, "cands": sorted(cands), "rounds": rounds, "steps": steps}
    if epilogue:     # a candidacy the real code left half-way where the behaviour ends is run to its end (engine E)
        sc["epilogue"] = True
    return sc

def parse_hists(out, tag):
    """hist values printed by TLC under `tag` ("BEHAVIOUR" / "CEX <name>"); maximal ones only."""
    hs = set()
    for ln in out.splitlines():
        ln = ln.strip()
        if ln.startswith('"' + tag + " "):
            try:
                s = json.loads(ln)
                hs.add(s[s.index("["):])
            except Exception:
                pass
    hists = sorted(hs)
    keep = []
    for i, h in enumerate(hists):
        core = h[:-1]
        if i + 1 < len(hists) and hists[i + 1].startswith(core + ","):
            continue
        keep.append(json.loads(h))
    return keep, len(hists)

# ------------------------------------------------------------------ TLC configurations

# switch values that describe the code as it is today: (CmpFixed, PersistFixed, PidFixed, HostFixed)
CODE = (True, False, True, True)
ALLFIXED = (True, True, True, True)

def cfg_text(n, cands, cfgs, rounds, restarts, lose, invs, props=(), view=True, fixed=None, sim=False, hunt=False, veto=True, gates=None):
    """veto = value of RejectVetoes (TRUE is the code); gates = (LoseOK override, RestartOK override or None)."""
    fixed = CODE if fixed is None else fixed
    t = ["SPECIFICATION Spec", "CONSTANTS", f"  N = {n}", "  Cands = {%s}" % ", ".join(map(str, cands)), f"  Cfgs <- {cfgs}",
         f"  MaxRounds = {rounds}", f"  MaxRestarts = {restarts}", f"  Lose = {'TRUE' if lose else 'FALSE'}",
         f"  CmpFixed = {'TRUE' if fixed[0] else 'FALSE'}", f"  PersistFixed = {'TRUE' if fixed[1] else 'FALSE'}",
         f"  PidFixed = {'TRUE' if fixed[2] else 'FALSE'}", f"  HostFixed = {'TRUE' if len(fixed) > 3 and fixed[3] else 'FALSE'}",
         f"  RejectVetoes = {'TRUE' if veto else 'FALSE'}"]
    if sim:
        t += ["  LoseOK <- SimLoseOK", "  RestartOK <- SimRestartOK"]
    if hunt:
        t += ["  LoseOK <- HuntLoseOK"]
    if gates:
        t += [f"  LoseOK <- {gates[0]}"] + ([f"  RestartOK <- {gates[1]}"] if len(gates) > 1 and gates[1] else [])
    if view:
        t.append("VIEW view_")
    if invs:
        t.append("INVARIANTS " + " ".join(invs))
    for p in props:
        t.append("PROPERTY " + p)
    t.append("CHECK_DEADLOCK FALSE")
    return "\n".join(t) + "\n"

SPECDIR = os.path.join(VERIF, "spec")

def tlc(name, cfg, wd, workers, timeout, **kw):
    kw.setdefault("heap", "3g")
    r = vtlc.run_tlc(SPECDIR, "ElectionMC", cfg, os.path.join(wd, name), workers=workers, timeout=timeout, **kw)
    r["name"] = name
    return r

def must_complete(r, what):
    st = vtlc.parse_stats(r["out"])
    if r["rc"] == -9:
        raise InfraError(f"TLC timed out on {what}")
    if st is None or "No error has been found" not in r["out"]:
        raise InfraError(f"{what}: TLC did not complete cleanly (design model, not a verdict on the code):\n" + r["out"][-3000:])
    return st

# ------------------------------------------------------------------ wide-range scenarios (bench's own scheduler)

def wide_pos(rng, base):
    k = rng.randrange(8)
    if k == 0:
        return dict(base)
    if k == 1:
        return {"idx": base["idx"], "off": base["off"] + rng.randrange(1, 50), "ct": base["ct"] + 5}
    if k == 2:    # next file, small offset: index says newer, offset says older
        return {"idx": (base["idx"] % 0xffffffff) + 1, "off": rng.randrange(0, 3), "ct": base["ct"] + 9}
    if k == 3:    # same id, later command time
        return {"idx": base["idx"], "off": base["off"], "ct": base["ct"] + rng.randrange(1, 1000)}
    if k == 4:    # far behind across the index wrap
        return {"idx": (base["idx"] - rng.randrange(1, 5)) % (1 << 32) or 0xffffffff, "off": rng.randrange(0, 1 << 20), "ct": base["ct"] - 1 if base["ct"] else 0}
    if k == 5:
        return {"idx": 0, "off": 0, "ct": 0}
    if k == 6:
        return {"idx": base["idx"], "off": max(0, base["off"] - rng.randrange(1, 40)), "ct": max(0, base["ct"] - 3)}
    return {"idx": rng.randrange(1, 1 << 32), "off": rng.randrange(0, 1 << 32), "ct": rng.randrange(0, 1 << 62)}

def gen_wide(seed, i):
    rng = random.Random(seed * 1000003 + i)
    n = rng.choice([3, 3, 4, 5, 5])
    base = rng.choice([{"idx": 1, "off": 40, "ct": 1000}, {"idx": 0xffffffff, "off": 1 << 20, "ct": 77}, {"idx": 2, "off": 0, "ct": 5},
                       {"idx": 0x80000000, "off": 123456, "ct": 1 << 40}])
    members = []
    narb = 0
    for j in range(n):
        arb = 1 if (rng.random() < 0.2 and narb < n // 2) else 0
        narb += arb
        members.append({"w": rng.choice([0, 1, 1, 1, 2, 3]), "arb": arb, "aof": wide_pos(rng, base), "c0": rng.choice([0, 0, 0, 1, 3])})
    if all(m["w"] == 0 or m["arb"] for m in members):
        members[0]["w"], members[0]["arb"] = 1, 0
    ncand = rng.choice([2, 2, 3]) if n > 3 else rng.choice([2, 3])
    cands = sorted(rng.sample(range(1, n + 1), ncand))
    return {"name": f"wide-{seed}-{i}", "members": members, "cands": cands, "rounds": rng.choice([1, 2, 3]), "steps": [],
            "rand": {"seed": seed * 7919 + i, "maxsteps": 600, "plose": rng.choice([0.0, 0.1, 0.25, 0.4]),
                     "prestart": rng.choice([0.0, 0.0, 0.02, 0.05]), "maxrestarts": rng.choice([0, 1, 2, 3])}}

def gen_veto(seed, i):
    """Wide-range history of the "veto" flavour: a cluster whose election majority need not contain the newest data
    member (arbiters, a newest member of weight 0), real 64-bit positions that differ in file index against offset,
    the fresher member's vote-round messages mostly lost (rand.phide) and its proposal-round messages delivered."""
    rng = random.Random(seed * 1000003 + i * 31 + 17)
    base = rng.choice([{"idx": 5, "off": 4000, "ct": 8000}, {"idx": 0xffffffff, "off": 1 << 20, "ct": 77}, {"idx": 2, "off": 900, "ct": 5},
                       {"idx": 0x7ffffffe, "off": 123456, "ct": 1 << 40}, {"idx": 1, "off": 40, "ct": 1000}])
    def ahead(p):
        k = rng.randrange(4)
        if k == 0:    # next file, small offset: the index says newer, the offset says older (A21)
            return {"idx": (p["idx"] + 1) % (1 << 32), "off": rng.randrange(0, 30), "ct": p["ct"] + 9}
        if k == 1:    # same file, further
            return {"idx": p["idx"], "off": p["off"] + rng.randrange(1, 500), "ct": p["ct"] + 3}
        if k == 2:    # several files ahead (across the wrap when the base sits there)
            return {"idx": (p["idx"] + rng.randrange(2, 6)) % (1 << 32), "off": rng.randrange(0, 1 << 16), "ct": p["ct"] + 50}
        return {"idx": p["idx"], "off": p["off"], "ct": p["ct"] + rng.randrange(1, 1000)}    # same id, later command time
    kind = rng.choice(["arb5", "arb5", "arb3", "w0", "w0cand", "arb4"])
    if kind == "arb5":
        roles = ["d", "d", "d", "a", "a"]
    elif kind == "arb3":
        roles = ["d", "d", "a"]
    elif kind == "arb4":
        roles = ["d", "d", "d0", "a"]
    else:
        roles = ["d"] * rng.choice([3, 3, 4, 5])
    rng.shuffle(roles)
    data = [j for j, r in enumerate(roles) if r != "a"]
    fresh = rng.choice(data)                       # the newest data member
    if kind in ("w0", "w0cand"):
        roles[fresh] = "d0"                        # ... has weight 0: never proposed, always refuses
    elif kind == "arb4":
        fresh = roles.index("d0")
    newest = ahead(base)
    members = []
    for j, r in enumerate(roles):
        if r == "a":
            members.append({"w": rng.choice([0, 1, 1]), "arb": 1, "aof": {"idx": 0, "off": 0, "ct": 0}, "c0": rng.choice([0, 0, 1])})
        else:
            pos = newest if j == fresh else (dict(base) if rng.random() < 0.7 else rng.choice([dict(base), newest]))
            members.append({"w": 0 if r == "d0" else rng.choice([1, 1, 2, 3]), "arb": 0, "aof": pos, "c0": rng.choice([0, 0, 0, 2])})
    stale = [j + 1 for j in data if j != fresh]
    if kind == "w0cand":
        cands = sorted({fresh + 1, rng.choice(stale)})
    else:
        cands = sorted(set(rng.sample(stale, min(len(stale), rng.choice([1, 1, 2]))) + ([rng.choice([j + 1 for j, r in enumerate(roles) if r == "a"])] if "a" in roles and rng.random() < 0.3 else [])))
    return {"name": f"veto-{seed}-{i}", "members": members, "cands": cands, "rounds": rng.choice([1, 2, 2]), "steps": [],
            "rand": {"seed": seed * 104729 + i, "maxsteps": 600, "plose": rng.choice([0.0, 0.0, 0.05, 0.15]),
                     "phide": rng.choice([0.6, 0.8, 1.0]), "prestart": rng.choice([0.0, 0.0, 0.02]), "maxrestarts": rng.choice([0, 0, 1])}}

def directed_scenarios():
    with open(os.path.join(VERIF, "scenarios", "election_directed.json")) as fh:
        return json.load(fh)

# ------------------------------------------------------------------ monitor

MON_CFG = '''SPECIFICATION Spec
CONSTANTS
  TraceFile = "%s"
  Props = {"C12"}
POSTCONDITION TraceConsumed
CHECK_DEADLOCK FALSE
'''

def monitor(traces, wd, timeout=900):
    """Validate trace files with MonElection.  Returns (viols, diverges, stats)."""
    mondir = os.path.join(VERIF, "spec", "mon")
    def one(arg):
        i, tr = arg
        return tr, vtlc.run_tlc([mondir], "MonElection", MON_CFG % tr, os.path.join(wd, f"tlc_mon_{i}"), workers=1, timeout=timeout)
    viols, divs = [], []
    stats = {"events": 0, "monitor_states": 0, "agnostic_choices": 0, "refusal_rounds": 0, "refusal_with_accept_majority": 0,
             "wins_judged": 0, "wins_all_data_heard": 0}
    with cf.ThreadPoolExecutor(max_workers=engine.NCPU) as ex:
        for tr, r in ex.map(one, list(enumerate(traces))):
            out = r["out"]
            st = vtlc.parse_stats(out)
            if r["rc"] == -9:
                raise InfraError(f"TLC timed out on {tr}")
            if "No error has been found" not in out or st is None:
                raise InfraError(f"TLC did not accept the trace file {tr} completely (monitor/infra problem, not a verdict):\n" + out[-3000:])
            with open(tr) as fh:
                n = sum(1 for _ in fh)
            if st["distinct"] != n + 1:
                raise InfraError(f"trace {tr}: {n} events but {st['distinct']} monitor states")
            stats["events"] += n
            stats["monitor_states"] += st["distinct"]
            for v in vtlc.parse_viols(out):
                v["file"] = tr
                viols.append(v)
            for ln in out.splitlines():
                ln = ln.strip()
                if ln.startswith('"DIVERGE '):
                    try:
                        d = json.loads(json.loads(ln)[8:])
                        d["file"] = tr
                        divs.append(d)
                    except Exception:
                        pass
                elif ln.startswith('"MONSTAT '):
                    try:
                        ms = json.loads(json.loads(ln)[8:])
                        stats["agnostic_choices"] += ms["agnostic"]
                        for key in ("refusal_rounds", "refusal_with_accept_majority", "wins_judged", "wins_all_data_heard"):
                            stats[key] += ms.get(key, 0)
                    except Exception:
                        pass
    return viols, divs, stats

# ------------------------------------------------------------------ self-test (binding demonstration)

def pos_newer(a, b):
    """The append order of the log on the limb encoding (python copy, used only to pick a self-test victim)."""
    def val(p):
        return (((p["ih"] << 16) | p["il"]) << 32) | ((p["oh"] << 16) | p["ol"])
    if val(a) == val(b):
        return a["c"] > b["c"]
    if val(a) > val(b):
        return val(a) - val(b) < 0x7fffffff00000000
    return val(b) - val(a) >= 0x7fffffff00000000

def split_histories(lines):
    starts = [i for i, x in enumerate(lines) if '"e":"begin"' in x]
    starts.append(len(lines))
    return [lines[a:b] for a, b in zip(starts, starts[1:])]

def corruptions(evs):
    """Yield (kind, description, expected code, corrupted event list); each changes ONE recorded field."""
    # (a) an acceptor's recorded proposal number is lowered after it had been raised
    for i, e in enumerate(evs):
        if e["e"] == "dreq" and e.get("phase") == "prop" and e.get("res") == "" and e["acc"][e["m"] - 1][0] >= 1:
            c = json.loads(json.dumps(evs))
            hit = False
            for k, later in enumerate(c[i + 1:]):
                if later["e"] != "end" and "acc" in later:
                    # only where the real code left the number unchanged in that event: if it raised it there,
                    # "one less" is not below the previous record and the corruption would not be a regression
                    if later["acc"][e["m"] - 1][0] == e["acc"][e["m"] - 1][0]:
                        later["acc"][e["m"] - 1][0] -= 1
                        hit = True
                        yield ("a", f"event {i+k+2}: recorded proposalId of member {e['m']} lowered by one", "numbers-regress", c)
                    break
            if hit:
                break
    # (b) a failed commit phase of a candidacy that overlaps a winner is recorded as successful
    for i, e in enumerate(evs):
        if e["e"] == "pend" and e["phase"] == "commit" and not e["ok"]:
            c = json.loads(json.dumps(evs))
            c[i]["ok"] = True
            yield ("b", f"event {i+1}: failed commit phase of candidate {e['c']} recorded as successful", None, c)
            break
    # (c) the proposed host of a proposal is rewritten to a member that did not answer the vote / is not eligible
    for i, e in enumerate(evs):
        if e["e"] == "start" and e["phase"] == "prop":
            n = len(e["acc"])
            c = json.loads(json.dumps(evs))
            c[i]["host"] = n + 1
            yield ("c", f"event {i+1}: proposed host rewritten to a non-member", "proposed-host-ineligible", c)
            break
    # (d) a refused proposal at a member with a newer log is recorded as accepted
    for i, e in enumerate(evs):
        if e["e"] == "dreq" and e.get("phase") == "prop" and e.get("res") == "ERR_REJECT" and "own" in e and pos_newer(e["own"], e["req"]["aof"]):
            c = json.loads(json.dumps(evs))
            c[i]["res"] = ""
            yield ("d", f"event {i+1}: ERR_REJECT reply of member {e['m']} rewritten to accepted", "newer-log-member-accepted-proposal", c)
            break
    # (e) in a SUCCESSFUL candidacy an accepted proposal reply that reached the candidate is rewritten to the refusal ERR_REJECT
    # (f) ... the recorded own log position of a data member that answered its proposal round is rewritten to one file ahead
    for j, i in winning_props(evs):
        cnd = evs[j]["c"]
        dre = {e["m"]: k for k, e in enumerate(evs[j:i]) if e["e"] == "dreq" and e.get("phase") == "prop" and e["c"] == cnd and e.get("res") == ""}
        got = [e["m"] for e in evs[j:i] if e["e"] == "drsp" and e.get("phase") == "prop" and e["c"] == cnd and e["m"] in dre]
        if not got:
            continue
        k = j + dre[got[0]]
        c = json.loads(json.dumps(evs))
        c[k]["res"] = "ERR_REJECT"
        yield ("e", f"event {k+1}: accepted proposal reply of member {got[0]} (delivered; the candidacy of {cnd} succeeds) rewritten to ERR_REJECT", "candidacy-won-despite-newer-log-refusal", c)
        withown = [m for m in got if "own" in evs[j + dre[m]]]
        if withown:
            k = j + dre[withown[0]]
            c = json.loads(json.dumps(evs))
            p = dict(c[k]["req"]["aof"])
            p["il"] = (p["il"] + 1) % 65536
            if p["il"] == 0:
                continue
            c[k]["own"] = p
            yield ("f", f"event {k+1}: own log position of member {withown[0]}, which answered the proposal round of the successful candidacy of {cnd}, rewritten to one file ahead of the proposed position",
                   "winner-log-older-than-answering-member", c)
        break

def winning_props(evs):
    """(index of the prop start, index of the commit pend) of the successful candidacies of one history."""
    out = []
    for i, e in enumerate(evs):
        if e["e"] == "pend" and e["phase"] == "commit" and e["ok"]:
            for j in range(i - 1, -1, -1):
                if evs[j]["e"] == "start" and evs[j]["phase"] == "prop" and evs[j]["c"] == e["c"]:
                    out.append((j, i))
                    break
    return out

def selftest(traces, accepted_names, wd):
    """Corrupt accepted histories; the TLA+ monitor must reject each corrupted one."""
    done = {}
    for tr in traces:
        with open(tr) as fh:
            lines = fh.read().splitlines()
        for hl in split_histories(lines):
            evs = [json.loads(x) for x in hl]
            if evs[0]["name"] not in accepted_names or len(evs) > 600:
                continue
            for key, desc, code, cev in corruptions(evs):
                if key in done:
                    continue
                p = os.path.join(wd, f"selftest_{len(done)}.ndjson")
                with open(p, "w") as fh:
                    fh.write("\n".join(json.dumps(e) for e in cev) + "\n")
                viols, _, _ = monitor([p], os.path.join(wd, f"selftest_mon_{len(done)}"))
                codes = sorted({v["code"] for v in viols})
                ok = len(viols) > 0 and (code is None or code in codes)
                done[key] = {"kind": key, "corruption": desc, "rejected": ok, "codes": codes, "history": evs[0]["name"]}
            if len(done) >= 6:
                return list(done.values())
    return list(done.values())

# ------------------------------------------------------------------ the check

def run(prop, tier, seed):
    out = checklib.Outcome()
    wd = vbuild.scratch(f"vf_{prop}_")
    try:
        quick = tier == "quick"
        t0 = time.time()
        ncpu = engine.NCPU
        w8, w4 = max(1, min(8, ncpu)), max(1, min(4, ncpu))
        jobs = {}
        # few JVMs at a time, each with few GC / JIT threads: the box is shared
        os.environ.setdefault("JAVA_TOOL_OPTIONS", "-XX:ParallelGCThreads=2 -XX:CICompilerCount=2")
        ex = cf.ThreadPoolExecutor(max_workers=max(2, min(5, ncpu // 3)))
        INV = ["TypeOK", "OneWinner", "ChoiceOK", "NewerRefuses", "RefusalHonoured", "NewestWins", "NoRegress"]
        MONO = ["Monotone"]
        # (1) exhaustive design checks of the model of the code as it is (restarts excluded: finding A7)
        jobs["mc_core"] = ex.submit(tlc, "mc_core", cfg_text(3, [1, 2], "Core3", 1, 0, True, INV, props=MONO), wd, w8 if quick else ncpu, 1500 if quick else 3000)
        jobs["mc_cfg"] = ex.submit(tlc, "mc_cfg", cfg_text(3, [2], "Mixed3Clash", 1, 0, True, INV, props=MONO), wd, w4 if quick else w8, 1500 if quick else 3000)
        jobs["mc_rounds"] = ex.submit(tlc, "mc_rounds", cfg_text(3, [1, 3], "Core3", 2, 0, False, INV, props=MONO), wd, w4, 1500 if quick else 3000)
        # (9) configurations whose election majority need not contain the newest data member
        jobs["mc_veto3"] = ex.submit(tlc, "mc_veto3", cfg_text(3, [2], "Veto3", 1, 0, True, INV, props=MONO), wd, 1, 1500)
        jobs["mc_veto5"] = ex.submit(tlc, "mc_veto5", cfg_text(5, [3], "Arb5Slice", 1, 0, True, INV, props=MONO, gates=None if not quick else ("DataLoseOK",)), wd, w4, 1500 if quick else 3000)
        if not quick:
            jobs["mc_veto3_two"] = ex.submit(tlc, "mc_veto3_two", cfg_text(3, [2, 3], "Veto3", 1, 0, True, INV, props=MONO), wd, w8, 3000)
            jobs["mc_veto3_arb"] = ex.submit(tlc, "mc_veto3_arb", cfg_text(3, [2], "Arb3", 1, 0, True, INV, props=MONO), wd, w4, 3000)
            jobs["mc_cfg_agree"] = ex.submit(tlc, "mc_cfg_agree", cfg_text(3, [2], "Mixed3Agree", 1, 0, True, INV, props=MONO), wd, w4, 3000)
            jobs["mc_cfg_wrap"] = ex.submit(tlc, "mc_cfg_wrap", cfg_text(3, [2], "Mixed3Wrap", 1, 0, True, INV, props=MONO), wd, w4, 3000)
            jobs["mc_cfg2_clash"] = ex.submit(tlc, "mc_cfg2_clash", cfg_text(3, [1, 3], "Slice3Clash", 1, 0, False, INV), wd, w8, 3000)
            jobs["mc_cfg2_wrap"] = ex.submit(tlc, "mc_cfg2_wrap", cfg_text(3, [1, 3], "Slice3Wrap", 1, 0, False, INV), wd, w8, 3000)
            jobs["mc_core_c0"] = ex.submit(tlc, "mc_core_c0", cfg_text(3, [1, 2], "Core3c", 1, 0, True, INV, props=MONO), wd, w8, 3000)
            # (8) the proposed repair of A7 (PersistFixed): holds with a restart and message loss
            jobs["mc_persist_fixed_restart"] = ex.submit(tlc, "mc_persist_fixed_restart", cfg_text(3, [1, 2], "Core3", 1, 1, True, INV, props=MONO, fixed=ALLFIXED), wd, w8, 3000)
        # (2) counterexample hunts on the model of the code for the open finding A7 (restart).  The hunts for the
        #     repaired defects A21/A22/A23 are gone: their counterexample histories live on as fixed regression
        #     scripts (scenarios/election_directed.json, reg-*) that the monitor must now accept.
        hunts = {
            "cex_restart_regress": cfg_text(3, [1, 3], "Core3", 1, 1, False, ["CexMonotone"]),
            "cex_restart_winners": cfg_text(3, [1, 3], "Core3", 1, 1, True, ["CexOneWinner"], hunt=True),
        }
        for k, c in hunts.items():
            jobs[k] = ex.submit(tlc, k, c, wd, w4 if k == "cex_restart_winners" else 1, 1500)
        # (9) the DEVIATION RejectVetoes = FALSE must be refuted by TLC (export invariant: every refuting state prints
        #     its history, TLC goes on); the histories are replayed on the real objects like the A7 counterexamples
        devs = {
            "dev_reject3": cfg_text(3, [2], "Veto3", 1, 0, True, ["ExpNewest"], veto=False),
            "dev_reject5": cfg_text(5, [3], "Arb5Slice", 1, 0, True, ["ExpNewest"], veto=False, gates=("DataLoseOK",)),
        }
        for k, c in devs.items():
            jobs[k] = ex.submit(tlc, k, c, wd, 1 if k == "dev_reject3" else w4, 1500)
        # (3) behaviours
        nb = 60 if quick else 2000
        sims = {
            "sim3": (cfg_text(3, [1, 2, 3], "Mixed3Clash", 2, 2, True, ["SimExport"], view=False, sim=True), 2),
            "sim3w": (cfg_text(3, [1, 3], "Mixed3Wrap", 2, 1, True, ["SimExport"], view=False, sim=True), 2),
            "sim4": (cfg_text(4, [1, 2, 4], "Mixed4", 2, 2, True, ["SimExport"], view=False, sim=True), 2),
            "sim5": (cfg_text(5, [1, 2, 5], "Mixed5", 2, 2, True, ["SimExport"], view=False, sim=True), 2),
            # (9) arbiters / weight-0 members; the fresher member's vote-round messages mostly lost, its proposal-round messages never
            "sim3h": (cfg_text(3, [1, 2, 3], "Arb3", 2, 1, True, ["SimExport"], view=False, gates=("HideLoseOK", "HideRestartOK")), 2),
            "sim4h": (cfg_text(4, [1, 2, 3], "Arb4", 2, 1, True, ["SimExport"], view=False, gates=("HideLoseOK", "HideRestartOK")), 2),
            "sim5h": (cfg_text(5, [2, 3, 5], "Arb5", 2, 1, True, ["SimExport"], view=False, gates=("HideLoseOK", "HideRestartOK")), 2),
        }
        nbh = 60 if quick else 600      # the "h" generators
        nsim = {k: (nbh if k.endswith("h") else nb) for k in sims}
        for k, (c, rounds) in sims.items():
            jobs[k] = ex.submit(tlc, k, c, wd, 1, 1500, simulate=f"num={nsim[k]}", depth=400, seed=seed)
        binp = vbuild.build_inpkg("server", wd)
        # (7) engine P runs in the background while TLC works
        slock_bin = electp.build_slock(wd)
        pspecs = [(seed * 100 + i, False) for i in range(1 if quick else 8)] + [(seed * 100 + 50 + i, True) for i in range(1 if quick else 2)]
        def run_p(arg):
            i, (sd, lag) = arg
            evs = []
            name = f"p-{'lag' if lag else 'kill'}-{sd}"
            try:
                summ = electp.experiment(slock_bin, os.path.join(wd, f"p{i}"), name, i, sd, evs.append, lag=lag)
                return name, sd, lag, evs, summ, None
            except Exception as exn:      # a cluster that does not form is an infrastructure problem of that run
                return name, sd, lag, [], None, str(exn)[:300]
        pex = cf.ThreadPoolExecutor(max_workers=max(1, min(2 if quick else 3, ncpu // 4)))
        pjobs = [pex.submit(run_p, a) for a in enumerate(pspecs)]

        scs = []
        cex_info = {}
        for k in hunts:
            r = jobs[k].result()
            if r["rc"] == -9:
                raise InfraError(f"TLC timed out on {k}")
            hs, _ = parse_hists(r["out"], "CEX")
            cex_info[k] = {"found": len(hs), "steps": len(hs[0]) - 1 if hs else 0}
            for j, h in enumerate(hs[:3]):
                scs.append(hist_to_scenario(h, f"{k}-{j}", 2))
        dev_info = {}
        for k in devs:
            r = jobs[k].result()
            if r["rc"] == -9:
                raise InfraError(f"TLC timed out on {k}")
            st = vtlc.parse_stats(r["out"])
            hs, nref = parse_hists(r["out"], "CEX")
            if st is None or "No error has been found" not in r["out"]:
                raise InfraError(f"{k}: TLC did not complete (design model, not a verdict on the code):\n" + r["out"][-3000:])
            if not hs:
                raise InfraError(f"{k}: TLC did not refute NewestWins / RefusalHonoured on the deviation RejectVetoes = FALSE - the model can no longer express the defect class")
            rng = random.Random(seed * 31 + len(k))
            rng.shuffle(hs)
            # one history per configuration first (generalise over the configurations), then more up to the cap
            seen_cfg, pick, rest = set(), [], []
            for h in hs:
                key = json.dumps(h[0]["exp"], sort_keys=True)
                (rest if key in seen_cfg else pick).append(h)
                seen_cfg.add(key)
            pick = (pick + rest)[:8 if quick else 40]
            dev_info[k] = {"refuting_states": nref, "distinct_histories": len(hs), "configurations_refuted": len(seen_cfg), "steps": len(pick[0]) - 1,
                           "distinct_states": st["distinct"], "wall_s": round(r["wall"], 1)}
            for j, h in enumerate(pick):
                scs.append(hist_to_scenario(h, f"{k}-{j}", 1))
        nbeh, nprefix = 0, 0
        for k, (c, rounds) in sims.items():
            r = jobs[k].result()
            if r["rc"] == -9:
                raise InfraError(f"TLC timed out on {k}")
            hs, npr = parse_hists(r["out"], "BEHAVIOUR")
            if not hs:
                raise InfraError(f"behaviour generation {k} produced nothing:\n" + r["out"][-2000:])
            nprefix += npr
            rng = random.Random(seed)
            rng.shuffle(hs)
            for j, h in enumerate(hs[:nsim[k]]):
                scs.append(hist_to_scenario(h, f"{k}-{seed}-{j}", rounds, epilogue=True))
                nbeh += 1
        tlc_scs = len(scs)
        # (4) wide-range + directed
        nw = 160 if quick else 9000
        nv = 80 if quick else 2000
        wide = [gen_wide(seed, i) for i in range(nw)] + [gen_veto(seed, i) for i in range(nv)]
        direct = directed_scenarios()
        scs = scs + wide + direct
        res = engine.run_harness(binp, "TestVerifE", scs, os.path.join(wd, "run"), tag="e")
        traces = []
        for fin, fout, p in res:
            if p is not None:
                raise InfraError(f"engine E died on {fin}:\n" + (p.stdout or "")[-3000:] + (p.stderr or "")[-2000:])
            traces.append(fout)
        # (7) collect engine P
        pres = [j.result() for j in pjobs]
        pex.shutdown()
        pfailed = [r for r in pres if r[5] is not None]
        if len(pfailed) == len(pres):
            raise InfraError("engine P: no experiment could be run: " + "; ".join(r[5] for r in pfailed)[:1500])
        ptrace = os.path.join(wd, "p_trace.ndjson")
        with open(ptrace, "w") as fh:
            for r in pres:
                for e in r[3]:
                    fh.write(json.dumps(e) + "\n")
        traces.append(ptrace)
        pinfo = {"runs": len(pres) - len(pfailed), "failed_to_form": len(pfailed),
                 "stale_follower_runs": len([r for r in pres if r[2] and r[5] is None]),
                 "leader_emerged": len([r for r in pres if r[4] and r[4]["new_leader"]]),
                 "acked_locks_probed": sum(r[4]["acked"] for r in pres if r[4] and r[4]["new_leader"]),
                 "summaries": [r[4] for r in pres if r[4]][:4]}
        if os.environ.get("VERIF_KEEP_TRACES"):      # debugging aid: a copy of the recorded traces
            os.makedirs(os.environ["VERIF_KEEP_TRACES"], exist_ok=True)
            for tr in traces:
                shutil.copy(tr, os.environ["VERIF_KEEP_TRACES"])
        # (5) monitor
        viols, divs, mst = monitor(traces, os.path.join(wd, "mon"))
        byname = {sc["name"]: sc for sc in scs}
        for r in pres:
            byname[r[0]] = {"engine": "P", "seed": r[1], "stale_follower_variant": r[2], "events": r[3][:200]}
        for v in viols:
            out.viols.append((v, byname.get(v.get("name"))))
        bad_names = {v.get("name") for v in viols}
        # a fixed script (directed / regression history, no predictions attached) whose step is not enabled on this
        # tree simply skips the step: that is not refinement information
        script_names = {sc["name"] for sc in direct}
        skipped = [d for d in divs if d.get("name") in script_names]
        divs = [d for d in divs if d.get("name") not in script_names]
        # histories of the DEVIATION RejectVetoes = FALSE: the code is expected NOT to follow them (it diverges where the
        # model ignored the refusal); one that is followed to the end is a violation found by the monitor, not here
        dev_div_names = {d.get("name") for d in divs if str(d.get("name", "")).startswith("dev_")}
        divs = [d for d in divs if not str(d.get("name", "")).startswith("dev_")]
        if divs and os.environ.get("VERIF_STRICT_REFINE"):
            raise InfraError("refinement divergence between spec/Election.tla and the real code: " + json.dumps(divs[:3])[:2000])
        # counterexamples that the real code did not reproduce (the tree deviates from the as-coded model there)
        cex_repro = {}
        for k in hunts:
            names = [n for n in byname if n.startswith(k + "-")]
            cex_repro[k] = {"replayed": len(names), "reproduced": len([n for n in names if n in bad_names])}
        for k in devs:
            names = [n for n in byname if n.startswith(k + "-")]
            dev_info[k].update({"replayed": len(names), "followed_by_the_code": len([n for n in names if n in bad_names]),
                                "not_followed": len([n for n in names if n in dev_div_names and n not in bad_names])})
        # (6) self-test
        accepted = {sc["name"] for sc in scs} - bad_names - {d.get("name") for d in divs} - dev_div_names
        stest = selftest(traces, accepted, wd)
        new_now, _ = checklib.classify(prop, [v for v, _ in out.viols])
        if not new_now:      # a reproduced violation is a verdict whatever the self-test says; otherwise the binding must be demonstrated
            if len(stest) < 5 or not {"e", "f"} <= {x["kind"] for x in stest}:
                raise InfraError("self-test could not find suitable accepted histories to corrupt: " + json.dumps([x["kind"] for x in stest]))
            for s in stest:
                if not s["rejected"]:
                    raise InfraError(f"self-test failed: the monitor accepted a corrupted trace ({s['corruption']})")
        # (1) results
        mc = {}
        for k in [x for x in jobs if x.startswith("mc_")]:
            st = must_complete(jobs[k].result(), k)
            mc[k] = {"distinct": st["distinct"], "generated": st["generated"], "wall_s": round(jobs[k].result()["wall"], 1)}
        ex.shutdown()
        samples = []
        for sc in scs[:1] + wide[:1]:
            samples.append({"name": sc["name"], "members": sc["members"], "cands": sc["cands"], "steps": sc["steps"][:14], "rand": sc.get("rand")})
        out.coverage = {
            "states": sum(v["distinct"] for v in mc.values()), "transitions": sum(v["generated"] for v in mc.values()),
            "traces_validated_against_impl": len(scs) + pinfo["runs"], "samples": samples, "exhaustive": True,
            "model": {"module": "spec/Election.tla (+ spec/ElectionMC.tla)", "runs": mc,
                      "constants": "the code as it is (CmpFixed, PidFixed, HostFixed TRUE; PersistFixed FALSE), no restart: mc_core = 3 members, candidates {1,2}, one candidacy each, every delivery order, any subset of the 24 messages lost; "
                                   "mc_cfg = 3 members, one candidate, all 2187 weight {0,1,2} / arbiter / log-position tuples with file index and offset pulling in opposite directions, any subset of messages lost; "
                                   "mc_rounds = candidates {1,3}, two candidacies each, every delivery order"
                                   + ("" if quick else "; mc_cfg_agree / mc_cfg_wrap = other position families incl. index wrap-around; mc_cfg2_* = two candidates over a slice of the tuples; mc_core_c0 = unequal committed numbers; "
                                                       "mc_persist_fixed_restart = proposed repair of A7 with one restart and loss"),
                      "veto_runs": "mc_veto3 = 3 members whose election majority need not contain the newest data member (arbiter + stale + fresh; newest member of weight 0), candidate 2, any subset of messages lost; "
                                   "mc_veto5 = 3 data members + 2 arbiters, candidate = the lagging follower, " + ("messages of the data members lost in any subset" if quick else "any subset of messages lost"),
                      "invariants": INV + ["Monotone (action property)"]},
            "counterexample_hunts": {k: dict(cex_info[k], **cex_repro[k]) for k in hunts},
            "deviation_refuted_by_tlc": dict(dev_info, switch="RejectVetoes = FALSE (a refusal 'my log is newer' is only looked at without a majority of accepts); invariants NewestWins, RefusalHonoured"),
            "veto_histories": len([x for x in wide if x["name"].startswith("veto-")]),
            "tlc_behaviours_replayed": nbeh, "tlc_behaviour_prefixes_printed": nprefix, "tlc_counterexamples_replayed": tlc_scs - nbeh,
            "wide_range_histories": len(wide), "directed_histories": len(direct), "engine_p": pinfo,
            "monitor": dict(mst, module="spec/mon/MonElection.tla"),
            "refinement_divergences": len(divs), "refinement_divergence_samples": divs[:3], "script_steps_skipped": len(skipped),
            "regression_scripts": {"replayed": len([x for x in direct if x["name"].startswith("reg-")]),
                                   "accepted": len([x for x in direct if x["name"].startswith("reg-") and x["name"] not in {v.get("name") for v in new_now}]),
                                   "note": "accepted = no violation other than the open finding A7 (one script contains a restart)"},
            "selftest": stest,
            "evaluations": len(scs), "distinct_nontrivial": len({json.dumps([sc["members"], sc["cands"], sc["steps"], sc.get("rand")], sort_keys=True) for sc in scs}),
            "rule": "one evaluation = one election history (configuration + delivery/loss/restart schedule) run on the real ArbiterManager/ArbiterVoter objects and validated by the TLA+ monitor; distinct = distinct (configuration, schedule) pairs",
        }
        out.assumptions = [
            "engine E: members live in one process; requests are the frames the real client protocol wrote, replies are the objects the real handlers returned; a lost message makes ArbiterClient.Request fail without an offline event",
            "the candidate's own member is served when the phase starts (DoRequests gives no gate); the StartVote loop guard is re-evaluated by the driver; voteSucced is represented by its store.Save only",
            "no announcement, offline event, membership change or online leader is injected (outside the property's quantifier)",
            "log positions of the TLC behaviours are the scaled positions of the model mapped to 32-bit components by a comparison-preserving map; wide-range histories use arbitrary 64-bit positions",
            "engine P: real processes on loopback; 'leader' is what INFO reports (role:leader); a run in which no leader emerges within 45 s is inconclusive (liveness is not part of C12); "
            "the kill moment is seeded (0..200 ms after the last acknowledged lock), not enumerated",
        ]
        return out
    finally:
        for pool in (locals().get("ex"), locals().get("pex")):
            if pool is not None:
                pool.shutdown(wait=False, cancel_futures=True)
        shutil.rmtree(wd, ignore_errors=True)

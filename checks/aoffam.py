"""Checks C07 C08 C16 (persistence family: append-only log, crash images, compaction), engine F.

  (1) TLC exhaustive design check of spec/AofLog.tla (logging discipline of the model against the replay
      discipline spec/AofReplay.tla, under restarts / torn writes / compaction crash points, bounded constants);
      with the model's deviation switches set as the code is (A2b, A3, A11, A26, A27 present; A2 repaired by 7883626) TLC must REFUTE the
      corresponding invariant - the counterexample classes are replayed on the real code as directed histories
  (2) TLC -simulate behaviours of AofLogSim -> replayed on the real code by engine F
  (3) seeded random histories (lib/gen_aof.py) + directed histories (scenarios/aof_directed.json) on the real code:
      every quiescent stop point / every torn-write image of the newest append file / every file-system step of
      every compaction is turned into a directory image and recovered by a fresh instance of the real code
  (4) every recorded trace is validated by TLC against the property monitor spec/mon/MonAof.tla; the same run
      replays the decoded files of every intact image with AofReplay!Recover and compares (refinement, no verdict)
  (5) binding self-test: one recorded field of an accepted trace is corrupted and must be rejected
"""
import json, os, random, shutil, time, collections, re
import concurrent.futures as cf
import vbuild, vtlc, engine, checklib, gen_aof
from vbuild import VERIF, InfraError

PROPS = ["C07", "C08", "C16"]

MANIFEST = {
    "C07": dict(level="model_checking", design="5/C07", engine="F",
                technique="TLC: AofLog model (logging vs replay discipline) + TLA+ trace monitor over real stop/start images",
                text="TLC checks exhaustively, on a bounded model of the log (records written at grant / wheel visits / re-lock / unlock / expiry, "
                     "buffered flush, rotation), that replaying the log at any later second yields exactly the persisted live holds with depth, Count, "
                     "Rcount, value and deadline within one unit + 1 s. The real code is bound to it twice: TLC-generated and seeded histories are run on a "
                     "real leader with a back-dated virtual clock, stopped at quiescent points and started again on the same files; TLC validates every "
                     "recorded trace against MonAof (the statement's own definition of 'persisted', computed from observed requests and hold snapshots) "
                     "and replays the decoded files with the model's Recover operator (refinement). Bursts (spec/AofQueue.tla: value frames are handed to "
                     "the log by reference and copied later) run several value operations on a key while the records of the earlier ones are still queued; "
                     "the stop / start after them is judged like every other.",
                note="trusted: the harness' own 64-byte record decoder, the in-package hold snapshot, the back-dating of the first instance's clock "
                     "(outages of 2..60 s), virtual-clock sweeps; millisecond-unit expiries are not driven; second generations run without clock ticks; "
                     "bursts hold ALL channel goroutines back (their wake-up token is withheld), not single ones"),
    "C08": dict(level="model_checking", design="5/C08", engine="F",
                technique="TLC: AofLog crash model + enumeration of every torn-write image of the real newest append file, judged by a TLA+ monitor",
                text="TLC checks on the model that a log cut at any field boundary of its last records (and its value file cut consistently) recovers a "
                     "whole-record prefix, and that appends after the restart are recovered by the next one. On the real code every byte offset of the last "
                     "two records, the 12 header bytes and the value-file offsets around each frame boundary are cut, each image is started by the real code "
                     "(child process, panics and hangs are outcomes), and the TLA+ monitor demands membership in the set of states the same code recovers from "
                     "the whole-record prefixes; a second epoch and a third start follow on a share of the images. Records are handed to the log writer by "
                     "reference (spec/AofQueue.tla, exhaustive: every frame written is the value of its record, every cut of the value file parses to a record "
                     "prefix; refuted when APPEND extends the live buffer in place): bursts of requests run on the real code while the channel goroutines are "
                     "held back, the monitor computes the value every record describes with the register interpreter of C15 (ValueReg!Apply) and demands it "
                     "byte for byte of the value file, and of the value recovered from every whole-record prefix / torn image of the burst's records.",
                note="trusted: as C07; crash images are synthesized by truncation of copies (the flush hooks fix the syscall boundaries: records first, then values); "
                     "only the newest append file is cut; the value a record describes is computed for SET/UNSET/INCR/APPEND/SHIFT/PUSH/POP on keys used by bursts "
                     "only (PIPELINE / EXECUTE frames and requests the interpreter leaves open are not judged); the replication ring keeps the same references "
                     "and is not observed here"),
    "C16": dict(level="model_checking", design="5/C16", engine="F",
                technique="TLC: AofLog compaction model with a crash after every step + recovery of every real compaction step image against its reference directory",
                text="TLC checks on the model that at every program point of a compaction (tmp written, each removal, each rename) recovery equals recovery from "
                     "the replaced files. On the real code the aof.fs hooks copy the directory after every file-system step of every compaction (size threshold, "
                     "admin command, start-up; appends continuing from inside the hooks); each image and its reference directory (the replaced input files + "
                     "whatever else the image holds) are started by the real code and compared by the TLA+ monitor: same holds, depths, values, and DEADLINES - "
                     "exactly for seconds-unit holds (a replayed deadline is CommandTime + ExpriedTime + 1 whatever the second of the start), within the minute "
                     "the start fell into for minute-unit holds. The model and the histories include value-less deadline updates by holders (update flag; "
                     "lengthening and shortening, both units, at ages 0..121 s); TLC refutes C16_Steps when the filter's tolerance is one second too strict.",
                note="trusted: as C07; the reference directory is assembled by the harness from the image taken at 'tmp-written'; start-up compactions are observed "
                     "both free-running (as LoadAndInit starts them) and held until the replay has drained"),
}

KIND = {"C07": "restart", "C08": "crash", "C16": "compact"}

# ------------------------------------------------------------------ TLC on the trace monitor

def monitor(traces, props, workdir, timeout=1500):
    """Validate each trace with MonAof. Returns (viols, diverges, stats, nevents, nstates)."""
    specdirs = [os.path.join(VERIF, "spec"), os.path.join(VERIF, "spec", "mon")]
    def one(arg):
        i, tr = arg
        cfg = engine.MON_CFG % {"trace": tr, "props": ", ".join('"%s"' % p for p in props)}
        r = vtlc.run_tlc(specdirs, "MonAof", cfg, os.path.join(workdir, f"tlc_mon_{i}"), workers=1, timeout=timeout)
        return tr, r
    viols, divs, stats, nev, nst = [], [], collections.Counter(), 0, 0
    with cf.ThreadPoolExecutor(max_workers=engine.NCPU) as ex:
        for tr, r in ex.map(one, list(enumerate(traces))):
            out = r["out"]
            st = vtlc.parse_stats(out)
            if r["rc"] == -9:
                raise InfraError(f"TLC timed out on {tr}")
            if "No error has been found" not in out or st is None:
                raise InfraError(f"TLC did not accept the trace file {tr} completely (monitor/infra problem, not a verdict):\n" + out[-3000:])
            with open(tr) as fh:
                n = sum(1 for _ in fh)
            if st["distinct"] != n + 1:
                raise InfraError(f"trace {tr}: {n} events but {st['distinct']} monitor states")
            nev += n
            nst += st["distinct"]
            for v in vtlc.parse_viols(out):
                v["file"] = tr
                viols.append(v)
            for line in out.splitlines():
                line = line.strip()
                if line.startswith('"DIVERGE '):
                    try:
                        d = json.loads(json.loads(line)[8:])
                        d["file"] = tr
                        divs.append(d)
                    except Exception:
                        pass
                elif line.startswith('"STAT '):
                    try:
                        s = json.loads(json.loads(line)[5:])
                        for k, v2 in s.items():
                            if k != "name":
                                stats[k] += v2
                    except Exception:
                        pass
    return viols, divs, dict(stats), nev, nst

# ------------------------------------------------------------------ scenarios

def directed():
    path = os.path.join(VERIF, "scenarios", "aof_directed.json")
    if not os.path.exists(path):
        return []
    with open(path) as fh:
        return json.load(fh)

def random_histories(prop, tier, seed):
    quick = tier == "quick"
    kind = KIND[prop]
    n = {"C07": (64, 2400), "C08": (28, 900), "C16": (40, 1500)}[prop][0 if quick else 1]
    scs = [gen_aof.gen_history(seed, i, kind) for i in range(n)]
    if prop == "C07":
        # configured delays above 1 s (finding A11 lives there) on a small share
        scs += [gen_aof.gen_history(seed, 100000 + i, kind, aoftime=random.Random(seed * 31 + i).choice([2, 3, 5])) for i in range(max(4, n // 16))]
    # bursts: requests run while the records of the earlier ones are still queued (value frames handed to the log by reference)
    nb = {"C07": (10, 300), "C08": (14, 400), "C16": (0, 0)}[prop][0 if quick else 1]
    scs += [gen_aof.gen_burst(seed, i, kind) for i in range(nb)]
    if prop == "C08":
        # crash images taken at aof.flush.enter (records of the batch still in the write buffer) + second epoch with values + third start
        scs += [gen_aof.gen_preflush(seed, i) for i in range(10 if quick else 150)]
    if prop == "C07":
        # the value of a shared key carried by the record of a later, still live holder once its setter's records are gone
        scs += [gen_aof.gen_carrier(seed, i) for i in range(12 if quick else 300)]
    if prop == "C16":
        # value-less deadline updates of persisted holds (both directions, both units, different ages), then compactions
        scs += [gen_aof.gen_update(seed, i, kind) for i in range(20 if quick else 600)]
        # compactions that START on the directory an interrupted compaction left behind (partial / complete rewrite.aof.tmp), then one more start
        scs += [gen_aof.gen_leftover(seed, i) for i in range(10 if quick else 200)]
    return scs

# ------------------------------------------------------------------ self-test (binding demonstration)

def _split_histories(lines):
    starts = [i for i, x in enumerate(lines) if '"e":"begin"' in x[:60]]
    starts.append(len(lines))
    return [(a, b) for a, b in zip(starts, starts[1:])]

def corrupt(prop, lines, badrel):
    """Change ONE recorded field of an accepted recovery so that the property no longer holds of it.
    badrel: relative line numbers (1-based) at which the monitor already reported something.
    Returns (lines, description, relative line of the corrupted event) or None."""
    evs = [json.loads(x) for x in lines]
    def dump():
        return [json.dumps(e) for e in evs]
    if prop == "C07":
        # a hold that the restart restored is removed from the recorded recovery
        pre = None
        for i, e in enumerate(evs):
            if e["e"] == "hsnap" and e["role"] == "pre":
                pre = e
            if e["e"] == "rec" and e.get("role") == "stop" and e["ok"] and pre is not None and (i + 1) not in badrel:
                for k in e["keys"]:
                    pk = [x for x in pre["keys"] if x["db"] == k["db"] and x["key"] == k["key"]]
                    if not pk or len(pk[0]["holds"]) != 1 or len(k["holds"]) != 1:
                        continue
                    ph, h = pk[0]["holds"][0], k["holds"][0]
                    # a hold the statement demands: persist-immediately class, sole holder, deadline far away
                    if (ph["ef"] & 0x1300) == 0x0100 and (ph["exp"] < 0 or ph["exp"] - e["rnow"] > 130) and ph["lid"] == h["lid"]:
                        e["keys"] = [x for x in e["keys"] if x is not k]
                        return dump(), f"restored hold db={k['db']} key={k['key']} lid={h['lid']} deleted from the recorded recovery of a stop point", i + 1
    if prop == "C08":
        # a crash image whose record file ends on a record boundary (value file torn): its recovery was accepted as a prefix;
        # one recovered hold gets another Count
        for i, e in enumerate(evs):
            if e["e"] == "rec" and e.get("role") == "cut" and e["ok"] and e["keys"] and (i + 1) not in badrel \
               and e["x"] >= 12 and (e["x"] - 12) % 64 == 0:
                far = [k for k in e["keys"] if all(h["exp"] < 0 or h["exp"] - e["rnow"] > 130 for h in k["holds"])]
                if far:
                    far[0]["holds"][0]["cnt"] += 7
                    return dump(), f"Count of a hold recovered from the crash image cut at {e['x']}/{e['y']} changed by 7", i + 1
    if prop == "C08b":
        # a value file the burst clause accepted: one byte of a frame that the burst appended is changed
        for i, e in enumerate(evs):
            if e["e"] == "bdisk" and not e["lost"] and (i + 1) not in badrel:
                for f in e["files"]:
                    if len(f["dbytes"]) >= 7 and any(r["has"] for r in f["recs"]):
                        f["dbytes"][6] = (f["dbytes"][6] + 1) % 256
                        return dump(), f"byte 6 of the value bytes the burst appended to {f['name']}.dat changed", i + 1
    if prop == "C16b":
        # the compacted directory recovers a seconds-unit hold with a deadline ONE second off
        for i, e in enumerate(evs):
            if e["e"] == "rec" and e.get("role") == "cptimg" and e.get("final") and e["ok"] and (i + 1) not in badrel:
                for k in e["keys"]:
                    for h in k["holds"]:
                        if (h["ef"] & 0x4440) == 0 and h["exp"] >= 0 and h["exp"] - e["rnow"] > 130:
                            h["exp"] += 1
                            return dump(), (f"deadline of the hold db={k['db']} key={k['key']} lid={h['lid']} recovered from the compacted directory moved by 1 s "
                                            f"({e.get('trigger')} compaction)"), i + 1
    if prop == "C16":
        # the final image of a compaction loses a key
        for i, e in enumerate(evs):
            if e["e"] == "rec" and e.get("role") == "cptimg" and e.get("final") and e["ok"] and e["keys"] \
               and (i + 1) not in badrel:
                far = [k for k in e["keys"] if all(h["exp"] < 0 or h["exp"] - e["rnow"] > 130 for h in k["holds"])]
                if far:
                    e["keys"] = [x for x in e["keys"] if x is not far[0]]
                    return dump(), f"key db={far[0]['db']} key={far[0]['key']} deleted from the recovery of the compacted directory ({e.get('trigger')} compaction)", i + 1
    return None

def selftest(prop, traces, workdir, viols, variant=None):
    """Corrupt one recovery that the monitor accepted; the monitor must report a violation of `prop` at that very event."""
    badlines = collections.defaultdict(set)
    for v in viols:
        badlines[v["file"]].add(v["line"])
    tries, last = 0, None
    for tr in traces:
        with open(tr) as fh:
            lines = fh.read().splitlines()
        for a, b in _split_histories(lines):
            if b - a > 8000:
                continue
            name = json.loads(lines[a]).get("name")
            badrel = {ln - a for ln in badlines.get(tr, ()) if a < ln <= b}
            res = corrupt(variant or prop, lines[a:b], badrel)
            if not res:
                continue
            cl, desc, rel = res
            p = os.path.join(workdir, f"selftest_{variant or prop}.ndjson")
            with open(p, "w") as fh:
                fh.write("\n".join(cl) + "\n")
            tries += 1
            v2, _, _, _, _ = monitor([p], [prop], os.path.join(workdir, f"selftest_{variant or prop}_{tries}"))
            mine = [v for v in v2 if v["prop"] == prop and v["line"] == rel]
            last = {"history": name, "corruption": f"event {rel} of the history: " + desc, "rejected": len(mine) > 0, "codes": sorted({v["code"] for v in mine}),
                    "candidates_tried": tries}
            # the added clauses judge only what the monitor could compute (a burst record whose request the register interpreter leaves
            # open is not judged): a corruption that lands on such a record is not evidence either way - try the next candidate
            if mine or not variant or tries >= 6:
                return last
    return last or {"corruption": None, "rejected": None}

# ------------------------------------------------------------------ model (TLC on spec/AofLog.tla)

def model_check(prop, tier, seed, wd):
    import aofmodel
    return aofmodel.run(prop, tier, seed, wd)

# ------------------------------------------------------------------ the check

def run(prop, tier, seed):
    out = checklib.Outcome()
    wd = vbuild.scratch(f"vf_{prop}_")
    try:
        quick = tier == "quick"
        # (1)+(2) model: exhaustive design check, refutation of the deviation switches, behaviours
        model = model_check(prop, tier, seed, wd)
        # (3) histories on the real code
        rnd = random_histories(prop, tier, seed)
        dire = [s for s in directed() if prop in s.get("props", PROPS)]
        beh = model["scenarios"]
        scs = beh + rnd + dire
        binp = vbuild.build_inpkg("server", wd)
        res = engine.run_harness(binp, "TestVerifF", scs, os.path.join(wd, "run"), tag="f", timeout=1500 if quick else 3000)
        traces = []
        retried = 0
        for fin, fout, p in res:
            if p is not None:
                # the driver process died (a panic inside a goroutine of the code under test cannot be caught in-process; images with
                # torn tails are started in child processes, the second epoch on them is not): one more attempt, then give up
                retried += 1
                p2 = vbuild.run_test(binp, "TestVerifF", {"VERIF_IN": fin, "VERIF_OUT": fout}, cwd=os.path.join(wd, "run"), timeout=1500 if quick else 3000)
                if p2.returncode != 0 or "PASS" not in p2.stdout:
                    raise InfraError(f"engine F died twice on {fin}:\n" + (p2.stdout or "")[-3000:] + (p2.stderr or "")[-2000:])
            traces.append(fout)
        aborts = []
        for tr in traces:
            with open(tr) as fh:
                for ln in fh:
                    if '"driver-abort"' in ln:
                        aborts.append(json.loads(ln))
        if len(aborts) > max(2, len(scs) // 50):
            raise InfraError(f"{len(aborts)} histories were aborted by the driver: " + json.dumps(aborts[:3])[:1500])
        # (4) monitor + refinement
        viols, divs, stats, nev, nst = monitor(traces, [prop], os.path.join(wd, "mon"))
        byname = {sc["name"]: sc for sc in scs}
        bad_names = set()
        for v in viols:
            if v["prop"] == prop:
                bad_names.add(v.get("name"))
                out.viols.append((v, byname.get(v.get("name"))))
        # (5) self-test on a recovery the monitor accepted
        stest = selftest(prop, traces, wd, viols)
        if stest["rejected"] is False:
            raise InfraError(f"self-test failed: the monitor accepted a corrupted trace ({stest['corruption']})")
        if stest["rejected"] is None:
            new, _ = checklib.classify(prop, [v for v, _ in out.viols])
            if not new:
                raise InfraError("self-test could not be performed: no accepted recovery offered a field to corrupt")
            stest["note"] = "not performed: no accepted recovery of the required shape in this run (violations are reported)"
        # self-tests of the clauses added for bursts (C08) / exact deadlines after a compaction (C16)
        stest2 = None
        if prop in ("C08", "C16"):
            stest2 = selftest(prop, traces, wd, viols, variant=prop + "b")
            if stest2["rejected"] is False:
                raise InfraError(f"self-test failed: the monitor accepted a corrupted trace ({stest2['corruption']})")
            if stest2["rejected"] is None:
                new, _ = checklib.classify(prop, [v for v, _ in out.viols])
                if not new:
                    raise InfraError("second self-test could not be performed: no accepted burst / compaction image offered a field to corrupt")
                stest2["note"] = "not performed: nothing of the required shape was accepted in this run (violations are reported)"
        samples = [{"name": sc["name"], "cfg": sc["cfg"], "back": sc.get("back"), "steps": sc["steps"][:8]} for sc in (beh[:1] + rnd[:1])]
        out.coverage = {
            "states": model["states"], "transitions": model["transitions"], "traces_validated_against_impl": len(scs),
            "samples": samples, "exhaustive": model["exhaustive"],
            "model": model["info"],
            "model_refutations_replayed_on_real_code": model["refutations"],
            "tlc_behaviours_replayed": len(beh), "random_histories": len(rnd), "directed_histories": len(dire),
            "monitor": {"module": "spec/mon/MonAof.tla", "events": nev, "monitor_states": nst, "clauses_of": prop},
            "images": {"quiescent_stop_points": stats.get("stops", 0), "restarts_after_second_epoch": stats.get("stops2", 0),
                       "torn_write_images": stats.get("cuts", 0), "whole_record_prefix_images": stats.get("prefixes", 0),
                       "compaction_step_images": stats.get("cptimgs", 0)},
            "holds_judged": {"total": stats.get("judged", 0), "must_be_restored": stats.get("must", 0), "must_not_be_restored": stats.get("mustnot", 0),
                             "agnostic": stats.get("may", 0), "restored": stats.get("restored", 0),
                             "values_judged": stats.get("valchk", 0), "values_agnostic": stats.get("valskip", 0)},
            "refinement": {"recoveries_replayed_by_AofReplay": stats.get("refined", 0), "skipped_torn_or_second_boundary": stats.get("refskip", 0),
                           "divergences": len(divs), "first_divergences": [{k: d[k] for k in d if k != "file"} for d in divs[:3]]},
            "bursts": {"requests": stats.get("burst_requests", 0), "requests_agnostic": stats.get("burst_requests_agnostic", 0),
                       "records_located_in_the_files": stats.get("burst_records", 0), "value_frames_judged_on_disk": stats.get("burst_frames_judged", 0),
                       "image_values_judged": stats.get("burst_image_values_judged", 0), "bursts_not_located": stats.get("bursts_not_located", 0),
                       "burst_histories": sum(1 for sc in scs if any(st.get("op") == "burst" for st in sc["steps"]))},
            "flush_enter_crash_images_with_second_epoch": stats.get("preflush_images", 0),
            "keys_not_compared_because_a_record_ends_between_two_starts": stats.get("keys_not_compared_record_ends_between_starts", 0),
            "compaction_deadlines": {"holds_compared_exactly": stats.get("cpt_deadlines_exact", 0)},
            "selftest": stest, "selftest_added_clause": stest2, "driver_shards_retried": retried, "histories_aborted_by_driver": [a.get("name") for a in aborts],
            "evaluations": len(scs), "distinct_nontrivial": len({json.dumps(s["steps"], sort_keys=True) for s in scs}),
            "rule": "one evaluation = one history run on the real code with all its images recovered, validated by the TLA+ monitor; distinct = distinct step sequences",
        }
        out.assumptions = [
            "engine F is sequential: one driver goroutine, virtual clock of the first instance back-dated by (ticks + 2..40) s, persistence queue drained after every step "
            "- except inside a burst step, where the channel goroutines are parked and their wake-up token is withheld until the last request of the burst has returned",
            "crash / burst / flush-enter / leftover histories give every hold a lifetime of 20 min or more (the recovery phase of one stop point runs on the wall clock); "
            "comparisons between two recoveries leave out keys with a record whose lifetime ends between the two starts +- 2 s (counted in the evidence); "
            "the restart clauses take 'now' of a start as the interval between the driver's stamps around it",
            "burst keys (60..63) are used by bursts only; holds of a burst persist at once and outlive every recovery (1800 / 3600 s)",
            "compactions of the first instance are awaited after every step; requests 'during' a compaction are issued from inside the aof.fs hooks (deterministic interleaving)",
            "start-up compaction: held until the replay has drained, except in the C16 histories marked faithful (free-running, as LoadAndInit starts it; regression of A29, fixed by 15834ac)",
            "recoveries of torn images run in child processes with an 8 s limit per start",
            "millisecond expiries are not generated; second generations and second epochs run without clock ticks",
        ]
        return out
    finally:
        shutil.rmtree(wd, ignore_errors=True)

"""Check C15: key values behave as an atomic register (incl. Redis-style commands).

  (1) TLC exhaustive design check of spec/ValueRegMC.tla: the implementation-shaped byte-level
      interpreter (ValueReg!Impl, deviation switches off) refines the reference interpreter
      (ValueReg!Apply) over every request sequence of the model; reply = value before; refused = unchanged
  (2) the same model with the deviations of server/lock.go switched on: TLC's counterexamples are
      replayed on the real code (a model counterexample is never a verdict)
  (3) TLC complete enumeration (BFS) + TLC -simulate behaviours of ValueRegMC -> replayed on the real
      LockDB.Lock/UnLock by the in-package driver TestVerifValue (engine S)
  (4) seeded wide-range histories (binary payloads, 64-bit overflow, property headers, arrays,
      pipelines, waiters woken by unlock, expiry) on the real code
  (5) every recorded trace validated by TLC against the trace spec spec/mon/MonValue.tla
  (6) Redis-style text commands: TLC enumeration of command sequences of spec/RedisCmds.tla replayed
      through the real TextServerProtocol handlers, replies validated by TLC (spec/mon/MonRedis.tla)
  (7) binding self-tests: recorded traces are corrupted and must be rejected
"""
import json, os, random, shutil, struct, time, copy, re
import concurrent.futures as cf
import vbuild, vtlc, engine, checklib
from vbuild import VERIF, InfraError

PROPS = ["C15"]
MANIFEST = {"C15": dict(
    level="model_checking", design="5/C15",
    technique="TLA+ sequential interpreter (ValueReg) model-checked by TLC against an implementation-shaped byte-level model; "
              "TLC-enumerated request sequences replayed on the real LockDB / text protocol and every recorded history "
              "validated step by step by TLC trace specs (MonValue, MonRedis)",
    text="Every enumerated or sampled history of value operations carried on lock, re-lock, update and unlock requests "
         "(and of Redis-style commands) is executed by the real code; TLC recomputes the register with the TLA+ interpreter "
         "and rejects any reply that is not the value before the operation, any stored value that differs from Apply, "
         "any change by a refused request and any panic.  Bounded: complete to the stated depth over the stated alphabet, "
         "sampled beyond.",
    note="Trusted: the in-package projection (LockManager.currentData read by the driver), TLC, the transcription of the "
         "intended semantics in spec/ValueReg.tla (README flags + lock_test.go fixtures).  Sequential engine: one goroutine, "
         "virtual clock; ack-required (replicated) locks and EXECUTE sub-commands are not driven.",
    engine="S+W")}

SPECDIRS = [os.path.join(VERIF, "spec"), os.path.join(VERIF, "spec", "mon")]
MAXV_PER_CODE = 12

# ------------------------------------------------------------------ frames (request construction only)

def frame(ctype, flag, payload=b"", props=None, stage=0):
    body = bytes([(stage << 6) | ctype, flag | (0x10 if props is not None else 0)])
    if props is not None:
        pr = b"".join(bytes([c]) + struct.pack("<H", len(v)) + v for c, v in props)
        body += struct.pack("<H", len(pr)) + pr
    body += payload
    return struct.pack("<I", len(body)) + body

def f_set(p, flag=0, props=None): return frame(0, flag, p, props)
def f_unset(flag=0): return frame(1, flag)
def f_incr(n, flag=1, props=None): return frame(2, flag, struct.pack("<q", n), props)
def f_append(p, flag=0, props=None): return frame(3, flag, p, props)
def f_shift(n, flag=1): return frame(4, flag, struct.pack("<I", n))
def f_pipe(subs, flag=0): return frame(6, flag, b"".join(subs))
def f_push(p, flag=0, props=None): return frame(7, flag, p, props)
def f_pop(n, flag=1): return frame(8, flag, struct.pack("<I", n))
def f_arr(items, flag=2, props=None): return frame(0, flag, b"".join(struct.pack("<I", len(i)) + i for i in items), props)

def lock(lid, key, data=b"", flag=0, ex=30, to=0, cnt=1, rc=1, tf=0, ef=0):
    return {"op": "lock", "conn": lid, "db": 0, "key": key, "lid": lid, "flag": flag, "tf": tf, "ef": ef, "to": to, "ex": ex,
            "cnt": cnt, "rc": rc, "data": data.hex()}

def unlock(lid, key, data=b"", flag=0, rc=0):
    return {"op": "unlock", "conn": lid, "db": 0, "key": key, "lid": lid, "flag": flag, "tf": 0, "ef": 0, "to": 0, "ex": 0,
            "cnt": 0, "rc": rc, "data": data.hex()}

def tick(key, n=1):
    return {"op": "tick", "n": n, "key": key, "db": 0}

# ------------------------------------------------------------------ TLC behaviours -> scenarios

def hist_to_steps(h, key):
    steps = []
    for st in h:
        op = bytes(st["op"])
        if st["k"] == "L":
            steps.append(lock(st["lid"], key, op, flag=0, to=5 if st["w"] else 0))
        elif st["k"] == "P":
            steps.append(lock(st["lid"], key, op, flag=2))
        else:
            steps.append(unlock(st["lid"], key, op, rc=0 if st["a"] else 1))
    return steps

def parse_tagged(out, tag):
    res = []
    for ln in out.splitlines():
        ln = ln.strip()
        if ln.startswith('"' + tag + ' '):
            try:
                s = json.loads(ln)
            except Exception:
                continue
            res.append(s[len(tag) + 1:])
    return res

def maximal_behaviours(strs):
    """TLC prints a behaviour per exported state; drop strict prefixes and duplicates."""
    hs = sorted(set(strs))
    keep = []
    for i, h in enumerate(hs):
        core = h[:-1]
        if i + 1 < len(hs) and hs[i + 1].startswith(core + ","):
            continue
        keep.append(json.loads(h))
    return keep

ENUM_CFG = '''SPECIFICATION Spec
CONSTANTS
  Lids = {1, 2}
  MaxSteps = %(steps)d
  OpSet = "%(opset)s"
  SwShift = FALSE
  SwPipe = FALSE
  SwPop = FALSE
  Export = TRUE
INVARIANTS ExportInv
CHECK_DEADLOCK FALSE
'''

def tlc_enumerate(wd, name, steps, opset, timeout):
    r = vtlc.run_tlc(SPECDIRS[0], "ValueRegMC", ENUM_CFG % {"steps": steps, "opset": opset}, os.path.join(wd, name),
                     workers=engine.NCPU, timeout=timeout)
    st = vtlc.parse_stats(r["out"])
    if st is None or "No error has been found" not in r["out"]:
        raise InfraError(f"behaviour enumeration {name} did not complete:\n" + r["out"][-2000:])
    hs = [json.loads(x) for x in set(parse_tagged(r["out"], "BEHAVIOUR"))]
    hs = [h for h in hs if len(h) == steps]
    return hs, st, r["wall"]

def tlc_simulate(wd, name, steps, opset, num, seed, timeout):
    r = vtlc.run_tlc(SPECDIRS[0], "ValueRegMC", ENUM_CFG % {"steps": steps, "opset": opset}, os.path.join(wd, name),
                     workers=1, timeout=timeout, simulate=f"num={num}", depth=steps + 1, seed=seed)
    if "BEHAVIOUR" not in r["out"]:
        raise InfraError(f"behaviour simulation {name} produced nothing:\n" + r["out"][-2000:])
    hs = maximal_behaviours(parse_tagged(r["out"], "BEHAVIOUR"))
    return [h for h in hs if len(h) == steps], r["wall"]

# ------------------------------------------------------------------ wide-range random histories

def rnd_bytes(rng, lo=0, hi=24):
    n = rng.randint(lo, hi)
    mode = rng.random()
    if mode < 0.3:
        return bytes(rng.choice(b"xyz") for _ in range(n))
    return bytes(rng.randrange(256) for _ in range(n))

def rnd_props(rng):
    if rng.random() < 0.7:
        return None
    return [(rng.choice([1, 1, 2, 200]), rnd_bytes(rng, 0, 6)) for _ in range(rng.randint(1, 2))]

NUMS = [0, 1, -1, 2, 7, -9, 255, 256, 65535, 2**31 - 1, 2**31, -2**31, 2**32, 2**63 - 1, -2**63, 2**62, -2**62, 123456789012345]

def rnd_simple_op(rng, dev):
    """dev: allow the operations that meet the recorded deviations (shift beyond length, ...)."""
    k = rng.random()
    fol = 0x20 if rng.random() < 0.08 else 0
    opaque = rng.choice([0, 0, 0, 0x40, 0x80, 0x08])
    if k < 0.16:
        return f_set(rnd_bytes(rng), fol | opaque, rnd_props(rng))
    if k < 0.22:
        return f_unset(fol)
    if k < 0.40:
        if dev and rng.random() < 0.04:
            return frame(2, 1 | fol, struct.pack("<q", rng.choice(NUMS))[:rng.choice([1, 2, 4])])     # short operand (open case / A21)
        return f_incr(rng.choice(NUMS) if rng.random() < 0.7 else rng.randrange(-2**63, 2**63), 1 | fol, rnd_props(rng))
    if k < 0.56:
        return f_append(rnd_bytes(rng), fol | opaque, rnd_props(rng))
    if k < 0.68:
        return f_shift(rng.choice([0, 1, 1, 2, 3, 5, 8]) if not dev else rng.choice([0, 1, 2, 3, 9, 40, 2**32 - 1]), 1 | fol)
    if k < 0.82:
        return f_push(rnd_bytes(rng, 0 if rng.random() < 0.1 else 1, 10), fol | opaque, rnd_props(rng))
    if k < 0.92:
        return f_pop(rng.choice([0, 1, 1, 2, 3, 100, 2**32 - 1]), 1 | fol)
    return f_arr([rnd_bytes(rng, 1, 5) for _ in range(rng.randint(0, 4))], 2 | fol, rnd_props(rng))

def rnd_op(rng, dev):
    if rng.random() < 0.12:
        # pipeline: with at most one value operation unless dev (the code applies sub-ops to the value before the pipeline)
        n = rng.randint(1, 4) if dev else 1
        subs = [rnd_simple_op(rng, dev) for _ in range(n)]
        if dev and rng.random() < 0.2:
            subs.append(f_pipe([rnd_simple_op(rng, dev)]))
        return f_pipe(subs, 0x20 if rng.random() < 0.05 else 0)
    return rnd_simple_op(rng, dev)

def gen_random(seed, i, key, dev):
    """A history over one key by three LockIds.  Without dev, SHIFT counts stay within what the generator
    knows to be the payload length (a local shadow of string length only - not an oracle)."""
    rng = random.Random((seed << 20) ^ (i * 2654435761 & 0xffffffff) ^ (7 if dev else 0))
    steps = []
    n = rng.randint(4, 14)
    cnt = rng.choice([0, 1, 2])
    for _ in range(n):
        lid = rng.randint(1, 3)
        data = rnd_op(rng, dev) if rng.random() < 0.85 else b""
        if not dev and data and (data[4] & 0x3f) == 4:
            # keep SHIFT inside the payload: precede it by a SET of known length in the same history
            ln = rng.randint(2, 9)
            steps.append(lock(lid, key, f_set(rnd_bytes(rng, ln, ln)), flag=2, cnt=cnt, rc=2))
            data = f_shift(rng.randint(0, ln), 1)
            steps.append(lock(lid, key, data, flag=2, cnt=cnt, rc=2))
            continue
        k = rng.random()
        if k < 0.40:
            steps.append(lock(lid, key, data, flag=rng.choice([0, 0, 2]), ex=rng.choice([30, 30, 3, 0]), to=rng.choice([0, 0, 4]),
                              cnt=cnt, rc=rng.choice([0, 1, 2])))
        elif k < 0.62:
            steps.append(lock(lid, key, data, flag=2, cnt=cnt, rc=2))
        elif k < 0.92:
            steps.append(unlock(lid, key, data, flag=rng.choice([0, 0, 0, 1]), rc=rng.choice([0, 1])))
        else:
            steps.append(tick(key, rng.choice([1, 2, 5])))
    return steps

def directed(key0):
    """Hand-shaped regression histories (value-operation shapes the alphabets above do not contain)."""
    scs = []
    def add(name, steps):
        scs.append({"name": name, "steps": steps, "mode": "fresh"})
    k = key0
    add("d-incr-overflow", [lock(1, k, f_incr(2**63 - 1)), lock(1, k, f_incr(1), flag=2), lock(1, k, f_incr(-2**63), flag=2), lock(1, k, f_incr(-1), flag=2), unlock(1, k, f_incr(5))])
    add("d-append-props", [lock(1, k + 1, f_set(b"v", 0, [(1, b"key")])), lock(1, k + 1, f_append(b"w", 0, [(1, b"zz")]), flag=2), lock(1, k + 1, f_shift(1), flag=2),
                           lock(1, k + 1, f_incr(3, 1, [(1, b"k2")]), flag=2), lock(1, k + 1, f_push(b"i", 0, [(1, b"k3")]), flag=2), lock(1, k + 1, f_pop(1), flag=2), unlock(1, k + 1)])
    add("d-waiter-chain", [lock(1, k + 2, f_set(b"a"), cnt=0), lock(2, k + 2, f_append(b"w"), to=5, cnt=0), lock(3, k + 2, f_append(b"z"), to=5, cnt=0),
                           unlock(1, k + 2, f_append(b"u")), unlock(2, k + 2, f_append(b"t")), unlock(3, k + 2)])
    add("d-refused", [lock(1, k + 3, f_set(b"a"), cnt=0), lock(2, k + 3, f_set(b"zz"), cnt=0), unlock(2, k + 3, f_set(b"yy")), lock(1, k + 3, f_append(b"q"), rc=0),
                      unlock(1, k + 3, f_unset()), unlock(1, k + 3, f_set(b"late"))])
    add("d-expiry", [lock(1, k + 4, f_set(b"a"), ex=2, cnt=1), lock(2, k + 4, f_append(b"b"), ex=30, cnt=1), tick(k + 4, 5), lock(2, k + 4, f_append(b"c"), flag=2), unlock(2, k + 4)])
    add("d-array", [lock(1, k + 5, f_arr([b"a", b"bb", b"ccc"])), lock(1, k + 5, f_pop(1), flag=2), lock(1, k + 5, f_push(b"dddd"), flag=2), lock(1, k + 5, f_pop(2), flag=2),
                    lock(1, k + 5, f_pop(9), flag=2), lock(1, k + 5, f_push(b"e"), flag=2), unlock(1, k + 5, f_pop(1))])
    add("d-edge-flag", [lock(1, k + 6, f_set(b"first", 0x20), cnt=1), lock(2, k + 6, f_set(b"second", 0x20), cnt=1), unlock(1, k + 6, f_append(b"-notlast", 0x20)),
                        unlock(2, k + 6, f_append(b"-last", 0x20))])
    add("d-incr-short-operand", [lock(1, k + 8, f_set(b"abc")), lock(1, k + 8, frame(2, 1, struct.pack("<i", 5)), flag=2), unlock(1, k + 8),
                                 tick(k + 8, 40), lock(1, k + 8, frame(2, 1, struct.pack("<i", 5)))])
    add("d-pipeline-single", [lock(1, k + 7, f_pipe([f_set(b"a")])), lock(1, k + 7, f_pipe([f_append(b"b")]), flag=2), lock(1, k + 7, f_pipe([f_pipe([f_incr(1)])]), flag=2), unlock(1, k + 7)])
    return scs

# ------------------------------------------------------------------ monitors (TLC trace validation)

MON_CFG = '''SPECIFICATION Spec
CONSTANTS
  TraceFile = "%(trace)s"
  Props = {"C15"}
POSTCONDITION TraceConsumed
CHECK_DEADLOCK FALSE
'''

def monitor(module, traces, workdir, timeout=3000):
    """Validate every trace file with the TLA+ trace spec.  Returns (viols, stats)."""
    def one(arg):
        i, tr = arg
        r = vtlc.run_tlc(SPECDIRS, module, MON_CFG % {"trace": tr}, os.path.join(workdir, f"tlc_{module}_{i}"), workers=1, timeout=timeout)
        return tr, r
    viols, stats = [], {"events": 0, "monitor_states": 0, "ops": 0, "agnostic": 0, "replies": 0, "wall_s": 0.0}
    t0 = time.time()
    with cf.ThreadPoolExecutor(max_workers=engine.NCPU) as ex:
        for tr, r in ex.map(one, list(enumerate(traces))):
            out = r["out"]
            st = vtlc.parse_stats(out)
            if r["rc"] == -9:
                raise InfraError(f"TLC timed out on {tr}")
            if "No error has been found" not in out or st is None:
                raise InfraError(f"TLC did not consume the trace file {tr} (trace spec / infrastructure problem, not a verdict):\n" + out[-3000:])
            with open(tr) as fh:
                n = sum(1 for _ in fh)
            if st["distinct"] != n + 1:
                raise InfraError(f"trace {tr}: {n} events but {st['distinct']} monitor states")
            stats["events"] += n
            stats["monitor_states"] += st["distinct"]
            for s in parse_tagged(out, "HUNG"):
                stats.setdefault("hung", []).append(json.loads(s))
            for s in parse_tagged(out, "MONSTAT"):
                d = json.loads(s)
                for k in ("ops", "agnostic", "replies"):
                    stats[k] += d.get(k, 0)
                if "ttl_judged" in d:
                    stats["ttl_judged"] = stats.get("ttl_judged", 0) + d["ttl_judged"]
            for v in vtlc.parse_viols(out):
                v["file"] = tr
                viols.append(v)
    stats["wall_s"] = round(time.time() - t0, 1)
    return viols, stats

def run_value_harness(binp, scs, workdir, tag):
    # short-lived driver processes: background loops of the server run on the wall clock (a driver process that
    # lived longer than 120 s died in TransparencyManager.Run), so the work is cut into shards of <= 6000 histories
    nshards = max(engine.NCPU, -(-len(scs) // 6000))
    res = engine.run_harness(binp, "TestVerifValue", scs, workdir, tag=tag, nshards=nshards, timeout=3000)
    traces = []
    for fin, fout, p in res:
        if p is not None:
            raise InfraError(f"value driver died on {fin} (harness problem - panics of the code under test are caught and recorded):\n"
                             + (p.stdout or "")[-3000:] + (p.stderr or "")[-2000:])
        traces.append(fout)
    return traces

# ------------------------------------------------------------------ self-test (binding demonstration)

def selftest_value(traces, workdir):
    """Corrupt ONE recorded field of an accepted history; the trace spec must reject it."""
    results = []
    want = {"post": "stored-value-differs-from-interpreter", "reply": "reply-not-value-before-operation"}
    for which, code in want.items():
        done = None
        for tr in traces:
            with open(tr) as fh:
                lines = fh.read().splitlines()
            starts = [i for i, x in enumerate(lines) if '"e":"begin"' in x[:60]]
            starts.append(len(lines))
            for a, b in zip(starts, starts[1:]):
                evs = [json.loads(x) for x in lines[a:b]]
                hit = None
                for j, e in enumerate(evs):
                    if e.get("e") != "vstep" or e["panic"] or not e["op"] or not e["replies"]:
                        continue
                    if which == "post" and e["post"]["locked"] > 0 and len(e["post"]["val"]) > 6 and e["post"]["val"] != e["pre"]["val"]:
                        e["post"]["val"][-1] = (e["post"]["val"][-1] + 1) % 256
                        e["probe"]["val"] = list(e["post"]["val"])
                        hit = f"step {e['i']} of {e['name']}: last byte of the stored value after the operation incremented"
                        break
                    if which == "reply" and len(e["replies"][0]["val"]) > 6 and e["pre"]["locked"] > 0:
                        e["replies"][0]["val"][-1] = (e["replies"][0]["val"][-1] + 1) % 256
                        hit = f"step {e['i']} of {e['name']}: last byte of the reply data incremented"
                        break
                if hit:
                    p = os.path.join(workdir, f"selftest_{which}.ndjson")
                    with open(p, "w") as fh:
                        fh.write("\n".join(json.dumps(x) for x in evs) + "\n")
                    # the uncorrupted history must be clean for the demonstration to mean anything
                    p0 = os.path.join(workdir, f"selftest_{which}_orig.ndjson")
                    with open(p0, "w") as fh:
                        fh.write("\n".join(lines[a:b]) + "\n")
                    v0, _ = monitor("MonValue", [p0], os.path.join(workdir, f"st_{which}_0"))
                    if v0:
                        hit = None
                        continue
                    v1, _ = monitor("MonValue", [p], os.path.join(workdir, f"st_{which}_1"))
                    done = {"corruption": hit, "rejected": any(v["code"] == code for v in v1), "codes": sorted({v["code"] for v in v1})}
                    break
            if done:
                break
        results.append(done or {"corruption": None, "rejected": None, "codes": []})
    return results

# ------------------------------------------------------------------ the check

MC_CFG = '''SPECIFICATION Spec
CONSTANTS
  Lids = {1, 2}
  MaxSteps = %(steps)d
  OpSet = "full"
  SwShift = %(shift)s
  SwPipe = %(pipe)s
  SwPop = %(pop)s
  Export = FALSE
VIEW view
INVARIANTS %(invs)s
%(props)s
CHECK_DEADLOCK FALSE
'''

def scen(name, steps, fresh=False):
    d = {"name": name, "steps": steps}
    # a clock tick sweeps every key of a world: histories that advance the clock get a world of their own, so the
    # shared world never ticks and no left-over waiter / holder of another history is ever woken or expired in it
    if fresh or any(s["op"] == "tick" for s in steps):
        d["mode"] = "fresh"
    return d

def cap_viols(out, viols, byname):
    per = {}
    for v in viols:
        c = (v.get("code"), json.dumps(v.get("detail", {}).get("cls", "")))
        per[c] = per.get(c, 0) + 1
        if per[c] <= MAXV_PER_CODE:
            out.viols.append((v, byname.get(v.get("name"))))
    return {f"{c[0]}/{json.loads(c[1])}": n for c, n in per.items()}

def run(prop, tier, seed):
    out = checklib.Outcome()
    wd = vbuild.scratch(f"vf_{prop}_")
    try:
        quick = tier == "quick"
        phases = {}
        tp = [time.time()]
        def phase(name):
            phases[name] = round(time.time() - tp[0], 1)
            tp[0] = time.time()
        # ---- (1) exhaustive design check, deviation switches off
        steps_mc = 4 if quick else 5
        cfg = MC_CFG % {"steps": steps_mc, "shift": "FALSE", "pipe": "FALSE", "pop": "FALSE",
                        "invs": "TypeOK NoPanic Refines Canonical ReplyChain HoldSane RefLaws", "props": "PROPERTY ActionProps"}
        r = vtlc.run_tlc(SPECDIRS[0], "ValueRegMC", cfg, os.path.join(wd, "mc"), workers=engine.NCPU, timeout=300 if quick else 2400)
        st = vtlc.parse_stats(r["out"])
        if st is None or "No error has been found" not in r["out"]:
            raise InfraError("ValueRegMC exhaustive check did not complete cleanly (design model, not a verdict on the code):\n" + r["out"][-3000:])
        mc_wall = r["wall"]
        phase("tlc_model_check")
        # ---- (2) the as-coded model: counterexamples become replay scripts
        cfg2 = MC_CFG % {"steps": 3, "shift": "TRUE", "pipe": "TRUE", "pop": "TRUE", "invs": "TypeOK CexExport", "props": ""}
        r2 = vtlc.run_tlc(SPECDIRS[0], "ValueRegMC", cfg2, os.path.join(wd, "mc2"), workers=engine.NCPU, timeout=600)
        st2 = vtlc.parse_stats(r2["out"])
        if st2 is None or "No error has been found" not in r2["out"]:
            raise InfraError("as-coded model run did not complete (design model, not a verdict on the code):\n" + r2["out"][-3000:])
        cex = {"panic": [], "refines": []}
        for s in sorted(set(parse_tagged(r2["out"], "CEX"))):
            kind, js = s.split(" ", 1)
            cex[kind].append(json.loads(js))
        rng = random.Random(seed)
        for k in cex:
            cex[k].sort(key=lambda h: (len(h), json.dumps(h)))
            short = cex[k][:10]
            rest = cex[k][10:]
            rng.shuffle(rest)
            cex[k] = short + rest[:30 if quick else 300]
        phase("tlc_as_coded")
        # ---- (3) behaviours of the model
        key = [100000]
        def nk():
            key[0] += 1
            return key[0]
        scs = []
        enum_stats = []
        hs, est, w1 = tlc_enumerate(wd, "enum_core", 3 if quick else 4, "core", 600 if quick else 2400)
        enum_stats.append({"alphabet": "core (7 operations + none)", "requests": 3 if quick else 4, "behaviours": len(hs), "complete": True, "replayed": len(hs), "wall_s": round(w1, 1)})
        if not quick and len(hs) > 150000:
            rng.shuffle(hs)
            hs = hs[:150000]
            enum_stats[-1]["complete"] = False
            enum_stats[-1]["replayed"] = len(hs)
        scs += [scen(f"enum-core-{i}", hist_to_steps(h, nk())) for i, h in enumerate(hs)]
        hs2, est2, w2 = tlc_enumerate(wd, "enum_full", 2 if quick else 3, "full", 600 if quick else 2400)
        enum_stats.append({"alphabet": "full (25 operations + none)", "requests": 2 if quick else 3, "behaviours": len(hs2), "complete": True, "replayed": len(hs2), "wall_s": round(w2, 1)})
        if len(hs2) > 100000:
            rng.shuffle(hs2)
            hs2 = hs2[:100000]
            enum_stats[-1]["complete"] = False
            enum_stats[-1]["replayed"] = len(hs2)
        scs += [scen(f"enum-full-{i}", hist_to_steps(h, nk())) for i, h in enumerate(hs2)]
        nsim = 3000 if quick else 40000
        # -simulate evaluates the export on every generated successor: each walk yields all its last requests
        hs3, w3 = tlc_simulate(wd, "sim_full", 7, "full", max(8, nsim // 40), seed, 900)
        rng.shuffle(hs3)
        hs3 = hs3[:nsim]
        scs += [scen(f"sim-full-{seed}-{i}", hist_to_steps(h, nk())) for i, h in enumerate(hs3)]
        n_model = len(scs)
        phase("tlc_behaviours")
        cex_scs = []
        for k in cex:
            for i, h in enumerate(cex[k]):
                cex_scs.append(scen(f"cex-{k}-{i}", hist_to_steps(h, nk()), fresh=True))
        scs += cex_scs
        # ---- (4) wide-range + directed
        nr = 1500 if quick else 30000
        rnd = [scen(f"rnd-{seed}-{i}", gen_random(seed, i, nk(), dev=False)) for i in range(nr)]
        rnd += [scen(f"rnddev-{seed}-{i}", gen_random(seed, i, nk(), dev=True)) for i in range(nr // 3)]
        direct = directed(nk() + 50)
        key[0] += 200
        scs += rnd + direct
        binp = vbuild.build_inpkg("server", wd)
        phase("build")
        traces = run_value_harness(binp, scs, os.path.join(wd, "run"), "v")
        phase("replay_on_real_code")
        # ---- (5) trace validation by TLC
        viols, mst = monitor("MonValue", traces, os.path.join(wd, "mon"))
        phase("tlc_trace_validation")
        byname = {sc["name"]: sc for sc in scs}
        # a call that did not return in wall-clock time: re-run the history alone, twice; a hang that shows every time is
        # a verdict (the real code blocked), one that does not is a scheduling accident of the machine and only counted
        hung = mst.get("hung", [])
        hang_report = {"seen": len(hung), "reproduced": 0}
        for hi, h in enumerate(hung[:5]):
            sc = byname.get(h["name"])
            if sc is None:
                continue
            again = 0
            for rep in range(2):
                tr2 = run_value_harness(binp, [dict(sc, mode="fresh")], os.path.join(wd, f"hang_{hi}_{rep}"), "h")
                _, m2 = monitor("MonValue", tr2, os.path.join(wd, f"hangmon_{hi}_{rep}"))
                again += 1 if m2.get("hung") else 0
            if again == 2:
                hang_report["reproduced"] += 1
                viols.append({"prop": prop, "code": "value-op-hang", "name": h["name"], "step": h["step"], "detail": {"cls": "other", "where": h["where"]}})
        vcounts = cap_viols(out, [v for v in viols if v["prop"] == prop], byname)
        cex_names = {v.get("name") for v in viols}
        cex_repro = {k: sum(1 for i in range(len(cex[k])) if f"cex-{k}-{i}" in cex_names) for k in cex}
        # ---- (7) self-test
        stest = selftest_value(traces, wd)
        for s in stest:
            if s["rejected"] is False:
                raise InfraError(f"self-test failed: the trace spec accepted a corrupted history ({s['corruption']})")
            if s["rejected"] is None:
                raise InfraError("self-test could not find a history to corrupt")
        phase("selftest")
        # ---- (6) Redis-style commands
        redis_cov = {}
        try:
            import importlib
            rc = importlib.import_module("checks.valuereg_redis")
        except ImportError:
            rc = None
        if rc is not None:
            redis_cov = rc.run_part(out, wd, tier, seed, binp)
        phase("redis_part")
        samples = [{"name": sc["name"], "steps": [{k: s[k] for k in ("op", "lid", "flag", "data") if k in s} for s in sc["steps"][:6]]}
                   for sc in (scs[:1] + scs[n_model - 1:n_model] + rnd[:1])]
        out.coverage = {
            "states": st["distinct"], "transitions": st["generated"], "traces_validated_against_impl": len(scs) + redis_cov.get("histories", 0),
            "samples": samples, "exhaustive": True,
            "exhaustive_scope": "the TLC state spaces of ValueRegMC / RedisCmdsMC at the stated bounds and the behaviour enumerations marked complete; simulated and random histories are samples",
            "model": {"module": "spec/ValueRegMC.tla (interpreter: spec/ValueReg.tla)",
                      "constants": f"1 key, 2 LockIds, Count 1, Rcount 1, 25 value operations over bytes {{x,y}} (+ none) on lock / re-lock / update / unlock / queued-then-woken requests, <= {steps_mc} requests",
                      "invariants": ["TypeOK", "NoPanic", "Refines (Dec(impl bytes) = reference value)", "Canonical", "ReplyChain", "HoldSane", "RefLaws",
                                     "FirstReplyIsValueBefore", "RefusedChangesNothing"],
                      "wall_s": round(mc_wall, 1)},
            "as_coded_model": {"constants": "same model, deviation switches shift/pipe/pop on, <= 3 requests, exploration stops at the first deviation",
                               "states": st2["distinct"] if st2 else None,
                               "counterexamples_replayed": {k: len(v) for k, v in cex.items()},
                               "counterexamples_reproduced_on_real_code": cex_repro},
            "tlc_enumerations": enum_stats, "tlc_simulated_behaviours": len(hs3),
            "random_histories": len(rnd), "directed_histories": len(direct),
            "monitor": {"module": "spec/mon/MonValue.tla", "events": mst["events"], "monitor_states": mst["monitor_states"],
                        "operations_judged": mst["ops"], "replies_judged": mst["replies"], "agnostic_cases": mst["agnostic"], "wall_s": mst["wall_s"]},
            "violation_counts": vcounts, "calls_without_return": hang_report,
            "selftest": stest,
            "redis": redis_cov, "phases_wall_s": phases,
            "evaluations": len(scs) + redis_cov.get("histories", 0),
            "distinct_nontrivial": len({json.dumps([(s.get("op"), s.get("lid"), s.get("flag"), s.get("data"), s.get("rc"), s.get("to"), s.get("ex")) for s in sc["steps"]]) for sc in scs}) + redis_cov.get("distinct", 0),
            "rule": "one evaluation = one history replayed on the real code and validated by the TLA+ trace spec; distinct = distinct request sequences (keys ignored)",
        }
        out.assumptions = [
            "engine S is sequential: one goroutine, virtual clock; the atomicity of a value operation with its grant/release under concurrency rests on the shard mutex (C01/C03 gated engine), not re-examined here",
            "ack-required locks (value roll-back by ProcessRecoverLockData), EXECUTE sub-commands, AOF replay of values are not driven",
            "open cases are adopted, not judged: value of a key nobody holds, re-lock with Expried=0 by a holder, INCR with a non-8-byte operand, POP on an array with an overlong item length (a panic is still judged)",
        ]
        return out
    finally:
        shutil.rmtree(wd, ignore_errors=True)

"""Extra check (growth of the specification, NOT one of the 20 listed properties): the lock-engine request flags that RE-ISSUE
commands or report success without a hold - unlock-to-wait (unlock flag 0x08), reverse-key re-issue on timeout / expiry
(timeout / expiry flag 0x0080), less-lock-version (timeout flag 0x4000), keepalive timers (timeout / expiry flag 0x8000) -
and the executor that runs the re-issued commands.  The promises are written in the header of spec/LockEngineExt.tla.

  (1) TLC exhaustive design checks of spec/LockEngineExt.tla (aspect configs spec/mc/LockEngineExt_*.cfg) plus the regression
      run of the named deviation (a timeout re-issue that kept its flags would loop: ChainBound must FAIL there)
  (2) TLC -simulate behaviours of LockEngineExtSim -> scenarios -> the REAL engine and executor (engine X,
      harness/inpkg/server/zz_verif_lockext_test.go); the replies of every driver step are compared with the model's
      (refinement: evidence, never a verdict)
  (3) seeded wide-range histories, directed histories, "free" histories (executor runners not gated: real concurrency)
  (4) every recorded trace validated by TLC against the trace specification spec/mon/MonLockExt.tla  (verdicts)
  (5) binding self-test: recorded traces are corrupted and must be rejected

Run through bin/extra:  extra lockext quick|thorough
"""
import json, os, random, shutil, time, copy, collections
import concurrent.futures as cf
import vbuild, vtlc, engine, checklib, gen_lockext
from vbuild import VERIF, InfraError

NAME = "lockext"
KNOWN_PROP = "extra:lockext"
SPEC = os.path.join(VERIF, "spec")

MC = {
    "quick": [("rev", 3, 600), ("uw", 3, 600), ("lv", 3, 600), ("keep", 3, 600)],
    "thorough": [("rev", 3, 1500), ("uw", 3, 1500), ("lv", 3, 1500), ("keep", 3, 1500), ("rev3", 4, 1500), ("keeprev", 4, 1500)],
}
DEVIATIONS = [("RevKeepsTimeoutFlags", "loop", "ChainBound")]

TFBITS = {"rev": 0x0080, "lv": 0x4000, "keep": 0x8000}
EFBITS = {"rev": 0x0080, "keep": 0x8000}
UFBITS = {"": 0, "towait": 0x08, "firsttowait": 0x09}

def read_cfg(sub, name):
    with open(os.path.join(SPEC, sub, name)) as fh:
        return fh.read()

# ------------------------------------------------------------------ (1) model checking

def run_mc(name, workers, timeout, wd):
    cfg = read_cfg("mc", f"LockEngineExt_{name}.cfg")
    r = vtlc.run_tlc(SPEC, "LockEngineExtSim", cfg, os.path.join(wd, "mc_" + name), workers=workers, timeout=timeout, heap="4g")
    st = vtlc.parse_stats(r["out"])
    done = "Model checking completed. No error has been found." in r["out"]
    if r["rc"] == -9:
        return {"config": name, "exhaustive": False, "wall_s": round(r["wall"], 1), "generated": st["generated"] if st else 0,
                "distinct": st["distinct"] if st else 0, "note": "did not finish within its budget"}
    if not done:
        raise InfraError(f"the design check LockEngineExt_{name} fails on the model (a TLC counterexample on a model is never a verdict; "
                         "the spec needs attention):\n" + r["out"][-2500:])
    return {"config": name, "exhaustive": True, "wall_s": round(r["wall"], 1), "generated": st["generated"], "distinct": st["distinct"]}

def run_deviation(did, name, inv, wd):
    cfg = read_cfg("mc", f"LockEngineExt_{name}.cfg")
    r = vtlc.run_tlc(SPEC, "LockEngineExtSim", cfg, os.path.join(wd, "dev_" + name), workers=3, timeout=600, heap="3g")
    if f"Invariant {inv} is violated" not in r["out"]:
        raise InfraError(f"deviation {did}: invariant {inv} is expected to FAIL on the deviating model (config {name}) but TLC did not refute it:\n" + r["out"][-1500:])
    return {"deviation": did, "config": name, "invariant": inv, "refuted": True, "wall_s": round(r["wall"], 1)}

ACTIONS = ["ALock", "AUnlock", "ATimeout", "AExpiry", "AExec", "ATick", "AClose"]

def run_coverage(wd):
    """no action of the model is dead: TLC -coverage on the reverse-key config with two requests"""
    import re
    cfg = read_cfg("mc", "LockEngineExt_rev3.cfg").replace("MaxReq = 3", "MaxReq = 2")
    r = vtlc.run_tlc(SPEC, "LockEngineExtSim", cfg, os.path.join(wd, "mc_cov"), workers=2, timeout=900, heap="3g", extra=["-coverage", "1"])
    if "Model checking completed. No error has been found." not in r["out"]:
        raise InfraError("coverage run of LockEngineExt did not complete:\n" + r["out"][-1500:])
    taken = {}
    for m in re.finditer(r"^<(A[A-Za-z]+) line \d+, col \d+ to line \d+, col \d+ of module LockEngineExt>: (\d+):(\d+)", r["out"], re.M):
        taken[m.group(1)] = max(taken.get(m.group(1), 0), int(m.group(3)))
    dead = [a for a in ACTIONS if not taken.get(a)]
    if dead:
        raise InfraError(f"dead actions in the model (vacuous design check): {dead}")
    return {a: taken[a] for a in ACTIONS}

# ------------------------------------------------------------------ (2) behaviours of the model

def sim_behaviours(n, seed, wd, timeout):
    cfg = read_cfg("sim", "LockEngineExt_sim.cfg")
    r = vtlc.run_tlc(SPEC, "LockEngineExtSim", cfg, os.path.join(wd, "sim"), workers=1, timeout=timeout, simulate=f"num={n}", depth=150, seed=seed)
    if r["rc"] == -9:
        raise InfraError("TLC -simulate of LockEngineExtSim timed out")
    if "Error:" in r["out"] and "BEHAVIOUR" not in r["out"].split("Error:")[0][-200:] and ("is violated" in r["out"] or "Exception" in r["out"] or "evaluating" in r["out"]):
        raise InfraError("TLC -simulate of LockEngineExtSim reports an error (the model needs attention, not a verdict):\n" + r["out"][-2500:])
    hs = set()
    for ln in r["out"].splitlines():
        ln = ln.strip()
        if ln.startswith('"BEHAVIOUR '):
            try:
                hs.add(json.loads(ln)[10:])
            except Exception:
                pass
    hists = sorted(hs)
    keep = []
    for i, h in enumerate(hists):
        core = h[:-1]
        if i + 1 < len(hists) and hists[i + 1].startswith(core + ","):
            continue
        keep.append(json.loads(h))
    return keep

def behaviour_to_scenario(h, idx, seed):
    steps, expect = [], []
    for st in h:
        tf = sum(TFBITS[x] for x in st["tf"])
        ef = sum(EFBITS[x] for x in st["ef"])
        if st["op"] == "tick":
            steps.append(gen_lockext.tick(1))
            expect.append(None)
        elif st["op"] == "lock":
            steps.append(gen_lockext.lock(st["conn"], st["key"], st["lid"], to=st["to"], ex=st["ex"], cnt=st["cnt"], rc=st["rc"], tf=tf, ef=ef))
            expect.append(st["exp"])
        elif st["op"] == "unlock":
            steps.append(gen_lockext.unlock(st["conn"], st["key"], st["lid"], flag=UFBITS[st["fl"]], to=st["to"], ex=st["ex"], cnt=st["cnt"], rc=st["rc"], tf=tf, ef=ef))
            expect.append(st["exp"])
        elif st["op"] == "exec":
            steps.append(gen_lockext.execn(st["n"]))
            expect.append(("x", st["exp"]))
        elif st["op"] == "close":
            steps.append(gen_lockext.close(st["conn"]))
            expect.append(None)
        else:
            raise InfraError("unknown model action " + st["op"])
    sc = gen_lockext.scenario(f"tlc-{seed}-{idx}", steps)
    sc["_expect"] = expect
    return sc

def compare_with_model(sc, evs):
    """replies of every client request / executor step of the real code against the model's (first difference, or None)"""
    def norm(groups):
        # executor steps that follow each other without a client step in between: which of several timers due in one second
        # fires (and pushes its re-issue) first is not fixed by the model - compare such runs as multisets
        res, run = [], []
        for g in groups:
            if isinstance(g, tuple):
                run.append(g[1])
            else:
                res += sorted(run, key=json.dumps); run = []
                res.append(g)
        return res + sorted(run, key=json.dumps)
    want = norm([x for x in sc["_expect"] if x is not None])
    got, cur, isx = [], None, False
    for e in evs:
        if e["e"] == "req" and not e.get("drain"):
            cur, isx = [], False
        elif e["e"] == "exec":
            cur, isx = [], True
        elif e["e"] == "skip":
            return f"request skipped by the driver: {e['why']}"
        elif e["e"] == "reply" and cur is not None:
            cur.append({"rid": e["rid"], "res": e["res"], "key": e["key"], "lid": e["lid"]})
        elif e["e"] in ("ret", "xret") and cur is not None:
            got.append(("x", cur) if isx else cur)
            cur = None
    got = norm(got[:len(want)] if len(got) >= len(want) else got)
    for i, (w, g) in enumerate(zip(want, got)):
        if w != g:
            return f"step {i}: model {json.dumps(w)} code {json.dumps(g)}"
    if len(got) != len(want):
        return f"{len(want)} driver steps in the model, {len(got)} recorded"
    return None

# ------------------------------------------------------------------ real code

def strip(sc):
    return {k: v for k, v in sc.items() if not k.startswith("_")}

def run_real(binp, scs, wd, tag, timeout, out):
    res = engine.run_harness(binp, "TestVerifLockExt", [strip(s) for s in scs], os.path.join(wd, tag), tag=tag, timeout=timeout)
    files = []
    for fin, fout, p in res:
        if p is not None:
            cv = engine.crash_verdict(KNOWN_PROP, binp, "TestVerifLockExt", fin, fout, p, os.path.join(wd, tag), code="code-panicked", timeout=300)
            if cv is None:
                raise InfraError(f"harness process failed ({fin}):\n" + ((p.stdout or "")[-1500:] + (p.stderr or "")[-1500:]))
            v, sc = cv
            out.viols.append((v, sc))
            engine.drop_unfinished(fout)
        files.append(fout)
    traces = {}
    for f in files:
        cur = None
        for ln in open(f):
            e = json.loads(ln)
            if e["e"] == "begin":
                cur = traces.setdefault(e["name"], [])
            if cur is not None:
                cur.append(e)
    return files, traces

# ------------------------------------------------------------------ (5) self-test

def selftest(traces, wd):
    """corrupt one recorded field of accepted histories: the trace specification must reject each"""
    def find(pred):
        for n in sorted(traces):
            evs = traces[n]
            for i, e in enumerate(evs):
                if pred(evs, i, e):
                    return n, i
        return None, None
    cases = []
    # a re-issued command that kept a timeout flag
    n, i = find(lambda evs, i, e: e["e"] == "exec" and e["tf"] == 0 and e["ef"] != 0 or (e["e"] == "exec" and e["tf"] == 0))
    if n is None:
        raise InfraError("self-test: no recorded history with an executor step")
    t = copy.deepcopy(traces[n]); t[i]["tf"] = 0x80
    cases.append(("re-issued command keeps the reverse flag", "reissue-terms-wrong", t))
    # the reply of a re-issued request shown on the original key
    n, i = find(lambda evs, i, e: e["e"] == "reply" and not e["drv"] and e["res"] == 0 and e["key"] < 0)
    if n is not None:
        t = copy.deepcopy(traces[n]); t[i]["key"] = -t[i]["key"]
        cases.append(("re-issue answered on the original key", "reply-on-wrong-key", t))
    # a re-issue that never reached the executor
    n, i = find(lambda evs, i, e: e["e"] == "xq" and len(e["tasks"]) == 1)
    t = copy.deepcopy(traces[n]); t[i]["tasks"] = []
    cases.append(("re-issue missing from the executor", "executor-queue-mismatch", t))
    # a second answer for one issue
    n, i = find(lambda evs, i, e: e["e"] == "reply" and not e["drv"] and e["res"] in (0, 8))
    t = copy.deepcopy(traces[n]); t.insert(i + 1, copy.deepcopy(t[i]))
    cases.append(("re-issue answered twice", "reply-without-issue", t))
    # a less-version success that leaves a hold behind
    n, i = find(lambda evs, i, e: e["e"] == "snap" and i >= 3 and evs[i - 3]["e"] == "reply" and evs[i - 3]["res"] == 0 and evs[i - 3]["ct"] == 1
                and evs[i - 3]["lrc"] == 0 and evs[i - 3]["ex"] > 0 and evs[i - 3]["tf"] & 0x4000 and evs[i - 2]["e"] == "ret")
    if n is not None:
        t = copy.deepcopy(traces[n])
        rp = t[i - 3]
        for k in t[i]["keys"]:
            if k["key"] == rp["key"]:
                k["holders"].append({"lid": 4242, "depth": 1, "cnt": 0, "rc": 0, "exp": 0, "rid": rp["rid"], "tf": rp["tf"], "ef": rp["ef"], "ex": rp["ex"], "to": rp["to"], "ack": 255})
                k["locked"] += 1
        cases.append(("less-version success leaves a hold", "hold-set-mismatch", t))
    # a keepalive waiter timed out although its connection is open
    n, i = find(lambda evs, i, e: e["e"] == "close" and any(x["e"] == "reply" and x["res"] == 8 and x["tf"] & 0x8000 and x["conn"] == e["conn"] for x in evs[i:]))
    if n is not None:
        t = copy.deepcopy(traces[n]); del t[i]
        cases.append(("keepalive request timed out with its connection open", "keepalive-timeout-while-open", t))
    files = []
    base = os.path.join(wd, "selftest_base.ndjson")
    names = sorted({c[2][0]["name"] for c in cases})
    with open(base, "w") as fh:
        for k, nm in enumerate(names):
            for e in traces[nm]:
                fh.write(json.dumps(e) + "\n")
    for k, (what, code, t) in enumerate(cases):
        p = os.path.join(wd, f"selftest_{k}.ndjson")
        with open(p, "w") as fh:
            for e in t:
                fh.write(json.dumps(e) + "\n")
        files.append(p)
    viols, _ = engine.monitor_traces("MonLockExt", [base] + files, [KNOWN_PROP], os.path.join(wd, "selftest_tlc"))
    byf = collections.defaultdict(list)
    for v in viols:
        byf[v["file"]].append(v["code"])
    if byf[base]:
        raise InfraError(f"self-test: the uncorrupted histories {names} are rejected: {byf[base]}")
    res = []
    for (what, code, t), p in zip(cases, files):
        if code not in byf[p]:
            raise InfraError(f"self-test: corrupted history ({what}) was not rejected with {code} by the trace specification (codes {byf[p]})")
        res.append({"corruption": what, "history": t[0]["name"], "rejected_with": sorted(set(byf[p]))})
    return res

# ------------------------------------------------------------------ evidence

def measure(traces):
    c = collections.Counter()
    shapes = set()
    for n, evs in traces.items():
        reqs, hist_kinds = {}, set()
        for e in evs:
            if e["e"] == "req":
                reqs[e["id"]] = e
                if e["cmd"] == "U" and e["flag"] & 8:
                    c["unlock_to_wait_requests"] += 1
            elif e["e"] == "exec":
                c["executor_steps"] += 1
                c["reissue_after_expiry" if e["ef"] == 0 and e["rid"] in reqs and reqs[e["rid"]]["ef"] & 0x80 and e["tf"] == reqs[e["rid"]]["tf"] else "reissue_after_timeout"] += 1
                if e["idx"] > 0:
                    c["executor_steps_out_of_order"] += 1
                if e["key"] >= 900:
                    c["reissues_on_palindromic_key"] += 1
            elif e["e"] == "xq":
                c["max_pending_tasks"] = max(c["max_pending_tasks"], len(e["tasks"]))
            elif e["e"] == "reply":
                c["replies"] += 1
                r = reqs.get(e["rid"])
                if r and r["cmd"] == "L" and e["res"] == 0 and e["lid"] != r["lid"] and r["tf"] & 0x4000:
                    c["less_version_successes"] += 1
                    hist_kinds.add("lv")
                if r and r["cmd"] == "U" and e["res"] == 0 and r["flag"] & 8:
                    c["unlock_to_wait_accepted"] += 1
                    hist_kinds.add("uw")
                    if e["lid"] != r["lid"] and not r["flag"] & 1:
                        c["unlock_to_wait_version_bumps"] += 1
                if not e["drv"]:
                    c["replies_from_executor_goroutines"] += 1
                    hist_kinds.add("x%d" % e["res"])
                if e["res"] == 8 and e["tf"] & 0x8000:
                    c["keepalive_timeouts_after_close"] += 1
                    hist_kinds.add("kat")
                if e["res"] == 9 and e["ef"] & 0x8000:
                    c["keepalive_expiries_after_close"] += 1
                    hist_kinds.add("kae")
            elif e["e"] == "panic":
                c["panics"] += 1
        shapes.add((evs[0].get("mode"), tuple(sorted(hist_kinds))))
    c["distinct_nontrivial"] = len(shapes)
    return dict(c)

def run(tier, seed):
    out = checklib.Outcome()
    rng = random.Random(seed * 7919 + 23)
    wd = vbuild.scratch("vf_xle_")
    cov = {"rule": "TLC trace specification MonLockExt over recorded behaviour of the real LockDB.Lock / UnLock / doTimeOut / doExpried / LockDBExecutor"}
    try:
        quick = tier != "thorough"
        n_sim, n_rand, n_free = (150, 400, 40) if quick else (800, 3000, 200)
        binp = vbuild.build_inpkg("server", wd)
        with cf.ThreadPoolExecutor(max_workers=6) as ex:
            mc_f = [ex.submit(run_mc, n, w, t, wd) for (n, w, t) in MC["quick" if quick else "thorough"]]
            dev_f = [ex.submit(run_deviation, d, n, inv, wd) for (d, n, inv) in DEVIATIONS]
            cov_f = ex.submit(run_coverage, wd)
            behs = sim_behaviours(n_sim, seed, wd, 600 if quick else 2400)
            rng.shuffle(behs)
            behs = behs[:n_sim]
            sim_scs = [behaviour_to_scenario(b, i, seed) for i, b in enumerate(behs)]
            rand_scs = [gen_lockext.random_history(random.Random(seed * 1000003 + i), f"rnd-{seed}-{i}") for i in range(n_rand)]
            dir_scs = gen_lockext.directed()
            free_scs = gen_lockext.free_histories(random.Random(seed * 31 + 5), n_free, f"free-{seed}")
            free_scs += [dict(gen_lockext.random_history(random.Random(seed * 1000003 + 500000 + i), f"rndfree-{seed}-{i}", mode="free")) for i in range(n_free)]
            allscs = sim_scs + rand_scs + dir_scs + free_scs
            byname = {s["name"]: s for s in allscs}
            t0 = time.time()
            files, traces = run_real(binp, allscs, wd, "x", 1500 if quick else 5400, out)
            cov["harness_wall_s"] = round(time.time() - t0, 1)
            missing = [s["name"] for s in allscs if s["name"] not in traces or traces[s["name"]][-1]["e"] != "end"]
            if missing and not out.viols:
                raise InfraError(f"{len(missing)} histories were never recorded (first: {missing[0]})")
            t0 = time.time()
            viols, mst = engine.monitor_traces("MonLockExt", files, [KNOWN_PROP], os.path.join(wd, "mon"), timeout=1500 if quick else 5400)
            cov["monitor_wall_s"] = round(time.time() - t0, 1)
            for v in viols:
                nm = v.get("name")
                v.pop("file", None); v.pop("line", None); v.pop("trace", None)
                out.viols.append((v, strip(byname[nm]) if nm in byname else None))
            div = []
            for s in sim_scs:
                if s["name"] in traces:
                    d = compare_with_model(s, traces[s["name"]])
                    if d:
                        div.append({"history": s["name"], "first": d[:400]})
            bad = {v.get("name") for v, _ in out.viols}
            good = {n: t for n, t in traces.items() if n not in bad and t[-1]["e"] == "end" and t[0].get("mode") == "seq"}
            try:
                st = selftest(good, wd)
            except InfraError as exn:
                if out.viols and ("no recorded history" in str(exn) or "NoneType" in str(exn)):
                    st = [{"skipped": str(exn)}]
                else:
                    raise
            except (TypeError, KeyError) as exn:
                if out.viols:
                    st = [{"skipped": "no accepted history of the needed shape: " + str(exn)}]
                else:
                    raise InfraError("self-test: no accepted history of the needed shape: " + str(exn))
            mcs = [f.result() for f in mc_f]
            devs = [f.result() for f in dev_f]
            cov["model_action_coverage"] = cov_f.result()
        m = measure(traces)
        if not out.viols:
            for need in ("executor_steps", "less_version_successes", "unlock_to_wait_accepted", "keepalive_timeouts_after_close", "keepalive_expiries_after_close",
                         "reissue_after_expiry", "reissue_after_timeout"):
                if not m.get(need):
                    raise InfraError(f"vacuous run: no recorded history exercised `{need}`")
        cov.update({
            "states": sum(x["distinct"] for x in mcs), "transitions": sum(x["generated"] for x in mcs), "model_checks": mcs,
            "deviation_counterexamples": devs,
            "traces_validated_against_impl": len(traces), "evaluations": mst["events"], "monitor_states": mst["monitor_states"],
            "behaviours_from_model": len(sim_scs), "random_histories": len(rand_scs), "directed_histories": len(dir_scs), "free_histories": len(free_scs),
            "refinement_divergences": len(div), "refinement_divergence_samples": div[:5],
            "samples": [{"history": s["name"], "steps": strip(s)["steps"][:12]} for s in (sim_scs[:1] + rand_scs[:1] + dir_scs[:1])],
            "selftest": st,
        })
        cov.update(m)
        out.assumptions = [
            "engine X: real LockDB.Lock / UnLock, real sweeps on the virtual clock, real LockDBExecutor (two runner goroutines per shard); in mode seq the runners "
            "are parked at the yield point lock.mgr.got and released one at a time, in mode free they run unhindered and only order-independent clauses are judged",
            "a connection is a harness ServerProtocol with a Stream whose `closed` field the keepalive test reads; closing a connection sets that field (what "
            "Stream.Close does); wills, proxies and re-routing of late replies belong to C18",
            "tree locks (lock / unlock flag 0x10), value data, ack-required requests, role changes, millisecond and minute units are outside this check; two "
            "live queued requests of one LockId on one key (finding A12) end the judgement of that history",
            "a client request is sent only when no executor task is pending (the pending task's low-priority mark makes every client request on that shard wait)",
        ]
        out.coverage = cov
        return out
    finally:
        if not os.environ.get("VERIF_KEEP"):
            shutil.rmtree(wd, ignore_errors=True)

def replay(path):
    with open(path) as fh:
        rp = json.load(fh)
    sc = rp["replay"]
    wd = vbuild.scratch("vf_xler_")
    try:
        out = checklib.Outcome()
        binp = vbuild.build_inpkg("server", wd)
        files, traces = run_real(binp, [sc], wd, "rp", 600, out)
        viols, _ = engine.monitor_traces("MonLockExt", files, [KNOWN_PROP], os.path.join(wd, "mon"))
        for v in viols:
            print(json.dumps({k: v[k] for k in v if k not in ("file",)})[:900])
        for v, _ in out.viols:
            print(json.dumps(v)[:900])
        return 1 if viols or out.viols else 0
    finally:
        shutil.rmtree(wd, ignore_errors=True)

"""Check C09 (followers apply the leader's log exactly and converge) - engine P (process cluster + fault proxy).

  (1) TLC exhaustive check of spec/Replication.tla (leader log / files / ring, link, follower pipelines, cuts anywhere,
      reconnect, restart on a stale directory, rotation + compaction): AppendedExact, AppliedExact, ImageSound,
      Convergence, ResumeOnlyFromRing; the named deviations of the model are shown to break them (thorough tier)
  (2) TLC -simulate exports complete fault behaviours of that model (which follower, which phase, which record, cut /
      restart / rotation, how much the leader logs in between); each is mapped onto a REAL cluster: slock leader +
      1-2 slock followers as child processes, every leader->follower link through a byte-level fault proxy, a
      reference tap on the leader, a raw-frame workload client.  Directed and seeded plans add handshake cuts, splits,
      size-driven rotation, ring overflow while a follower is away, a slow follower.
  (3) observations (leader log as streamed, per connection: resume position asked / answer / every record delivered
      completely / cut offset; at quiescence the records in every node's files, the live state of every node, the state
      recovered from a copy of every directory and from exactly the delivered records by the server's own start-up path
      in the in-package harness) are written as one ndjson trace per scenario
  (4) every trace is validated by TLC against the TLA+ trace spec spec/mon/MonRepl.tla (the property, over observations)
  (5) binding self-test: three corruptions of an accepted trace must each be rejected
"""
import json, os, random, shutil, struct, time, threading, concurrent.futures as cf
import vbuild, vtlc, engine, checklib, replcluster as rc, gen_repl
from vbuild import VERIF, InfraError
from checks import ringpart

PROPS = ["C09"]
MANIFEST = {"C09": dict(level="fault_enumeration", design="5/C09", engine="P",
    technique="TLC on the TLA+ Replication model (exhaustive, small bounds) + TLC-generated fault behaviours replayed on a real slock process cluster through a byte-level fault proxy; recorded observations validated by the TLA+ trace spec MonRepl",
    text="The Replication model (ring eviction, resume-by-id, full transfer, three follower pipelines, cuts anywhere, restart on a stale directory, rotation/compaction) is exhausted for 1 follower / 4-5 records / ring 2; its environment behaviours (cut phase + record coordinate, restarts, rotations, leader work in between) are transported onto real processes with byte-offset cuts (all 64 residues of a record and value-frame offsets over runs).  A scenario passes only if TLC accepts its trace: the stream after every accepted resume continues at the successor of the asked position, live streams are contiguous, a refused resume is followed by a full transfer, full transfers are complete (when the leader never rotated), each follower's files hold exactly the delivered records, every follower was given the log up to the leader's last record, and live / recovered states agree (keys, LockIds, depths, values, deadlines within 1 s).",
    note="Trusted: TLC, the fault proxy and the tap (a plain replication client of the checker), the admin SHOW/INFO commands, the in-package recovery harness.  Schedules inside the processes are free-running: this enumerates fault sequences, not interleavings.  Leader restarts, ack-required locks, more than 2 followers and millisecond/minute expiries are not exercised.")}

IDM = 1000000

MC_CFG = '''SPECIFICATION Spec
CONSTANTS
  F = {%(F)s}
  MaxLog = %(maxlog)d
  RingCap = 2
  MaxCuts = %(cuts)d
  MaxRot = %(rot)d
  MaxRestart = %(restart)d
  Keys = {1, 2}
  ResumeChecksRing = %(d1)s
  SeqCheck = %(d2)s
  DrainBeforeReconnect = %(d3)s
  NilCursorChecked = %(d4)s
  NoPosPreset = %(d5)s
VIEW view
CONSTRAINT Bounded
INVARIANTS TypeOK AppendedExact AppliedExact ImageSound Convergence
PROPERTY ResumeOnlyFromRing
CHECK_DEADLOCK FALSE
'''

def mc_cfg(**kw):
    d = dict(F="1", maxlog=4, cuts=2, rot=1, restart=1, d1="TRUE", d2="TRUE", d3="TRUE", d4="TRUE", d5="TRUE")
    d.update(kw)
    return MC_CFG % d

# ------------------------------------------------------------------------------------------------ cluster runs

def run_cluster(binp, wd, sc, seed):
    d = os.path.join(wd, "cl_" + sc["name"])
    os.makedirs(d, exist_ok=True)
    cl = rc.Cluster(binp, d, sc, seed)
    try:
        obs = cl.run()
    except rc.ReferenceLost as ex:
        return {"inconclusive": str(ex), "dir": d, "wall": 0}
    except rc.TapStall as ex:
        return {"tapstall": {"nrec": ex.nrec, "want": ex.want, "secs": ex.secs}, "events": cl.log.snapshot(), "dir": d, "wall": 0,
                "nodes": {}, "issued": len(cl.wl.issued), "quiescent": False}
    if obs.get("tap_lost"):
        return {"inconclusive": obs["tap_lost"], "dir": d, "wall": obs["wall"]}
    if obs.get("max_lag", 0) > 8 and not obs["quiescent"]:
        # the checker itself was not scheduled for seconds at a time (shared machine): a follower that is "not caught
        # up in time" in such a run says nothing about the code
        return {"inconclusive": "machine stalled (%.1f s scheduling gap) and the cluster did not quiesce in time" % obs["max_lag"], "dir": d, "wall": obs["wall"]}
    obs["dir"] = d
    if os.environ.get("VERIF_KEEP"):
        with open(os.path.join(d, "events.ndjson"), "w") as fh:
            for e in obs["events"]:
                fh.write(json.dumps({k: e[k] for k in e if not k.startswith("_") and k != "raw"}) + "\n")
    return obs

def write_given_dir(path, recs):
    """An AOF directory holding exactly the given (record, value frame) sequence, in order."""
    os.makedirs(path, exist_ok=True)
    with open(os.path.join(path, "append.aof.1"), "wb") as fh, open(os.path.join(path, "append.aof.1.dat"), "wb") as dh:
        fh.write(b"SLOCKAOF" + struct.pack("<HH", 1, 0))
        for buf, data in recs:
            b = bytearray(buf)
            b[0], b[1] = 62, 0
            fh.write(bytes(b))
            if data:
                dh.write(data)

def given_records(events, f):
    """Records delivered completely to follower f since its last accepted full transfer."""
    have, mode = [], None
    for e in events:
        if e.get("f") != f:
            continue
        if e["e"] == "sync":
            mode = e["mode"]
        elif e["e"] == "resp" and e["err"] == "" and mode == "scratch":
            have = []
        elif e["e"] == "W":
            have.append((e["_buf"], e["_data"]))
    return have

def key_int(hexkey):
    return int.from_bytes(bytes.fromhex(hexkey)[:8], "little")

def norm_live(live, persisted_only):
    keys = []
    for k, v in live.items():
        db, kh = k.split("/")
        if db != "0":
            continue
        holds = [{"lid": key_int(h[0]), "depth": h[1], "exp": h[2], "unit": 1} for h in v["holds"] if (h[3] or not persisted_only)]
        if not holds:
            continue
        keys.append({"k": key_int(kh), "data": v["data"] or "", "holds": sorted(holds, key=lambda x: x["lid"])})
    return sorted(keys, key=lambda x: x["k"])

def norm_rsnap(ev):
    keys = []
    for k in ev["keys"]:
        if k["db"] != 0 or not k["holders"]:
            continue
        holds = [{"lid": h["lid"], "depth": h["depth"], "exp": h["exp"], "unit": 1} for h in k["holders"]]
        keys.append({"k": k["key"], "data": k["data"] if k["hasdata"] else "", "holds": sorted(holds, key=lambda x: x["lid"])})
    return sorted(keys, key=lambda x: x["k"])

def eid(e):
    return e["idx"] * IDM + e["off"]

def assemble(sc, obs, hev):
    """One scenario's trace for MonRepl: reference log first, then what the proxies saw in order, then quiescence,
    files and states.  Only representation is changed here (ids as one integer, states in one shape)."""
    nf = len([n for n in obs["nodes"] if n.startswith("f")])
    rot = bool(sc.get("cfg", {}).get("rewrite")) or any(st["op"] == "rotate" for st in sc["steps"])
    # holds of the scenario that expire while it runs: the transfer reader (like the start-up reader) leaves their records out
    shortlived = any(rq.get("exp", 9000) <= 30 for st in sc["steps"] if st["op"] == "script" for rq in st["reqs"])
    tr = [{"e": "begin", "name": sc["name"], "nf": nf, "rot": rot, "shortlived": shortlived}]
    evs = obs["events"]
    for e in evs:
        if e["e"] == "L":
            tr.append({"e": "L", "id": eid(e), "h": e["h"], "hr": e["hr"]})
    for e in evs:
        k = e["e"]
        if k == "conn":
            tr.append({"e": "conn", "f": e["f"], "cn": e["cn"]})
        elif k == "sync":
            tr.append({"e": "sync", "f": e["f"], "cn": e["cn"], "mode": e["mode"], "id": eid(e)})
        elif k == "resp":
            tr.append({"e": "resp", "f": e["f"], "cn": e["cn"], "err": e["err"], "id": eid(e)})
        elif k == "W":
            tr.append({"e": "W", "f": e["f"], "cn": e["cn"], "ph": e["ph"], "id": eid(e), "h": e["h"]})
        elif k in ("fdone", "disc"):
            tr.append({"e": k, "f": e["f"], "cn": e["cn"]})
        elif k == "cut":
            tr.append({"e": "cut", "f": e["f"], "cn": e["cn"], "ph": e["ph"], "rec": e["rec"], "res": e["res"], "ulen": e["ulen"]})
        elif k in ("fkill", "fstart", "split", "stall", "holdstart"):
            tr.append({"e": k, "f": e["f"]})
    for d in obs.get("died", []):
        tr.append({"e": "died", "node": d["node"], "log": d["log"][-600:]})
    tr.append({"e": "quiet", "nf": nf, "ok": bool(obs["quiescent"]), "why": obs.get("why", "")})
    # files
    byname = {}
    for e in hev:
        if e["e"] == "F":
            byname.setdefault(e["node"], []).append(e)
    for node in sorted(obs["nodes"]):
        for e in byname.get(node, []):
            tr.append({"e": "F", "node": node, "file": e["file"], "id": e["idx"] * IDM + e["off"], "h": e["h"], "hr": e["hr"]})
        idxs = [int(fn[11:]) for fn in os.listdir(obs["nodes"][node]["copy"]) if fn.startswith("append.aof.") and fn[11:].isdigit()]
        tr.append({"e": "fend", "node": node, "f": 0 if node == "L" else int(node[1:]), "cur": max(idxs) if idxs else 0})
    # states
    tr.append({"e": "snap", "node": "L", "keys": norm_live(obs["nodes"]["L"]["live"], True)})
    pairs = []
    rs = {e["node"]: e for e in hev if e["e"] == "rsnap"}
    for node in sorted(obs["nodes"]):
        if node == "L":
            continue
        f = node[1:]
        tr.append({"e": "snap", "node": node, "keys": norm_live(obs["nodes"][node]["live"], False)})
        if node in rs:
            tr.append({"e": "snap", "node": node + "r", "keys": norm_rsnap(rs[node])})
        if "G" + f in rs:
            tr.append({"e": "snap", "node": "G" + f, "keys": norm_rsnap(rs["G" + f])})
            pairs.append({"ref": "G" + f, "node": node, "code": "follower-state-differs-from-delivered-log", "f": int(f)})
            pairs.append({"ref": "G" + f, "node": node + "r", "code": "follower-files-state-differs-from-delivered-log", "f": int(f)})
            pairs.append({"ref": "L", "node": "G" + f, "code": "delivered-log-state-differs-from-leader", "f": int(f)})
    tr.append({"e": "end", "name": sc["name"], "pairs": pairs})
    return tr

# ------------------------------------------------------------------------------------------------ self-test

def corruptions(tr):
    """Each corruption changes ONE recorded observation of an accepted trace; yields (name, expected codes, trace)."""
    out = []
    ws = [i for i, e in enumerate(tr) if e["e"] == "W" and e["ph"] == "live"]
    mid = [i for i in ws if i + 1 in ws and i - 1 in ws]
    if mid:
        i = mid[len(mid) // 2]
        out.append((f"line {i+1}: one delivered live record removed from the proxy's observations", {"live-stream-not-contiguous"}, tr[:i] + tr[i + 1:]))
    # two records of the LIVE part of a follower's file (ids from its last handshake id on) are swapped
    hs_id, mode = {}, {}
    for e in tr:
        if e["e"] == "sync":
            mode[e["f"]] = e["mode"]
        elif e["e"] == "resp" and e["err"] == "" and mode.get(e["f"]) == "scratch":
            hs_id[e["f"]] = e["id"]
    fs = [i for i, e in enumerate(tr) if e["e"] == "F" and e["node"] != "L" and e["id"] >= hs_id.get(int(e["node"][1:]), 1 << 40)]
    pair = [i for i in fs if i + 1 in fs and tr[i]["node"] == tr[i + 1]["node"]]
    if pair:
        i = pair[len(pair) // 2]
        t2 = list(tr)
        t2[i], t2[i + 1] = t2[i + 1], t2[i]
        out.append((f"lines {i+1},{i+2}: two records of a follower's file swapped", {"follower-files-differ-from-delivered-records"}, t2))
    sn = [i for i, e in enumerate(tr) if e["e"] == "snap" and e["node"].startswith("f") and not e["node"].endswith("r") and e["keys"]]
    if sn:
        i = sn[0]
        t3 = json.loads(json.dumps(tr))
        t3[i]["keys"][0]["holds"][0]["depth"] += 1
        out.append((f"line {i+1}: depth of one hold in a follower's live state incremented", {"follower-state-differs-from-delivered-log"}, t3))
    sy = [i for i, e in enumerate(tr) if e["e"] == "sync" and e["mode"] == "resume"]
    if sy:
        i = sy[0]
        t4 = json.loads(json.dumps(tr))
        t4[i]["id"] -= 1
        out.append((f"line {i+1}: resume position asked by the follower decremented", {"follower-resumes-from-wrong-position"}, t4))
    return out

def selftest(traces_by_name, wd):
    """Corrupt accepted traces; every corruption must be rejected with the expected code."""
    res, files, exp = [], [], []
    want = {"live", "file", "state", "resume"}
    for name, tr in traces_by_name.items():
        for desc, codes, t2 in corruptions(tr):
            kind = "live" if "live record" in desc else "file" if "swapped" in desc else "state" if "depth" in desc else "resume"
            if kind not in want:
                continue
            want.discard(kind)
            p = os.path.join(wd, f"selftest_{kind}.ndjson")
            with open(p, "w") as fh:
                for e in t2:
                    fh.write(json.dumps(e) + "\n")
            files.append(p)
            exp.append((desc, codes, name))
        if not want:
            break
    if not files:
        return [{"corruption": None, "rejected": None}]
    viols, _ = engine.monitor_traces("MonRepl", files, ["C09"], os.path.join(wd, "selftest"))
    for p, (desc, codes, name) in zip(files, exp):
        got = sorted({v["code"] for v in viols if v["file"] == p})
        res.append({"corruption": desc, "scenario": name, "rejected": bool(set(got) & codes), "codes": got})
    return res

# ------------------------------------------------------------------------------------------------ the check

def run(prop, tier, seed):
    out = checklib.Outcome()
    out.level = "fault_enumeration"
    wd = vbuild.scratch(f"vf_{prop}_")
    try:
        quick = tier == "quick"
        # (1) design model, exhaustive - runs in the background while the cluster scenarios execute
        mc_res = {}
        def mc_job(name, cfg, workers, timeout):
            r = vtlc.run_tlc(os.path.join(VERIF, "spec"), "Replication", cfg, os.path.join(wd, "mc_" + name), workers=workers, timeout=timeout)
            mc_res[name] = r
        ncpu = engine.NCPU
        jobs = [("one", mc_cfg(maxlog=3 if quick else 5), max(2, ncpu // 2), 1200 if quick else 3000)]
        if not quick:
            jobs.append(("two", mc_cfg(F="1, 2", maxlog=3, cuts=2, rot=0, restart=0), max(2, ncpu // 3), 3000))
            for i, dev in enumerate(("d1", "d2", "d3", "d4", "d5")):
                jobs.append(("dev_" + dev, mc_cfg(**{dev: "FALSE"}), 2, 900))
        mc_threads = [threading.Thread(target=mc_job, args=j, daemon=True) for j in jobs]
        for t in mc_threads:
            t.start()
        # (2) fault behaviours from the model
        with open(os.path.join(VERIF, "spec", "sim", "Replication_sim.cfg")) as fh:
            simcfg = fh.read()
        if quick:
            simcfg = simcfg.replace("MaxCuts = 3", "MaxCuts = 2")      # each cut costs the follower's 5 s reconnect back-off
        rs = vtlc.run_tlc(os.path.join(VERIF, "spec"), "Replication", simcfg, os.path.join(wd, "sim"), workers=1, timeout=600,
                          simulate="num=%d" % (400 if quick else 3000), depth=140, seed=seed)
        behs = gen_repl.parse_behaviours(rs["out"].splitlines())
        if len(behs) < 5:
            raise InfraError("behaviour generation from Replication.tla failed:\n" + rs["out"][-2000:])
        nb = 6 if quick else 100
        chosen = gen_repl.select(behs, seed, nb, max_cuts=2 if quick else 3)
        scs = [gen_repl.behaviour_to_scenario(h, seed, i) for i, h in enumerate(chosen)]
        scs += gen_repl.directed(seed, quick)
        scs.append(gen_repl.known_compaction_value(seed))
        scs.append(gen_repl.known_empty_ring(seed))
        scs += [gen_repl.seeded(seed, i) for i in range(3 if quick else 60)]
        # (3) real cluster
        binp = rc.build_server(wd)
        hbin = vbuild.build_inpkg("server", wd)
        ring = ringpart.run_part(out, tier, seed, os.path.join(wd, "ring"), binp=hbin)     # data-structure half: the ring buffer itself
        obs_by = {}
        par = max(3, min(12, ncpu))
        with cf.ThreadPoolExecutor(max_workers=par) as ex:
            futs = {ex.submit(run_cluster, binp, wd, sc, seed): sc for sc in scs}
            for fu in cf.as_completed(futs):
                sc = futs[fu]
                obs_by[sc["name"]] = fu.result()          # InfraError propagates
        inconclusive = {n: o["inconclusive"] for n, o in obs_by.items() if "inconclusive" in o}
        if len(inconclusive) > max(1, len(scs) // 4):
            raise InfraError("the reference tap was dropped and refused in too many scenarios: " + json.dumps(inconclusive)[:1500])
        scs = [sc for sc in scs if sc["name"] not in inconclusive]
        # given-record directories + recovery of every directory in the in-package harness
        hscs = []
        for sc in scs:
            obs = obs_by[sc["name"]]
            if "tapstall" in obs:
                continue
            if obs.get("tap_error"):
                raise InfraError(f"reference tap failed in {sc['name']}: {obs['tap_error']}")
            nodes = []
            for node, nd in sorted(obs["nodes"].items()):
                nodes.append({"name": node, "dir": nd["copy"]})
                if node != "L":
                    g = os.path.join(obs["dir"], "given_" + node)
                    write_given_dir(g, given_records(obs["events"], int(node[1:])))
                    nodes.append({"name": "G" + node[1:], "dir": g})
            hscs.append({"name": sc["name"], "nodes": nodes})
        hres = engine.run_harness(hbin, "TestVerifRepl", hscs, os.path.join(wd, "hrun"), tag="r", timeout=900)
        hev_by = {}
        for fin, fout, p in hres:
            if p is not None:
                raise InfraError(f"recovery harness died on {fin}:\n" + (p.stdout or "")[-3000:] + (p.stderr or "")[-2000:])
            cur = None
            with open(fout) as fh:
                for ln in fh:
                    e = json.loads(ln)
                    if e["e"] == "begin":
                        cur = e["name"]
                        hev_by[cur] = []
                    elif cur is not None:
                        hev_by[cur].append(e)
        # (4) traces -> TLA+ monitor
        tdir = os.path.join(wd, "traces")
        os.makedirs(tdir, exist_ok=True)
        traces, tr_by = [], {}
        for sc in scs:
            if "tapstall" in obs_by[sc["name"]]:
                o = obs_by[sc["name"]]
                tr = [{"e": "begin", "name": sc["name"], "nf": 0, "rot": False, "shortlived": False}]
                tr += [{"e": "L", "id": eid(e), "h": e["h"], "hr": e["hr"]} for e in o["events"] if e["e"] == "L"]
                tr += [dict(o["tapstall"], e="tapstall"), {"e": "end", "name": sc["name"], "pairs": []}]
            else:
                tr = assemble(sc, obs_by[sc["name"]], hev_by.get(sc["name"], []))
            tr_by[sc["name"]] = tr
            p = os.path.join(tdir, sc["name"] + ".ndjson")
            with open(p, "w") as fh:
                for e in tr:
                    fh.write(json.dumps(e) + "\n")
            traces.append(p)
        viols, mst = engine.monitor_traces("MonRepl", traces, [prop], os.path.join(wd, "mon"))
        byname = {sc["name"]: sc for sc in scs}
        for v in viols:
            sc = byname.get(v.get("name"))
            payload = None
            if sc is not None:
                obs = obs_by[sc["name"]]
                payload = {"scenario": {k: sc[k] for k in sc if k != "model"}, "model_behaviour": sc.get("model"), "seed": seed,
                           "proxy_events": [{k: e[k] for k in e if not k.startswith("_") and k != "raw"} for e in obs["events"] if e["e"] not in ("L", "W", "note")][:200],
                           "requests_issued": obs["issued"]}
            out.viols.append((v, payload))
        codes_by = {}
        for v in viols:
            codes_by.setdefault(v.get("name"), []).append(v["code"])
        # (5) self-test on accepted traces
        bad = {v.get("name") for v in viols}
        stests = selftest({n: t for n, t in tr_by.items() if n not in bad}, wd)
        for stt in stests:
            if stt["rejected"] is False:
                raise InfraError(f"self-test failed: the trace spec accepted a corrupted trace ({stt['corruption']}; codes {stt.get('codes')})")
        # design model results
        for t in mc_threads:
            t.join()
        model = {}
        states = trans = 0
        for name, cfgtxt, _, _ in jobs:
            r = mc_res.get(name)
            if r is None:
                raise InfraError("TLC job " + name + " did not run")
            st = vtlc.parse_stats(r["out"])
            if name.startswith("dev_"):
                hit = [x for x in ("AppendedExact", "AppliedExact", "Convergence", "ImageSound", "ResumeOnlyFromRing") if (x + " is violated") in r["out"]]
                if not hit:
                    raise InfraError(f"deviation {name} of Replication.tla did not break any invariant (vacuous model?):\n" + r["out"][-1500:])
                model[name] = {"violates": hit, "wall_s": round(r["wall"], 1)}
                continue
            if r["rc"] == -9 or st is None or "No error has been found" not in r["out"]:
                raise InfraError(f"Replication exhaustive check ({name}) did not complete cleanly (design model, not a verdict on the code):\n" + r["out"][-3000:])
            model[name] = {"distinct_states": st["distinct"], "generated": st["generated"], "wall_s": round(r["wall"], 1)}
            states += st["distinct"]
            trans += st["generated"]
        # coverage, measured
        cov = {"cuts": 0, "cut_phases": {}, "residues": set(), "value_frame_cuts": 0, "resume_accepted": 0, "resume_refused": 0, "full_transfers": 0,
               "leader_closed": 0, "restarts": 0, "splits": 0, "stalls": 0, "records_logged": 0, "records_delivered": 0, "rotated_scenarios": 0, "followers": 0}
        for sc in scs:
            obs = obs_by[sc["name"]]
            mode = {}
            idxs = set()
            for e in obs["events"]:
                k = e["e"]
                if k == "cut":
                    cov["cuts"] += 1
                    cov["cut_phases"][e["ph"]] = cov["cut_phases"].get(e["ph"], 0) + 1
                    if e["res"] < 64:
                        cov["residues"].add(e["res"])
                    else:
                        cov["value_frame_cuts"] += 1
                elif k == "sync":
                    mode[e["f"]] = e["mode"]
                elif k == "resp":
                    if e["err"] == "ERR_NOT_FOUND":
                        cov["resume_refused"] += 1
                    elif e["err"] == "":
                        cov["resume_accepted" if mode.get(e["f"]) == "resume" else "full_transfers"] += 1
                elif k == "disc" and e["why"] == "leader-closed":
                    cov["leader_closed"] += 1
                elif k == "fkill":
                    cov["restarts"] += 1
                elif k == "split":
                    cov["splits"] += 1
                elif k in ("stall", "holdstart"):
                    cov["stalls"] += 1
                elif k == "L":
                    cov["records_logged"] += 1
                    idxs.add(e["idx"])
                elif k == "W":
                    cov["records_delivered"] += 1
            cov["rotated_scenarios"] += 1 if len(idxs) > 1 else 0
            cov["followers"] += max(0, len(obs["nodes"]) - 1)
        cov["residues_covered"] = len(cov["residues"])
        cov["residues"] = sorted(cov["residues"])
        samples = []
        for sc in scs[:2]:
            samples.append({"name": sc["name"], "steps": sc["steps"][:10], "model_behaviour": (sc.get("model") or [])[:14]})
        out.coverage = {
            "states": states, "transitions": trans, "traces_validated_against_impl": len(scs), "samples": samples, "exhaustive": True,
            "model": {"module": "spec/Replication.tla", "configs": model,
                      "invariants": ["TypeOK", "AppendedExact", "AppliedExact", "ImageSound", "Convergence", "ResumeOnlyFromRing"]},
            "tlc_behaviours_generated": len(behs), "tlc_behaviours_replayed": len(chosen), "directed_scenarios": len([s for s in scs if s["src"] == "directed"]),
            "seeded_scenarios": len([s for s in scs if s["src"] == "seeded"]),
            "faults": cov, "ring_refinement": ring,
            "monitor": {"module": "spec/mon/MonRepl.tla", "events": mst["events"], "monitor_states": mst["monitor_states"]},
            "selftest": stests, "reported_codes_by_scenario": codes_by,
            "inconclusive_scenarios": inconclusive, "reference_from_leader_file": sorted(n for n, o in obs_by.items() if o.get("reference") == "leader-file"), "tap_reconnects": sum(o.get("tap_reconnects", 0) for o in obs_by.values()),
            "evaluations": len(scs), "distinct_nontrivial": len({json.dumps(s["steps"], sort_keys=True) for s in scs}),
            "rule": "one evaluation = one fault scenario executed on a real leader+follower(s) process cluster and its recorded trace validated by the TLA+ trace spec; distinct = distinct step lists",
            "cluster_wall_s": {n: o["wall"] for n, o in list(obs_by.items())[:40]},
        }
        out.assumptions = [
            "fault sequences are enumerated (from the TLA+ model, plus directed and seeded plans); the schedule inside each process is free-running",
            "the reference log is what a never-cut replication client of the checker (tap) received directly from the leader; the workload is paced so that the tap never lags by more than a few records",
            "holds use second-granularity expiries of 900-3000 s with the persist-immediately flag, so nothing expires during a run; deadlines are compared with a tolerance of 1 s",
            "followers are restarted (stale directory) only while idle; the leader is never restarted",
            "state differences that consist only of a key's value (or a re-entrant depth) in a scenario where the leader compacted its files are the known finding R1 (compaction drops the records of released holders), reported as such; R2 R3 R4 are repaired in /repo, their scenarios stay as regressions",
        ]
        return out
    finally:
        if os.environ.get("VERIF_KEEP"):
            print("scratch kept:", wd)
        else:
            shutil.rmtree(wd, ignore_errors=True)

"""Check C13 "No client byte stream can crash the server" (engine W).

  (1) TLC enumerates ALL paths  coarse^(<=PrefixLen) . detail  of spec/ProtoSession.tla over the input-class
      alphabet of spec/ProtoClasses.tla and checks the design invariants of the generator / expectation
  (2) every path is concretised into bytes (lib/protoconc.py: class representative + VERIF_SEED-derived fill,
      write boundaries of the fragmentation class) and fed to the REAL Server.handle over net.Pipe by
      harness/inpkg/server/zz_verif_proto_test.go, in child processes; a death of a child is attributed to
      the journaled delivery in flight
  (3) every recorded trace is validated by TLC against the trace spec spec/mon/MonProto.tla: verdict clauses
      (connection goroutine panicked / server process died / other connection not served), binding (every
      recorded class is a member of the spec's alphabet) and refinement (observed response class within the
      expectation of the session model; a divergence is logged, never a verdict)
  (4) every distinct panic signature is re-run alone WITHOUT the harness's recover: the process must die
  (5) binding self-test: recorded fields of accepted trace lines are corrupted and must be rejected
  (6) request sequences: lock-family histories on engine S, panics judged by spec/mon/MonCrash.tla
  (7) the OUTPUT path: spec/OutBuf.tla models the 4096-byte writer buffer of a binary connection as coded (buffered batches,
      flush rule, direct writes); TLC checks it exhaustively at small constants (spec/OutBufMC.tla: every reply size, an
      asynchronous replier), enumerates at the real constants every batch shape whose replies end at each position relative
      to the buffer boundary (spec/OutBufGen.tla); lib/outbufconc.py turns each behaviour into pipelined request frames whose
      replies have exactly these sizes; spec/mon/MonOutBuf.tla judges the recorded reply streams (C13 clauses; completeness
      of the reply stream as observation; sizes of the server's writes and reply order as refinement of the model)
Every server process runs under an address-space limit (run_child): a multi-gigabyte allocation ends that process, not the machine.
"""
import json, os, random, re, shutil, time, subprocess, concurrent.futures as cf
import vbuild, vtlc, engine, checklib, protoconc
from vbuild import VERIF, InfraError

PROPS = ["C13"]

MANIFEST = {"C13": dict(
    level="exploration", design="5/C13", engine="W",
    technique="TLA+ input-class session model (ProtoSession) and implementation-shaped output-buffer model (OutBuf) enumerated exhaustively by TLC -> every path / reply-size pattern replayed as bytes into the real Server.handle; traces validated by TLC against the trace specs MonProto / MonOutBuf",
    text="TLC enumerates every path (session-level prefix, then one class) over an alphabet of several thousand input classes: every binary command type x flag / db / field class, "
         "value frames of every boundary length (0..65, fitted, 1 MiB cap, cap+1, 2^32-1, truncated) x value-operation header (stage, type, data flag) x body class incl. nested EXECUTE / PIPELINE, "
         "CALL methods x content length x protobuf payload class, every registered text command x positional-argument class x option keyword in every tail position, RESP-level malformations, "
         "seeded random / mutated streams, fragmentation classes (byte-wise, all 2-way splits, header/length splits, split first frame); and, for the output side, every pipelined batch shape whose replies "
         "(with / without value payload, PING) end at each position relative to the boundary of the connection's 4096-byte writer buffer (TLA+ model OutBuf of the buffer as coded, checked exhaustively at small "
         "constants, patterns enumerated at the real constants: every residue inside the last 64 bytes, exactly full, one byte over, values that bypass the buffer up to 64 KiB; one write, split writes, one frame per "
         "write; text GET / LOCK replies around 1024 and 4096 bytes). Each path is concretised into bytes and fed to the real "
         "connection code (protocol sniffing, binary and text protocol objects, lock engine, admin commands) of a real leader instance with its sweepers running; a panic of the connection goroutine "
         "(recovered only at the very top of the goroutine, where the server has nothing, and re-run without the recover to see the process die), a death of the process, or a second / fresh connection "
         "that is no longer served is a violation, judged by the TLA+ trace spec. Exploration level: coverage is per input class, not per byte value.",
    note="Trusted: TLC; lib/protoconc.py (class -> bytes); the in-package driver (net.Pipe instead of TCP: one write = at most one read, no kernel buffering; server built with tag verif, wall-clock sweepers on); "
         "panic site = first frame of the stack inside slock; every server process has an address-space limit of 4 GiB (VERIF_PROTO_MEM_MB): an allocation that does not fit ends the process as it would on a host of that size. "
         "A truncated / garbled reply on the client's own connection is recorded as an observation, not as a C13 violation. Not generated: SHUTDOWN and SLAVEOF host port (they stop / demote the server by design), arbiter (replset) CALL methods (instance is not a replset member), "
         "follower / transparency protocol objects. TLA+ cannot quantify over byte values: absence of a panic is shown for the class representatives and the seeded variants only.")}

GEN_CFG = '''SPECIFICATION Spec
CONSTANTS
  PrefixLen = %(prefix)d
  Detail = "%(detail)s"
  TailLen = %(tail)d
  LockPairs = %(pairs)d
  OpDepth = %(opdepth)d
  Variants = %(variants)d
  FragLevel = %(frag)d
INVARIANTS TypeOK CoarseInUniverse SniffOnlyFirst AdminTextOrigin ExpectTotal MalformedNeverOk Census Export
PROPERTY ClosedIsFinal
CHECK_DEADLOCK FALSE
'''

MON_CFG = '''SPECIFICATION Spec
CONSTANTS
  TraceFile = "%(trace)s"
  Props = {"C13"}
  TailLen = %(tail)d
  LockPairs = %(pairs)d
  OpDepth = %(opdepth)d
  Variants = %(variants)d
  FragLevel = %(frag)d
POSTCONDITION TraceConsumed
CHECK_DEADLOCK FALSE
'''

SPECDIRS = [os.path.join(VERIF, "spec"), os.path.join(VERIF, "spec", "mon")]
# the children mostly sleep (read windows, close waits, probes): three per core, all shards at once
NSHARDS = 3 * engine.NCPU

# ------------------------------------------------------------------ (1) generator

def generate(params, workdir, timeout):
    r = vtlc.run_tlc(SPECDIRS[0], "ProtoSession", GEN_CFG % params, workdir, workers=engine.NCPU, timeout=timeout)
    out = r["out"]
    st = vtlc.parse_stats(out)
    if r["rc"] == -9:
        raise InfraError("ProtoSession generator timed out")
    if st is None or "No error has been found" not in out:
        keep = "\n".join(l for l in out.splitlines() if not l.startswith('"BEHAVIOUR'))
        raise InfraError("ProtoSession generator / design check did not complete cleanly (model problem, not a verdict on the code):\n" + keep[-3000:])
    paths, census = [], None
    for ln in out.splitlines():
        if ln.startswith('"BEHAVIOUR '):
            paths.append(json.loads(json.loads(ln)[10:]))
        elif ln.startswith('"CENSUS '):
            census = json.loads(json.loads(ln)[7:])
    if census is None or len(paths) < 100:
        raise InfraError("ProtoSession generator printed too few behaviours")
    # deterministic order whatever the worker interleaving was
    paths.sort(key=lambda p: json.dumps(p, sort_keys=True))
    return paths, census, st, r["wall"]

# ------------------------------------------------------------------ (2) real code

def write_shards(delivs, workdir, nshards):
    os.makedirs(workdir, exist_ok=True)
    nshards = max(1, min(nshards, len(delivs)))
    files = []
    fhs = []
    for i in range(nshards):
        fin = os.path.join(workdir, f"w_in_{i}.ndjson")
        files.append((fin, os.path.join(workdir, f"w_trace_{i}.ndjson")))
        fhs.append(open(fin, "w"))
    for j, d in enumerate(delivs):
        fhs[j % nshards].write(json.dumps(d) + "\n")
    for fh in fhs:
        fh.close()
    return files

PANIC_RE = re.compile(r"^(panic: .*|fatal error: .*)$", re.M)
FRAME_RE = re.compile(r"^(github\.com/snower/slock/[^\s(]+(?:\([^)]*\))?[^\s(]*)\(.*\n\t(\S+):\d+", re.M)

def kind_of(msg):
    for k in ("index out of range", "slice bounds out of range", "nil pointer dereference"):
        if k in msg:
            return k
    if "makeslice" in msg:
        return "makeslice: len out of range"
    return re.sub(r"\d+", "N", msg)[:120]

def death_info(text):
    """(kind, site, first line) of the panic / fatal error that killed a child, from its stderr+stdout"""
    m = PANIC_RE.search(text)
    if not m:
        return None
    msg = m.group(1)
    tail = text[m.end():]
    # for "panic:" the first goroutine listed is the panicking one
    site = "unknown"
    for fm in FRAME_RE.finditer(tail):
        if "zz_verif_" in fm.group(2):
            continue
        site = fm.group(1).replace("github.com/snower/slock/", "")
        break
    return kind_of(msg), site, msg[:300]

# Every server process of engine W runs with an address-space limit (ulimit -v): the machine is shared, and a server that
# answers one small frame with a multi-gigabyte allocation must end itself (Go: "fatal error: out of memory", a death like
# any other: judged by the trace spec, confirmed alone under the same limit), not the machine.  A fresh child has ~2 GiB of
# address space mapped; the limit leaves it 2 GiB more.  VERIF_PROTO_MEM_MB=0 switches the limit off.
MEM_MB = int(os.environ.get("VERIF_PROTO_MEM_MB", "4096"))

def run_child(binpath, env, cwd, timeout):
    e = dict(vbuild.GOENV)
    e.update(env)
    e.setdefault("TMPDIR", cwd)          # the children's scratch data directories go away with the check's scratch directory
    args = [binpath, "-test.run", "^TestVerifProto$", "-test.count=1", "-test.timeout", str(timeout) + "s"]
    if MEM_MB > 0:
        args = ["/bin/sh", "-c", 'ulimit -v %d; exec "$0" "$@"' % (MEM_MB * 1024)] + args
    return subprocess.run(args, cwd=cwd, env=e, capture_output=True, text=True, timeout=timeout + 30)

def read_lines(path):
    if not os.path.exists(path):
        return []
    with open(path) as fh:
        return fh.read().splitlines()

def run_shard(binpath, fin, fout, workdir, linger, norecover=False, timeout=1500):
    """run one shard to completion, restarting the child after every death.  returns (deaths, restarts)"""
    for p in (fout, fout + ".journal"):
        if os.path.exists(p):
            os.remove(p)
    with open(fin) as fh:
        inputs = [json.loads(x) for x in fh if x.strip()]
    skip, deaths, startup_deaths = 0, [], 0
    for attempt in range(400):
        tmpd = fout + ".tmp"
        os.makedirs(tmpd, exist_ok=True)
        env = {"VERIF_IN": fin, "VERIF_OUT": fout, "VERIF_PROTO_SKIP": str(skip), "VERIF_PROTO_LINGER_MS": str(linger), "TMPDIR": tmpd}
        if norecover:
            env["VERIF_PROTO_NORECOVER"] = "1"
        njournal = len(read_lines(fout + ".journal"))
        try:
            p = run_child(binpath, env, workdir, timeout)
        except subprocess.TimeoutExpired:
            raise InfraError(f"engine W child timed out on {fin}")
        if p.returncode == 0 and "PASS" in p.stdout:
            done_idx = [json.loads(x)["idx"] for x in read_lines(fout) if x.strip() and json.loads(x).get("e") == "d"]
            if max(done_idx + [0]) >= len(inputs):
                return deaths
            skip = max(done_idx + [skip])          # the child asked for a fresh process (too many abandoned worlds)
            continue
        text = (p.stderr or "") + "\n" + (p.stdout or "")
        info = death_info(text)
        if info is None:
            # killed from outside (the kernel's OOM killer picks victims machine-wide) or some other non-panic exit:
            # nothing the client bytes did that we can name; retry from where the journal says we were, then give up
            startup_deaths += 1
            STARTUP_DEATHS.append(f"rc={p.returncode} " + (p.stderr or "")[-600:])
            if startup_deaths > 3:
                raise InfraError(f"engine W child failed on {fin} (rc={p.returncode}) without a panic / fatal error (infrastructure):\n" + (p.stderr or "")[-1500:] + "\n" + (p.stdout or "")[-800:])
            done_idx = [json.loads(x)["idx"] for x in read_lines(fout) if x.strip() and json.loads(x).get("e") == "d"]
            skip = max(done_idx + [skip])
            continue
        begun = None
        for ln in read_lines(fout + ".journal")[njournal:]:
            parts = ln.split(" ", 2)
            if parts[0] == "B":
                begun = int(parts[1])
        if begun is None:
            # no client byte was involved: not a verdict for C13.  (seen once under extreme machine load: a start-up race
            # inside slock, TransparencyManager.Run dereferencing its not-yet-assigned slock field.)  retry, then give up
            startup_deaths += 1
            STARTUP_DEATHS.append(text[-1500:])
            if startup_deaths > 3:
                raise InfraError(f"engine W child died before starting any delivery of {fin} (infrastructure):\n" + text[-3000:])
            continue
        done_idx = {json.loads(x)["idx"] for x in read_lines(fout) if x.strip() and json.loads(x).get("e") == "d"}
        # in flight: begun but its trace line was not written.  otherwise the process died between deliveries or
        # in the final linger: a delayed effect (timer, sweeper goroutine) of an earlier delivery of this shard
        inflight = begun not in done_idx
        d = inputs[begun - 1]
        kind, site, msg = info
        if site == "unknown":
            # no frame of slock's own code on the dying goroutine's stack: the harness (or the Go test runner) failed, not the server
            raise InfraError(f"engine W child died outside slock's code on {fin} (infrastructure):\n" + text[:3000])
        ev = {"e": "d", "idx": begun, "name": d["name"] + ("" if inflight else " (+later)"), "cls": [s["cls"] for s in d["steps"]], "obs": [],
              "panic": False, "kind": kind, "site": site, "msg": msg, "probe": "skipped", "probe2": "skipped", "done": False, "hclosed": False,
              "path": d["path"], "inflight": inflight}
        with open(fout, "a") as fh:
            fh.write(json.dumps(ev) + "\n")
        deaths.append(ev)
        if len(DEATH_TEXTS) < 6 or site not in {t["site"] for t in DEATH_TEXTS}:
            DEATH_TEXTS.append({"site": site, "kind": kind, "delivery": ev["name"], "stderr_head": (p.stderr or "")[:2500]})
        skip = begun
        if skip >= len(inputs):
            return deaths
    raise InfraError(f"engine W: more than 200 child deaths on {fin}")

STARTUP_DEATHS = []
DEATH_TEXTS = []

def run_real(binpath, files, workdir, linger):
    res = []
    def one(job):
        return job, run_shard(binpath, job[0], job[1], workdir, linger)
    with cf.ThreadPoolExecutor(max_workers=NSHARDS) as ex:
        for job, deaths in ex.map(one, files):
            res.append((job, deaths))
    return res

# ------------------------------------------------------------------ (3) TLA+ trace spec

def parse_tagged(out, tag):
    res = []
    pre = '"' + tag + ' '
    for line in out.splitlines():
        line = line.strip()
        if line.startswith(pre):
            try:
                res.append(json.loads(json.loads(line)[len(tag) + 1:]))
            except Exception:
                pass
    return res

def monitor(traces, params, workdir, timeout=1200):
    """validate every trace with MonProto.  returns (viols, diverges, binds, stats)"""
    def one(arg):
        i, tr = arg
        cfg = MON_CFG % dict(params, trace=tr)
        r = vtlc.run_tlc(SPECDIRS, "MonProto", cfg, os.path.join(workdir, f"mon_{i}"), workers=1, timeout=timeout)
        return tr, r
    viols, divs, binds, nstates, nev = [], [], [], 0, 0
    with cf.ThreadPoolExecutor(max_workers=engine.NCPU) as ex:
        for tr, r in ex.map(one, list(enumerate(traces))):
            out = r["out"]
            if r["rc"] == -9:
                raise InfraError(f"TLC (MonProto) timed out on {tr}")
            st = vtlc.parse_stats(out)
            if st is None or "No error has been found" not in out:
                raise InfraError(f"TLC did not consume the trace {tr} completely (monitor / infrastructure problem, not a verdict):\n" + out[-3000:])
            n = len(read_lines(tr))
            if st["distinct"] != n + 1:
                raise InfraError(f"trace {tr}: {n} lines but {st['distinct']} monitor states")
            nstates += st["distinct"]
            nev += n
            for v in parse_tagged(out, "VIOL"):
                v["file"] = tr
                viols.append(v)
            divs += parse_tagged(out, "DIVERGE")
            binds += parse_tagged(out, "BIND")
    return viols, divs, binds, {"monitor_states": nstates, "lines": nev}

# ------------------------------------------------------------------ (5) self-test

def selftest(traces, params, workdir):
    """corrupt ONE recorded field of an accepted line (three different corruptions); MonProto must reject each"""
    good = None
    for tr in traces:
        for ln in read_lines(tr):
            e = json.loads(ln)
            if e.get("e") == "d" and e["done"] and not e["panic"] and e["probe"] == "ok" and e["probe2"] == "ok" and len(e["path"]) >= 1 \
               and e["path"][-1]["fam"] == "text" and e["path"][-1]["k"] == "NOSUCHCMD" and e["path"][-1]["frag"] == "whole" and e["obs"][-1]["r"] == "err":
                good = e
                break
        if good:
            break
    if good is None:
        return {"corruption": None, "rejected": None}
    cases = []
    a = json.loads(json.dumps(good)); a["panic"] = True; a["site"] = "selftest"; a["kind"] = "selftest"
    cases.append(("field 'panic' of an accepted line set to true", a, "VIOL", "connection-goroutine-panic"))
    b = json.loads(json.dumps(good)); b["probe"] = "noreply"
    cases.append(("field 'probe' of an accepted line changed from ok to noreply", b, "VIOL", "other-connection-not-served"))
    c = json.loads(json.dumps(good)); c["done"] = False; c["site"] = "selftest"; c["kind"] = "selftest"
    cases.append(("field 'done' of an accepted line set to false (process died)", c, "VIOL", "server-process-died"))
    d = json.loads(json.dumps(good)); d["path"][-1]["k"] = "NOSUCHCMDX"
    cases.append(("command name of the recorded class changed to one outside the spec's alphabet", d, "BIND", None))
    f = json.loads(json.dumps(good)); f["obs"][-1]["r"] = "ok"
    cases.append(("observed response class of an unknown command changed from err to ok", f, "DIVERGE", None))
    res = []
    os.makedirs(workdir, exist_ok=True)
    for i, (desc, ev, tag, code) in enumerate(cases):
        p = os.path.join(workdir, f"selftest_{i}.ndjson")
        with open(p, "w") as fh:
            fh.write(json.dumps(good) + "\n" + json.dumps(ev) + "\n")
        viols, divs, binds, _ = monitor([p], params, os.path.join(workdir, f"st_{i}"))
        got = {"VIOL": [v for v in viols if v["code"] == code and v["line"] == 2], "DIVERGE": divs, "BIND": binds}[tag]
        clean = not [v for v in viols if v["line"] == 1]
        res.append({"corruption": desc, "expected": tag + (" " + code if code else ""), "rejected": bool(got) and clean})
    return {"corruption": "; ".join(r["corruption"] for r in res), "rejected": all(r["rejected"] for r in res), "cases": res,
            "line": {"name": good["name"], "cls": good["cls"]}}

# ------------------------------------------------------------------ (4) confirmation without recover

def confirm(binpath, deliv, site, workdir, tag, linger=300):
    """re-run one delivery alone in a child without the harness's recover: the process must die at the same site"""
    d = os.path.join(workdir, f"confirm_{tag}")
    os.makedirs(d, exist_ok=True)
    fin, fout = os.path.join(d, "in.ndjson"), os.path.join(d, "out.ndjson")
    with open(fin, "w") as fh:
        fh.write(json.dumps(deliv) + "\n")
    env = {"VERIF_IN": fin, "VERIF_OUT": fout, "VERIF_PROTO_NORECOVER": "1", "VERIF_PROTO_LINGER_MS": str(linger), "TMPDIR": d}
    try:
        p = run_child(binpath, env, d, 180)
    except subprocess.TimeoutExpired:
        return {"died": False, "why": "timeout"}
    if p.returncode == 0:
        return {"died": False, "why": "child survived"}
    info = death_info((p.stderr or "") + "\n" + (p.stdout or ""))
    if info is None:
        return {"died": False, "why": "child failed without panic"}
    return {"died": True, "same_site": info[1] == site, "site": info[1], "exit": p.returncode}

def reproduce_probe_failure(binpath, deliv, workdir, tag):
    """a 'not served' observation counts only if it reproduces when the delivery is run alone on a fresh server"""
    d = os.path.join(workdir, f"reprobe_{tag}")
    os.makedirs(d, exist_ok=True)
    fin, fout = os.path.join(d, "in.ndjson"), os.path.join(d, "out.ndjson")
    with open(fin, "w") as fh:
        fh.write(json.dumps(deliv) + "\n")
    env = {"VERIF_IN": fin, "VERIF_OUT": fout, "VERIF_PROTO_LINGER_MS": "100", "TMPDIR": d}
    try:
        p = run_child(binpath, env, d, 180)
    except subprocess.TimeoutExpired:
        return {"reproduced": False, "why": "timeout"}
    for ln in read_lines(fout):
        e = json.loads(ln)
        if e.get("e") == "d":
            bad = e["done"] and not e["panic"] and not (e["probe"] == "ok" and e["probe2"] == "ok")
            return {"reproduced": bad, "old": e["probe"], "fresh": e["probe2"]}
    return {"reproduced": False, "why": "no trace line"}

# ------------------------------------------------------------------ verdicts

def judge(prop, all_viols, lookup, binp, wd, out):
    """verdicts from the VIOL lines of a trace spec: one violation per distinct (clause, site, kind), with a count and the first
    delivery as replay.  A panic / death counts only when the process dies at the same site with the delivery re-run alone
    without the harness's recover; an unanswered probe only when it reproduces alone.  Appends to out.viols."""
    # ---- verdicts: one violation per distinct (clause, site, kind), with a count and the first delivery as replay
    groups = {}
    for v in all_viols:
        det = v["detail"]
        if v["code"] in ("connection-goroutine-panic", "server-process-died"):
            key = (v["code"], det["site"], det["kind"])
        else:
            key = (v["code"], det.get("old"), det.get("fresh"))
        groups.setdefault(key, []).append(v)
    confirmations = {}
    jobs = []
    for key, vs in sorted(groups.items(), key=lambda kv: str(kv[0])):
        first = vs[0]
        base = first["name"].replace(" (+later)", "")
        deliv = lookup(base)
        if key[0] == "connection-goroutine-panic":
            # the recovered panic is re-run alone WITHOUT the recover (one server instance in the process, as in
            # production): the process must die at the same site; up to 3 occurrences are tried
            for v in vs[:3]:
                dv = lookup(v["name"])
                if dv is not None:
                    jobs.append((key, dv, v["name"]))
        if key[0] == "server-process-died":
            # attribution of a process death to the delivery in flight is a guess (the fault may sit in another goroutine,
            # the machine may be the culprit): it is a verdict only if the process dies again, at the same site, when the
            # delivery is re-run alone on a fresh server (3 s linger for timers); up to 4 occurrences are tried
            for v in vs[:4]:
                dv = lookup(v["name"].replace(" (+later)", ""))
                if dv is not None:
                    jobs.append((key, dv, v["name"]))
    with cf.ThreadPoolExecutor(max_workers=engine.NCPU) as ex:
        def cjob(j):
            return confirm(binp, j[1], j[0][1], wd, "%d_%s" % (abs(hash(j[0])), abs(hash(j[2]))), linger=3000 if j[0][0] == "server-process-died" else 300)
        for (key, deliv, nm), c in zip(jobs, ex.map(cjob, jobs)):
            c["delivery"] = nm
            if key not in confirmations or (c.get("died") and c.get("same_site") and not (confirmations[key].get("died") and confirmations[key].get("same_site"))):
                confirmations[key] = c
    unreproduced = []
    unreproduced_deaths = []
    for key, vs in sorted(groups.items(), key=lambda kv: str(kv[0])):
        first = vs[0]
        base = first["name"].replace(" (+later)", "")
        deliv = lookup(base)
        clause = key[0]
        if clause == "other-connection-not-served":
            # timing-sensitive observation: every occurrence is re-run alone; only reproduced ones are verdicts
            keep = []
            for v in vs[:6]:
                dv = lookup(v["name"])
                r = reproduce_probe_failure(binp, dv, wd, str(len(unreproduced) + len(keep))) if dv else {"reproduced": False, "why": "delivery not found"}
                if r.get("reproduced"):
                    keep.append((v, dv))
                    break
                unreproduced.append({"delivery": v["name"], "detail": v["detail"], "rerun": r})
            if not keep:
                continue
            first, deliv = keep[0]
        if clause in ("server-process-died", "connection-goroutine-panic"):
            c = confirmations.get(key) or {}
            if not (c.get("died") and c.get("same_site")):
                unreproduced_deaths.append({"signature": list(key), "count": len(vs), "deliveries": [v["name"] for v in vs[:4]], "rerun": c})
                continue
            first = next((v for v in vs if v["name"] == c.get("delivery")), first)
            deliv = lookup(first["name"].replace(" (+later)", ""))
        if clause in ("connection-goroutine-panic", "server-process-died"):
            code = f"{clause}@{key[1]}"
            detail = {"site": key[1], "kind": key[2]}
        else:
            code = clause
            detail = dict(first["detail"])
        viol = {"prop": prop, "code": code, "clause": clause, "detail": detail, "count": len(vs), "first_delivery": first["name"],
                "classes": [s["cls"] for s in deliv["steps"]] if deliv else [],
                "process_death_confirmed": confirmations.get(key)}
        replay = None
        if deliv:
            replay = {"delivery": {k: deliv[k] for k in ("name", "steps", "hold", "path")},
                      "how": "VERIF_IN=<file with this delivery as one ndjson line> VERIF_OUT=out.ndjson VERIF_PROTO_NORECOVER=1 server.test -test.run TestVerifProto"}
            for s in replay["delivery"]["steps"]:
                if len(s["hex"]) > 4096:
                    s["hex_note"] = "long"
        out.viols.append((viol, replay))
    return groups, confirmations, unreproduced, unreproduced_deaths

# ------------------------------------------------------------------ the check

TIERS = {
    # quick: every path prefix(<=1) . detail over the reduced sweeps
    "quick": [dict(prefix=1, detail="all", tail=1, pairs=1, opdepth=0, variants=2, frag=1)],
    # thorough: the full sweeps behind every one-step prefix, and the reduced alphabet behind every two-step prefix
    "thorough": [dict(prefix=1, detail="all", tail=2, pairs=2, opdepth=2, variants=8, frag=1),
                 dict(prefix=2, detail="core", tail=0, pairs=1, opdepth=0, variants=2, frag=0)],
}

def run_bytes(prop, tier, seed, binp=None):
    out = checklib.Outcome()
    out.level = "exploration"
    wd = vbuild.scratch(f"vf_{prop}_")
    try:
        quick = tier == "quick"
        binp = binp or vbuild.build_inpkg("server", wd)
        tot = dict(paths=0, deliveries=0, states=0, transitions=0, gen_wall=0.0, run_wall=0.0, mon_wall=0.0, mon_states=0, lines=0)
        census_all, all_viols, all_divs, samples, stest = [], [], [], [], None
        classes_seen, detail_seen, resp_hist = set(), set(), {}
        deaths_all = []
        byname = {}
        huge, unsolicited = {}, [0]
        for ri, params in enumerate(TIERS[tier]):
            paths, census, st, gwall = generate(params, os.path.join(wd, f"gen{ri}"), 600 if quick else 3000)
            census_all.append(dict(census, params=params, paths=len(paths), states=st["distinct"], transitions=st["generated"], wall_s=round(gwall, 1)))
            tot["paths"] += len(paths); tot["states"] += st["distinct"]; tot["transitions"] += st["generated"]; tot["gen_wall"] += gwall
            delivs = []
            for pi, path in enumerate(paths):
                rng = random.Random(f"{seed}:{ri}:{pi}")
                ds = protoconc.deliveries(path, rng, f"p{ri}-{pi}")
                delivs += ds
                for rec in path:
                    classes_seen.add(protoconc.class_id(rec["c"]))
                detail_seen.add(protoconc.class_id(path[-1]["c"]))
            rnd = random.Random(f"{seed}:shuffle:{ri}")
            rnd.shuffle(delivs)                       # spread slow classes over the shards
            if ri == 0:
                for d in delivs[:3]:
                    samples.append({"name": d["name"], "classes": [s["cls"] for s in d["steps"]],
                                    "bytes_hex": [s["hex"][:160] + ("..." if len(s["hex"]) > 160 or s["fn"] else "") for s in d["steps"]],
                                    "cuts": d["steps"][-1]["cuts"]})
            tot["deliveries"] += len(delivs)
            t1 = time.time()
            files = write_shards(delivs, os.path.join(wd, f"run{ri}"), NSHARDS)
            for j, d in enumerate(delivs):
                byname[d["name"]] = (files[j % len(files)][0], j // len(files))
            del delivs
            res = run_real(binp, files, os.path.join(wd, f"run{ri}"), linger=2500)
            tot["run_wall"] += time.time() - t1
            if os.environ.get("VERIF_VERBOSE"):
                print(f"[C13] run {ri}: {len(paths)} paths, gen {gwall:.1f}s, real code {time.time()-t1:.1f}s", flush=True)
            shard_traces = [job[1] for job, _ in res]
            for _, deaths in res:
                deaths_all += deaths
            # one JVM per merged trace file (JVM start + building the alphabet is the fixed cost)
            traces = []
            nm = max(1, min(engine.NCPU, len(shard_traces)))
            for i in range(nm):
                mp = os.path.join(wd, f"run{ri}", f"merged_{i}.ndjson")
                with open(mp, "w") as fh:
                    for tr in shard_traces[i::nm]:
                        for ln in read_lines(tr):
                            if ln.strip():
                                fh.write(ln + "\n")
                traces.append(mp)
            t2 = time.time()
            viols, divs, binds, mst = monitor(traces, params, os.path.join(wd, f"mon{ri}"))
            tot["mon_wall"] += time.time() - t2
            if os.environ.get("VERIF_VERBOSE"):
                print(f"[C13] run {ri}: monitor {time.time()-t2:.1f}s viols {len(viols)} divs {len(divs)}", flush=True)
            tot["mon_states"] += mst["monitor_states"]; tot["lines"] += mst["lines"]
            if binds:
                raise InfraError("binding broken: recorded classes are not members of the spec's alphabet: " + json.dumps(binds[:3]))
            all_viols += viols
            all_divs += divs
            for tr in traces:
                for ln in read_lines(tr):
                    e = json.loads(ln)
                    for o in e.get("obs", []):
                        key = o["r"] + ("+closed" if o["closed"] else "") + ("+blocked" if o["blocked"] else "")
                        resp_hist[key] = resp_hist.get(key, 0) + 1
                    if e.get("alloc_mb", 0) >= 1024 and e.get("cls"):
                        huge.setdefault(e["cls"][-1], []).append((e["alloc_mb"], e["name"]))
                    if e.get("probe_unsolicited"):
                        unsolicited[0] += e["probe_unsolicited"]
            if ri == 0:
                stest = selftest(traces, params, os.path.join(wd, "selftest"))
                if stest["rejected"] is not True:
                    raise InfraError("self-test failed: the trace spec accepted a corrupted trace: " + json.dumps(stest))
        def lookup(name):
            loc = byname.get(name)
            if loc is None:
                return None
            with open(loc[0]) as fh:
                for i, ln in enumerate(fh):
                    if i == loc[1]:
                        return json.loads(ln)
            return None
        groups, confirmations, unreproduced, unreproduced_deaths = judge(prop, all_viols, lookup, binp, wd, out)
        divkeys = {}
        for dv in all_divs:
            k = (dv["fam"], dv["k"], dv["mode"], dv["obs"]["r"], dv["obs"]["closed"])
            divkeys.setdefault(k, []).append(dv)
        out.coverage = {
            "evaluations": tot["deliveries"], "distinct_nontrivial": len(detail_seen),
            "rule": "one evaluation = one delivery (a TLC-enumerated path of input classes, concretised into bytes with its write boundaries) fed to the real Server.handle and judged by the TLA+ trace spec; "
                    "distinct_nontrivial = number of distinct input classes fed as the last step (every class is a different command / flag / length / header / argument / malformation / fragmentation shape)",
            "samples": samples, "exhaustive": False,
            "states": tot["states"], "transitions": tot["transitions"], "traces_validated_against_impl": tot["lines"],
            "generator": {"module": "spec/ProtoSession.tla over spec/ProtoClasses.tla", "runs": census_all,
                          "invariants": ["TypeOK", "CoarseInUniverse", "SniffOnlyFirst", "AdminTextOrigin", "ExpectTotal", "MalformedNeverOk", "ClosedIsFinal"],
                          "paths_enumerated": tot["paths"], "wall_s": round(tot["gen_wall"], 1),
                          "exhaustive_over": "all paths coarse^(<=PrefixLen) . detail of the class alphabet (not over byte values)"},
            "distinct_classes_fed": len(classes_seen),
            "real_code": {"deliveries": tot["deliveries"], "child_deaths": len(deaths_all), "child_startup_deaths_retried": len(STARTUP_DEATHS), "wall_s": round(tot["run_wall"], 1), "shards": NSHARDS,
                          "observed_response_classes": resp_hist},
            "monitor": {"module": "spec/mon/MonProto.tla", "lines": tot["lines"], "monitor_states": tot["mon_states"], "wall_s": round(tot["mon_wall"], 1),
                        "violation_lines": len(all_viols), "distinct_violation_signatures": len(groups)},
            "refinement_divergences": {"count": len(all_divs), "distinct": len(divkeys),
                                       "samples": [v[0] for v in list(divkeys.values())[:8]]},
            "unreproduced_probe_failures": unreproduced, "unreproduced_process_deaths": unreproduced_deaths,
            "huge_allocations": {"deliveries": sum(len(v) for v in huge.values()), "distinct_last_classes": len(huge),
                                 "samples": [{"class": k, "alloc_mb": v[0][0], "delivery": v[0][1], "count": len(v)} for k, v in sorted(huge.items())[:8]],
                                 "note": "deliveries (at most ~1 MiB of client bytes) during which the server process allocated 1 GiB or more (runtime.MemStats.TotalAlloc); observation, not a verdict: "
                                         "on this machine the process survives the allocation, with less memory the same frame ends it (fatal error: out of memory)"},
            "probe_unsolicited_notices_skipped": unsolicited[0],
            "child_death_texts": DEATH_TEXTS[:12], "child_startup_death_texts": STARTUP_DEATHS[:4],
            "process_death_confirmations": [{"signature": list(k), **(c or {})} for k, c in confirmations.items()],
            "selftest": stest,
        }
        out.assumptions = [
            "coverage is per input class (representative bytes + VERIF_SEED-derived fill), not per byte value; TLA+ enumerates the class paths, it does not prove absence of out-of-range indexing",
            "net.Pipe replaces TCP: a write is delivered as at most one read (exact control of read boundaries), there is no kernel buffering",
            "a panic is observed when it reaches the top of the goroutine that runs Server.handle (the server has no recover there); a panic or a death of the server process is a verdict only if the process "
            "dies at the same site when the delivery is re-run alone, without the harness's recover, on a fresh single server instance (the batch children host several instances one after another, "
            "which share slock's package globals Config and defaultServerProtocol); unreproduced ones are listed in the evidence, not judged",
            "SHUTDOWN, SLAVEOF <host> <port> (stop / demote the server by design), replset CALL methods and follower-side protocol objects are not exercised",
            "other connections = one long-lived binary connection (PING; LOCK, UNLOCK of a fresh key on db 126 and on the dbs the generated classes work in: 0, 1, 3), one fresh text connection (PING, FLUSHDB of a missing db) and one fresh binary connection (INIT) probed after every delivery, 15 s budget each; a failed probe counts only if it reproduces when the delivery is re-run alone",
        ]
        return out
    finally:
        if os.environ.get("VERIF_KEEP_SCRATCH") != "1":
            shutil.rmtree(wd, ignore_errors=True)


# ------------------------------------------------------------------ (7) the OUTPUT path: reply-size patterns at the writer buffer boundary
# The class paths above decide what the server READS.  What it WRITES back goes, for pipelined binary frames, through a
# 4096-byte per-connection buffer (spec/OutBuf.tla).  TLC checks the implementation-shaped model exhaustively at small
# constants, then enumerates at the real constants every batch shape whose replies end at each position relative to the
# boundary; each behaviour becomes request frames whose replies have exactly these sizes (lib/outbufconc.py), the real
# Server.handle answers them, and spec/mon/MonOutBuf.tla judges the trace: the C13 clauses (panic / death / other
# connection not served) and, as observation and refinement, completeness of the reply stream and the write boundaries.

OB_MC_CFG = """SPECIFICATION Spec
CONSTANTS
  Cap = %(cap)d
  H = %(h)d
  Variant = "%(variant)s"
  MaxD = %(maxd)d
  MaxFrames = %(frames)d
  MaxBatches = 2
  MaxAsync = 1
INVARIANTS TypeOK NoOverrun HeaderRoom Framing Delivered BufferedInOrder
CHECK_DEADLOCK FALSE
"""

OB_GEN_CFG = """SPECIFICATION Spec
CONSTANTS
  Cap = 4096
  H = 64
  Variant = "coded"
  DMin = 7
  MaxData = %(maxdata)d
  Leads = {%(leads)s}
  Tails = {%(tails)s}
  Residues = {%(residues)s}
  BigSizes = {%(bigs)s}
  Fillers = {%(fillers)s}
  Mode = "%(mode)s"
INVARIANTS TypeOK ModelSafe IndexAgrees Export
CHECK_DEADLOCK FALSE
"""

OB_MON_CFG = """SPECIFICATION Spec
CONSTANTS
  Cap = 4096
  H = 64
  Variant = "coded"
  TraceFile = "%(trace)s"
  Props = {"C13"}
POSTCONDITION TraceConsumed
CHECK_DEADLOCK FALSE
"""

ALL_TAILS = ["e"] + ["".join(t) for n in (1, 2, 3) for t in __import__("itertools").product("bo", repeat=n)]

def ob_tiers(tier, seed):
    rnd = random.Random(f"{seed}:obres")
    if tier == "quick":
        res = sorted(set([16] + rnd.sample(range(2, 63), 3)))          # 16: k*(64+L) = 4048, the classic two-reply case
        return dict(
            mc=[dict(cap=16, h=4, maxd=10, frames=3, variant="coded")],
            refute=[dict(cap=16, h=4, maxd=10, frames=2, variant="trailInBare"), dict(cap=16, h=4, maxd=10, frames=2, variant="preNoHeader")],
            gens=[dict(mode="patterns", maxdata=2, leads=[0], tails=["e", "b", "bb", "bbb", "o", "ob"], residues=res, bigs=[3968, 4096, 70000], fillers=[900]),
                  dict(mode="sweep", maxdata=4, leads=[0, 62], tails=["e", "b"], residues=sorted(set(rnd.sample(range(2, 63), 6))), bigs=[], fillers=[900])],
            split_every=3, twin_every=8,
            text_lens=[954, 1023, 1024, 1025, 1094, 4026, 4095, 4096, 4097, 4166, 65536 + 9], text_gets=[1, 3])
    return dict(
        mc=[dict(cap=16, h=4, maxd=10, frames=4, variant="coded"), dict(cap=15, h=3, maxd=11, frames=3, variant="coded")],
        refute=[dict(cap=16, h=4, maxd=10, frames=2, variant=v) for v in ("trailInBare", "preNoHeader", "trailOffByOne")],
        gens=[dict(mode="patterns", maxdata=3, leads=[0, 63], tails=ALL_TAILS, residues=[2, 16, 32, 47, 62], bigs=[3968, 4032, 4096, 70000], fillers=[900]),
              dict(mode="sweep", maxdata=4, leads=[0, 1, 62, 63], tails=["e", "b", "bb", "bbb"], residues=list(range(2, 63)), bigs=[], fillers=[7, 900])],
        split_every=1, twin_every=4,
        text_lens=list(range(954, 1095)) + list(range(4026, 4167)) + [65536 + 9, 1048000], text_gets=[1, 3])

def ob_generate(g, workdir, timeout):
    cfg = OB_GEN_CFG % dict(maxdata=g["maxdata"], leads=", ".join(map(str, g["leads"])), tails=", ".join('"%s"' % t for t in g["tails"]),
                            residues=", ".join(map(str, g["residues"])), bigs=", ".join(map(str, g["bigs"])), fillers=", ".join(map(str, g["fillers"])), mode=g["mode"])
    r = vtlc.run_tlc(SPECDIRS[0], "OutBufGen", cfg, workdir, workers=min(4, engine.NCPU), timeout=timeout)
    out = r["out"]
    st = vtlc.parse_stats(out)
    if r["rc"] == -9:
        raise InfraError("OutBufGen timed out")
    if st is None or "No error has been found" not in out:
        keep = "\n".join(l for l in out.splitlines() if not l.startswith('"BEHAVIOUR'))
        raise InfraError("OutBufGen: the generator / its model invariants did not complete cleanly (model problem, not a verdict on the code):\n" + keep[-3000:])
    behs = [json.loads(json.loads(ln)[10:]) for ln in out.splitlines() if ln.startswith('"BEHAVIOUR ')]
    behs.sort(key=lambda b: json.dumps(b, sort_keys=True))
    return behs, st, r["wall"]

def ob_modelcheck(c, workdir, timeout):
    r = vtlc.run_tlc(SPECDIRS[0], "OutBufMC", OB_MC_CFG % c, workdir, workers=min(4, engine.NCPU), timeout=timeout)
    if r["rc"] == -9:
        raise InfraError("OutBufMC timed out")
    st = vtlc.parse_stats(r["out"])
    m = re.search(r"Invariant (\w+) is violated", r["out"])
    if st is None or ("No error has been found" not in r["out"] and not m):
        raise InfraError("OutBufMC did not complete:\n" + r["out"][-2000:])
    return {"constants": c, "states": st["distinct"], "transitions": st["generated"], "violated": m.group(1) if m else None, "wall_s": round(r["wall"], 1)}

def ob_monitor(traces, workdir, timeout=3000):
    def one(arg):
        i, tr = arg
        return tr, vtlc.run_tlc(SPECDIRS, "MonOutBuf", OB_MON_CFG % dict(trace=tr), os.path.join(workdir, f"mon_{i}"), workers=1, timeout=timeout)
    res = dict(viols=[], obs=[], divs=[], binds=[], models=[], summaries=[], states=0, lines=0)
    with cf.ThreadPoolExecutor(max_workers=engine.NCPU) as ex:
        for tr, r in ex.map(one, list(enumerate(traces))):
            out = r["out"]
            if r["rc"] == -9:
                raise InfraError(f"TLC (MonOutBuf) timed out on {tr}")
            st = vtlc.parse_stats(out)
            if st is None or "No error has been found" not in out:
                raise InfraError(f"TLC did not consume the trace {tr} completely (monitor / infrastructure problem, not a verdict):\n" + out[-3000:])
            n = len(read_lines(tr))
            if st["distinct"] != n + 1:
                raise InfraError(f"trace {tr}: {n} lines but {st['distinct']} monitor states")
            res["states"] += st["distinct"]; res["lines"] += n
            for v in parse_tagged(out, "VIOL"):
                v["file"] = tr
                res["viols"].append(v)
            res["obs"] += parse_tagged(out, "OBS"); res["divs"] += parse_tagged(out, "DIVERGE"); res["binds"] += parse_tagged(out, "BIND")
            res["models"] += parse_tagged(out, "MODEL"); res["summaries"] += parse_tagged(out, "SUMMARY")
    return res

def ob_selftest(traces, workdir):
    """corrupt ONE recorded field of an accepted line; MonOutBuf must answer with the matching tag"""
    good = None
    for tr in traces:
        for ln in read_lines(tr):
            e = json.loads(ln)
            if e.get("e") == "d" and e["done"] and not e["panic"] and e["probe"] == "ok" and e["probe2"] == "ok" and e.get("ob") and e["ob"][-1].get("fam") == "bin" \
               and e["ob"][-1]["pat"] and len(e["obs"][-1].get("frames", [])) >= 3 and any(f["d"] > 0 for f in e["obs"][-1]["frames"]) and len(e["obs"][-1].get("chunks", [])) >= 1:
                good = e
                break
        if good:
            break
    if good is None:
        return {"corruption": None, "rejected": None}
    def cp():
        c = json.loads(json.dumps(good)); c.pop("stacks", None)
        return c
    cases = []
    a = cp(); a["panic"] = True; a["site"] = "selftest"; a["kind"] = "selftest"
    cases.append(("field 'panic' of an accepted line set to true", a, "viols", "connection-goroutine-panic"))
    b = cp(); b["probe"] = "noreply"
    cases.append(("field 'probe' changed from ok to noreply", b, "viols", "other-connection-not-served"))
    c = cp(); c["done"] = False; c["site"] = "selftest"; c["kind"] = "selftest"
    cases.append(("field 'done' set to false (process died)", c, "viols", "server-process-died"))
    d = cp(); fr = next(f for f in d["obs"][-1]["frames"] if f["d"] > 0); fr["d"] -= 1
    cases.append(("recorded data length of one reply reduced by one byte", d, "obs", "reply-stream-corrupted"))
    d2 = cp(); d2["obs"][-1]["frames"] = d2["obs"][-1]["frames"][:-1]
    cases.append(("last recorded reply dropped", d2, "obs", "reply-stream-corrupted"))
    f = cp(); f["obs"][-1]["chunks"][0] += 1
    cases.append(("size of the first recorded write of the server increased by one", f, "divs", None))
    # (changing a reply SIZE can leave its position class - hence the label - as it was; the printed label itself is changed)
    g = cp(); g["ob"][-1]["pat"][0] = "selftest:" + str(g["ob"][-1]["pat"][0])
    cases.append(("first class label printed by the generator changed (the class sequence recomputed from the recorded sizes is no longer the printed one)", g, "binds", None))
    os.makedirs(workdir, exist_ok=True)
    def one(arg):
        i, (desc, ev, tag, code) = arg
        p = os.path.join(workdir, f"ob_selftest_{i}.ndjson")
        with open(p, "w") as fh:
            fh.write(json.dumps(cp()) + "\n" + json.dumps(ev) + "\n")
        r = ob_monitor([p], os.path.join(workdir, f"obst_{i}"))
        got = [v for v in r[tag] if (code is None or v.get("code") == code) and (v.get("line", 2) == 2)]
        clean = not [v for v in r["viols"] + r["obs"] + r["binds"] if v.get("line") == 1]
        return {"corruption": desc, "expected": tag + (" " + code if code else ""), "rejected": bool(got) and clean}
    with cf.ThreadPoolExecutor(max_workers=max(2, engine.NCPU // 2)) as ex:
        res = list(ex.map(one, list(enumerate(cases))))
    return {"corruption": "; ".join(r["corruption"] for r in res), "rejected": all(r["rejected"] for r in res), "cases": res, "line": {"name": good["name"], "cls": good["cls"][-1]}}

def run_outbuf(prop, tier, seed, out, binp):
    import outbufconc
    wd = vbuild.scratch(f"vf_{prop}_ob_")
    t_start = time.time()
    try:
        T = ob_tiers(tier, seed)
        quick = tier == "quick"
        # ---- (a) the model, exhaustively, at small constants (in the background while the real code runs)
        pool = cf.ThreadPoolExecutor(max_workers=max(2, engine.NCPU // 2))
        mc_jobs = [pool.submit(ob_modelcheck, c, os.path.join(wd, f"mc{i}"), 600 if quick else 3000) for i, c in enumerate(T["mc"] + T["refute"])]
        # ---- (b) patterns at the real constants
        behs, gen_runs = [], []
        for gi, g in enumerate(T["gens"]):
            bs, st, wall = ob_generate(g, os.path.join(wd, f"gen{gi}"), 600 if quick else 3000)
            gen_runs.append(dict(g, behaviours=len(bs), states=st["distinct"], transitions=st["generated"], wall_s=round(wall, 1)))
            behs += [(g["mode"], b) for b in bs]
        if len(behs) < 50:
            raise InfraError("OutBufGen printed too few behaviours")
        # ---- (c) deliveries
        delivs, kinds = [], {}
        def add(d, kind):
            delivs.append(d); kinds[kind] = kinds.get(kind, 0) + 1
        for bi, (mode, b) in enumerate(behs):
            rng = random.Random(f"{seed}:ob:{bi}")
            add(outbufconc.bin_delivery(b, rng, f"ob-{bi}", kind=mode), "one-write")
            n = len(b["replies"])
            edge = any(("tight" in l or "exact" in l or "over" in l or "Edge" in l) for l in b["labels"])
            if n <= 16 and edge and bi % T["split_every"] == 0:
                # the same frames in two writes: first frame alone / a frame cut in the middle / all but the last / the last frame cut
                for ci, cuts in enumerate([[64], [96], [64 * (n - 1)], [64 * n - 32]]):
                    if 0 < cuts[0] < 64 * n and (ci < 2 or n > 2):
                        add(outbufconc.bin_delivery(b, rng, f"ob-{bi}/s{ci}", cuts=cuts, kind="split"), "split")
            if n <= 16 and bi % T["twin_every"] == 0:
                add(outbufconc.bin_delivery(b, rng, f"ob-{bi}/u", cuts=[64 * i for i in range(1, n)], kind="unbuffered"), "frame-per-write")
        ti = 0
        for L in T["text_lens"]:
            for ng in T["text_gets"]:
                vlen = L - len("$%d\r\n\r\n" % L)             # reply = $<vlen>\r\n<value>\r\n; fix the digits of vlen
                while len("$%d\r\n" % vlen) + vlen + 2 < L:
                    vlen += 1
                add(outbufconc.text_delivery(vlen, ng, random.Random(f"{seed}:obt:{ti}"), f"obt-{ti}", between=(ti % 2 == 1)), "text-get")
                ti += 1
            if L < 100000 and (quick or ti % 8 == 0):
                add(outbufconc.text_lock_delivery(max(1, L - 153), 2, random.Random(f"{seed}:obl:{ti}"), f"obl-{ti}"), "text-lock")
        random.Random(f"{seed}:obshuffle").shuffle(delivs)
        samples = [{"name": d["name"], "classes": [s["cls"] for s in d["steps"]], "replies": d["steps"][-1]["ob"].get("replies"), "writes": d["steps"][-1]["ob"].get("writes")} for d in delivs[:3]]
        rundir = os.path.join(wd, "run")
        files = write_shards(delivs, rundir, max(engine.NCPU, min(NSHARDS, len(delivs) // 150)))
        byname = {d["name"]: (files[j % len(files)][0], j // len(files)) for j, d in enumerate(delivs)}
        ndeliv = len(delivs)
        del delivs
        t1 = time.time()
        res = run_real(binp, files, rundir, linger=300)
        run_wall = time.time() - t1
        deaths = [d for _, ds in res for d in ds]
        shard_traces = [job[1] for job, _ in res]
        traces = []
        nm = max(1, min(engine.NCPU, len(shard_traces)))
        for i in range(nm):
            mp = os.path.join(rundir, f"merged_{i}.ndjson")
            with open(mp, "w") as fh:
                for tr in shard_traces[i::nm]:
                    for ln in read_lines(tr):
                        if ln.strip():
                            fh.write(ln + "\n")
            traces.append(mp)
        t2 = time.time()
        mon = ob_monitor(traces, os.path.join(wd, "mon"))
        mon_wall = time.time() - t2
        if mon["binds"]:
            raise InfraError("binding broken (output phase): " + json.dumps(mon["binds"][:3]))
        if mon["models"]:
            raise InfraError("the as-coded output model overruns on a generated pattern (model problem): " + json.dumps(mon["models"][:2]))
        stest = ob_selftest(traces, os.path.join(wd, "selftest"))
        if stest["rejected"] is not True:
            raise InfraError("self-test failed: MonOutBuf accepted a corrupted trace: " + json.dumps(stest))
        def lookup(name):
            loc = byname.get(name)
            if loc is None:
                return None
            with open(loc[0]) as fh:
                for i, ln in enumerate(fh):
                    if i == loc[1]:
                        return json.loads(ln)
            return None
        groups, confirmations, unreproduced, unreproduced_deaths = judge(prop, mon["viols"], lookup, binp, wd, out)
        mcs = [j.result() for j in mc_jobs]
        pool.shutdown()
        for c in mcs:
            coded = c["constants"]["variant"] == "coded"
            if coded and c["violated"]:
                raise InfraError("the as-coded output model violates %s at small constants (model problem, not a verdict on the code)" % c["violated"])
            if not coded and not c["violated"]:
                raise InfraError("model self-check failed: the mutated variant %s satisfies every invariant" % c["constants"]["variant"])
        labels, near, complete, steps = set(), set(), 0, 0
        for sm in mon["summaries"]:
            labels |= set(sm["labels"]); near |= set(sm["near"]); complete += sm["complete"]; steps += sm["steps"]
        patterns = {" ".join(b["labels"]) for _, b in behs}
        obskeys = {}
        for o in mon["obs"]:
            obskeys.setdefault((o["code"], o.get("junk", -1) >= 0), []).append(o)
        cov = {
            "model": "spec/OutBuf.tla (operators), spec/OutBufMC.tla (exhaustive, small constants), spec/OutBufGen.tla (patterns, real constants), spec/mon/MonOutBuf.tla (trace spec)",
            "model_checking": {"invariants": ["TypeOK", "NoOverrun", "HeaderRoom", "Framing", "Delivered", "BufferedInOrder"],
                               "as_coded": [c for c in mcs if c["constants"]["variant"] == "coded"],
                               "mutated_variants_refuted": [{"variant": c["constants"]["variant"], "violated": c["violated"], "states": c["states"]} for c in mcs if c["constants"]["variant"] != "coded"]},
            "generator_runs": gen_runs, "behaviours": len(behs), "distinct_patterns": len(patterns),
            "deliveries": ndeliv, "deliveries_by_kind": kinds,
            "position_classes_hit": sorted(labels), "positions_relative_to_boundary_hit": {"count": len(near), "min": min(near) if near else None, "max": max(near) if near else None,
                                                                                          "inside_last_header": len([x for x in near if -64 <= x <= 0])},
            "batches_replayed_by_model": steps, "batches_complete_and_as_generated": complete,
            "observations": {"reply_stream_corrupted": len(mon["obs"]), "distinct": len(obskeys), "samples": [v[0] for v in list(obskeys.values())[:6]],
                             "note": "a truncated / garbled / missing reply on the client's OWN connection is outside the statement of C13 (process alive, other connections served): observation, not a verdict"},
            "refinement_divergences": {"count": len(mon["divs"]), "samples": mon["divs"][:6],
                                       "note": "sizes of the server's writes / order of the replies vs the implementation-shaped model; never a verdict"},
            "real_code": {"child_deaths": len(deaths), "wall_s": round(run_wall, 1)},
            "monitor": {"lines": mon["lines"], "monitor_states": mon["states"], "wall_s": round(mon_wall, 1), "violation_lines": len(mon["viols"]), "distinct_violation_signatures": len(groups)},
            "unreproduced_probe_failures": unreproduced, "unreproduced_process_deaths": unreproduced_deaths,
            "process_death_confirmations": [{"signature": list(k), **(c or {})} for k, c in confirmations.items()],
            "samples": samples, "selftest": stest, "wall_s": round(time.time() - t_start, 1),
            "rule": "one evaluation = one delivery: a TLC-enumerated batch shape (reply kinds and sizes by position relative to the 4096-byte boundary) turned into pipelined request frames, "
                    "answered by the real Server.handle, judged by the TLA+ trace spec MonOutBuf",
        }
        out.coverage["output_path"] = cov
        out.coverage["evaluations"] = out.coverage.get("evaluations", 0) + ndeliv
        out.coverage["states"] = out.coverage.get("states", 0) + sum(c["states"] for c in mcs) + sum(g["states"] for g in gen_runs)
        out.coverage["transitions"] = out.coverage.get("transitions", 0) + sum(c["transitions"] for c in mcs) + sum(g["transitions"] for g in gen_runs)
        out.coverage["traces_validated_against_impl"] = out.coverage.get("traces_validated_against_impl", 0) + mon["lines"]
        if os.environ.get("VERIF_VERBOSE"):
            print(f"[C13] output path: {len(behs)} behaviours, {ndeliv} deliveries, real code {run_wall:.1f}s, monitor {mon_wall:.1f}s, viols {len(mon['viols'])} obs {len(mon['obs'])} divs {len(mon['divs'])}, total {time.time()-t_start:.1f}s", flush=True)
        return out
    finally:
        if os.environ.get("VERIF_KEEP_SCRATCH") != "1":
            shutil.rmtree(wd, ignore_errors=True)


# ------------------------------------------------------------------ (6) request SEQUENCES (added at integration)
# The class paths above are at most a few frames long.  Crashes that need a multi-step well-formed history (a particular
# sequence of LOCK / UNLOCK frames, timers in between) are explored with the sequential engine of the lock family: every
# request it issues is a valid 64-byte frame, a panic of the real code is recorded as an event and judged by the TLA+
# trace spec spec/mon/MonCrash.tla.

# ------------------------------------------------------------------ (7) command-object pool of the connections (CmdPool.tla)
# Well-formed LOCK / UNLOCK histories whose VOLUME matters: the per-connection stack of recycled command objects (64 slots)
# fills when one connection releases many simultaneously outstanding holds.  spec/CmdPool.tla is the three-tier pool as
# coded; TLC exhausts it (PrivBound, OnePlace, Conserved), refutes the one-off guard, and -simulate behaviours (one model
# object = 16 real requests) plus boundary histories are replayed on the real Server.handle / protocol objects (engine W).
# A death of the harness process inside the code under test is judged by the TLA+ trace spec MonCrash (wcrash clause).

def read_cfg_text(rel):
    with open(os.path.join(VERIF, "spec", rel)) as fh:
        return fh.read()

def run_pool(prop, tier, seed, out, binp, wd):
    import gen_pool
    from checks import sessfam
    quick = tier == "quick"
    specs = [os.path.join(VERIF, "spec")]
    info = {"model": "spec/CmdPool.tla"}
    r = vtlc.run_tlc(specs, "CmdPool", read_cfg_text("mc/CmdPool_small.cfg"), os.path.join(wd, "pool_mc"), workers=8, timeout=600)
    st = vtlc.parse_stats(r["out"])
    if "No error has been found" not in r["out"] or not st:
        raise InfraError("CmdPool model check (as coded) did not pass:\n" + r["out"][-1500:])
    info["as_coded"] = {"config": "mc/CmdPool_small.cfg", "distinct_states": st["distinct"], "generated": st["generated"], "invariants": ["TypeOK", "PrivBound", "OnePlace", "Conserved"], "wall_s": round(r["wall"], 1)}
    r2 = vtlc.run_tlc(specs, "CmdPool", read_cfg_text("mc/CmdPool_oneoff.cfg"), os.path.join(wd, "pool_mc2"), workers=1, timeout=300)
    if "Invariant PrivBound is violated" not in r2["out"]:
        raise InfraError("CmdPool: the one-off guard was not refuted (vacuity):\n" + r2["out"][-1500:])
    info["one_off_guard_refuted"] = True
    nb = 24 if quick else 400
    cfg = read_cfg_text("sim/CmdPool_sim.cfg")
    rs = vtlc.run_tlc(specs, "CmdPoolSim", cfg, os.path.join(wd, "pool_sim"), workers=1, timeout=600, simulate=f"num={nb * 3}", depth=300, seed=seed)
    behs = []
    seen = set()
    for ln in rs["out"].splitlines():
        ln = ln.strip()
        if ln.startswith('"BEHAVIOUR '):
            try:
                sj = json.loads(ln)[len("BEHAVIOUR "):]
            except Exception:
                continue
            if sj not in seen:
                seen.add(sj)
                behs.append(json.loads(sj))
    if len(behs) < 3:
        raise InfraError("CmdPoolSim produced no behaviours:\n" + rs["out"][-1500:])
    behs = behs[:nb]
    scs = [gen_pool.compile_behaviour(b, 4, f"pool-tlc-{seed}-{i}", seed * 1000 + i) for i, b in enumerate(behs)] + gen_pool.directed(seed)
    sessfam.W_OPTS.update({"deadline": 30, "timeout": 600} if quick else {"deadline": 60, "timeout": 1500})
    res = sessfam.run_w(binp, scs, os.path.join(wd, "pool_w"), 16)
    traces = res["traces"] if isinstance(res, dict) else res[0]
    viols, mst = engine.monitor_traces("MonCrash", traces, [prop], os.path.join(wd, "pool_mon"))
    byname = {sc["name"]: sc for sc in scs}
    for v in viols:
        out.viols.append((v, byname.get(v.get("name"))))
    # what the real private stacks did (evidence; the model says the index never passes the guard)
    mx, full, nreq = 0, 0, 0
    for tp in traces:
        with open(tp) as fh:
            for ln in fh:
                if '"e":"wpool"' in ln:
                    ev = json.loads(ln)
                    for v in ev.get("priv", {}).values():
                        mx = max(mx, v)
                        full += 1 if v >= 64 else 0
                elif '"e":"wreq"' in ln:
                    nreq += 1
    if mx > 64:
        out.viols.append(({"prop": prop, "code": "private-command-stack-index-beyond-its-array", "detail": {"index": mx}}, None))
    info.update({"tlc_behaviours_replayed": len(behs), "directed_histories": len(gen_pool.directed(seed)), "requests": nreq,
                 "max_private_stack_index_seen": mx, "observations_with_full_stack": full, "monitor_events": mst["events"]})
    if full == 0:
        raise InfraError("pool phase: no history filled a private command stack (generator vacuous)")
    out.coverage["command_pool"] = info
    out.coverage["evaluations"] = out.coverage.get("evaluations", 0) + len(scs)
    out.coverage["states"] = out.coverage.get("states", 0) + st["distinct"]
    out.coverage["traces_validated_against_impl"] = out.coverage.get("traces_validated_against_impl", 0) + len(scs)

# ------------------------------------------------------------------ (8) sequences with the re-issuing / holdless request flags
# The lock-family histories of phase (6) stay inside the 'core command subset' of the lock properties.  C13 quantifies over ANY
# field values: the request flags that re-issue commands or succeed without a hold (unlock-to-wait, reverse-key on timeout /
# expiry, less-lock-version, keepalive; spec/LockEngineExt.tla is their model, 12.11) are driven through the real LockDB and its
# executor by engine X; a panic of the real code in such a history of well-formed frames is judged by MonCrash.

def run_extflags(prop, tier, seed, out, binp, wd):
    import gen_lockext, random as _r
    quick = tier == "quick"
    n = 160 if quick else 2500
    scs = [gen_lockext.random_history(_r.Random(seed * 1000003 + 77000 + i), f"c13x-{seed}-{i}") for i in range(n)] + gen_lockext.directed()
    scs = [{k: v for k, v in sc.items() if not k.startswith("_")} for sc in scs]
    res = engine.run_harness(binp, "TestVerifLockExt", scs, os.path.join(wd, "xrun"), tag="c13x", timeout=600 if quick else 2400)
    traces = []
    byname = {sc["name"]: sc for sc in scs}
    for fin, fout, p in res:
        if p is not None:
            cv = engine.crash_verdict(prop, binp, "TestVerifLockExt", fin, fout, p, os.path.join(wd, "xrun"), code="engine-panic@process-died", timeout=300)
            if cv is None:
                raise InfraError(f"engine X died on {fin}:\n" + (p.stdout or "")[-1500:] + (p.stderr or "")[-1500:])
            out.viols.append(cv)
            engine.drop_unfinished(fout)
        traces.append(fout)
    viols, mst = engine.monitor_traces("MonCrash", traces, [prop], os.path.join(wd, "xmon"))
    for v in viols:
        out.viols.append((v, byname.get(v.get("name"))))
    out.coverage["extended_flag_sequences"] = {"histories": len(scs), "events": mst["events"], "model": "spec/LockEngineExt.tla", "monitor": "spec/mon/MonCrash.tla",
                                               "rule": "histories of well-formed LOCK/UNLOCK frames carrying the unlock-to-wait, reverse-key, less-lock-version and keepalive flags, with the executor and virtual-clock sweeps; a panic of the real code is a C13 violation"}
    out.coverage["evaluations"] = out.coverage.get("evaluations", 0) + len(scs)

def run(prop, tier, seed):
    import gen_core, shutil
    wd = vbuild.scratch(f"vf_{prop}_seq_")
    try:
        quick = tier == "quick"
        binp = vbuild.build_inpkg("server", wd)
        only = os.environ.get("VERIF_C13_ONLY", "")                 # development aid: "ob" = output-path phase alone
        if only == "ob":
            out = checklib.Outcome(); out.level = "exploration"; out.coverage = {}
            return run_outbuf(prop, tier, seed, out, binp)
        if only == "xflags":
            out = checklib.Outcome(); out.level = "exploration"; out.coverage = {}
            run_extflags(prop, tier, seed, out, binp, wd)
            return out
        if only == "pool":
            out = checklib.Outcome(); out.level = "exploration"; out.coverage = {}
            run_pool(prop, tier, seed, out, binp, wd)
            return out
        out = run_bytes(prop, tier, seed, binp)
        run_outbuf(prop, tier, seed, out, binp)
        scs = [gen_core.gen_scenario(seed + 1000, i) for i in range(270 if quick else 4000)] + [gen_core.gen_big(seed + 1000, i) for i in range(14 if quick else 140)]
        res = engine.run_harness(binp, "TestVerifS", scs, os.path.join(wd, "run"))
        traces = []
        for fin, fout, p in res:
            if p is not None:
                raise InfraError(f"engine S died on {fin}:\n" + (p.stdout or "")[-2000:] + (p.stderr or "")[-2000:])
            traces.append(fout)
        viols, mst = engine.monitor_traces("MonCrash", traces, [prop], os.path.join(wd, "mon"))
        byname = {sc["name"]: sc for sc in scs}
        for v in viols:
            out.viols.append((v, byname.get(v.get("name"))))
        # self-test: a panic event appended to an accepted history must be reported
        st = {"rejected": None}
        if traces:
            lines = open(traces[0]).read().splitlines()
            i = next((k for k, x in enumerate(lines) if '"e":"req"' in x), None)
            if i is not None:
                lines.insert(i + 1, json.dumps({"e": "panic", "msg": "selftest", "site": "selftest", "op": "lock", "t": 0}))
                pth = os.path.join(wd, "selftest.ndjson")
                open(pth, "w").write("\n".join(lines) + "\n")
                v2, _ = engine.monitor_traces("MonCrash", [pth], [prop], os.path.join(wd, "selftest"))
                st = {"corruption": "a panic event inserted after the first request", "rejected": len(v2) > 0}
                if not st["rejected"]:
                    raise InfraError("self-test failed: MonCrash accepted an inserted panic event")
        out.coverage["request_sequences"] = {"histories": len(scs), "events": mst["events"], "monitor": "spec/mon/MonCrash.tla", "selftest": st,
                                             "rule": "lock-family histories (wide-range + big populations) of well-formed LOCK/UNLOCK requests with virtual-clock sweeps; a panic of the real code is a C13 violation"}
        out.coverage["evaluations"] = out.coverage.get("evaluations", 0) + len(scs)
        run_pool(prop, tier, seed, out, binp, wd)
        run_extflags(prop, tier, seed, out, binp, wd)
        return out
    finally:
        shutil.rmtree(wd, ignore_errors=True)

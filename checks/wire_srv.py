"""Scenario generator for the server-side part of check C14 (see checks/wire.py; no PROPS here)."""
import hashlib

def numeral(v, w):
    return [(v >> (8 * (w - 1 - i))) & 0xff for i in range(w)]

def le(v, w):
    return [(v >> (8 * i)) & 0xff for i in range(w)]

def lock_frame(ctype, rid, flag, db, lid, key, to, tf, ex, ef, cnt, rc):
    return [0x56, 1, ctype] + list(rid) + [flag & 0xff, db & 0xff] + list(lid) + list(key) + le(to, 2) + le(tf, 2) + le(ex, 2) + le(ef, 2) + le(cnt, 2) + [rc & 0xff]

def value_frame(data, ctype=0, stage=0, flag=0):
    body = [(stage << 6) | ctype, flag] + list(data)
    return le(len(body), 4) + body

def rnd16(rng):
    return [rng.randint(0, 255) for _ in range(16)]

def cuts_for(rng, n):
    mode = rng.random()
    if mode < 0.3:
        return []
    k = rng.choice([1, 1, 2, 3, 5])
    return sorted({rng.randint(1, n - 1) for _ in range(k)})

def norm(s):
    s = bytes(s)
    if len(s) <= 16:
        return [0] * (16 - len(s)) + list(s)
    if len(s) == 32:
        try:
            return list(bytes.fromhex(s.decode("ascii")))
        except Exception:
            pass
    return list(hashlib.md5(s).digest())

def _parse_req(chunks, a9fixed):
    """Generator-side port of ParseRequest (stages 0-4) used ONLY to choose the reply deadline of a scenario step:
    returns the argument lists completed after feeding the chunks, or None on a parse error."""
    stage, args, hdr, ci, cl, argc, done = 0, [], b"", 0, 0, 0, []
    for buf in chunks:
        i, n = 0, len(buf)
        while i < n:
            if stage == 0:
                if buf[i:i + 1] != b"*":
                    return None
                i += 1
                stage = 1
            elif stage in (1, 3):
                j = buf.find(b"\n", i)
                if j < 0:
                    hdr += buf[i:].replace(b"\r", b"")
                    i = n
                    break
                hdr += buf[i:j].replace(b"\r", b"")
                if not hdr.isdigit():
                    return None
                if stage == 1:
                    argc, stage = int(hdr), 2
                else:
                    cl, stage = int(hdr), 4
                hdr, ci, i = b"", 0, j + 1
            elif stage == 2:
                if buf[i:i + 1] != b"$":
                    return None
                i += 1
                stage = 3
            else:
                rem = cl - ci
                if rem > 0:
                    if n - i < rem:
                        if ci == 0:
                            args.append(buf[i:])
                        else:
                            args[-1] += buf[i:]
                        ci += n - i
                        i = n
                        break
                    if ci == 0:
                        args.append(buf[i:i + rem])
                    else:
                        args[-1] += buf[i:i + rem]
                    ci = cl if a9fixed else rem
                    i += rem
                j = buf.find(b"\n", i)
                if j < 0:
                    i = n
                    break
                if cl == 0:
                    args.append(b"")
                ci, cl, i = 0, 0, j + 1
                if len(args) < argc:
                    stage = 2
                else:
                    stage = 0
                    done.append(args)
                    args = []
    return done

def a9_changes_parse(raw, cuts):
    ends = list(cuts) + [len(raw)]
    chunks, a = [], 0
    for e in ends:
        chunks.append(raw[a:e])
        a = e
    return _parse_req(chunks, True) != _parse_req(chunks, False)

def text_twin(args, rng):
    """Generator-side mirror of Wire!TextToCommand (the monitor re-derives it from the spec and refuses to judge on disagreement)."""
    up = [bytes(a).upper() for a in args]
    ctype = 2 if up[0] == b"UNLOCK" else 1
    f = dict(flag=0, to=15, ex=120, cnt=0, rc=0, lid=[0] * 16)
    for i in range(2, len(args) - 1, 2):
        k, v = up[i], bytes(args[i + 1])
        if k == b"LOCK_ID":
            f["lid"] = norm(v)
        elif k == b"FLAG":
            f["flag"] = int(v) & 0xff
        elif k == b"TIMEOUT":
            f["to"] = int(v)
        elif k == b"EXPRIED":
            f["ex"] = int(v)
        elif k == b"COUNT":
            f["cnt"] = (int(v) - 1 if int(v) > 0 else 0) & 0xffff
        elif k == b"RCOUNT":
            f["rc"] = (int(v) - 1 if int(v) > 0 else 0) & 0xff
    return lock_frame(ctype, rnd16(rng), f["flag"], 1, f["lid"], norm(args[1]), f["to"] & 0xffff, (f["to"] >> 16) & 0xffff,
                      f["ex"] & 0xffff, (f["ex"] >> 16) & 0xffff, f["cnt"], f["rc"])

TFLAGS = [0, 0, 0x40, 0x0800, 0x2000, 0x0100, 0x0840]
EFLAGS = [0, 0, 0x40, 0x0100, 0x0200, 0x0800, 0x1000, 0x2000, 0x4000, 0x1040]

def gen(rng, ids, quick, md5_of, lock_args):
    scs = []
    bs = lambda s: list(s.encode())
    # --- binary frames through the hand-inlined codec
    for i in range(40 if quick else 400):
        key, lid, lid2 = rnd16(rng), rnd16(rng), rnd16(rng)
        if rng.random() < 0.15:
            key = [0] * 11 + [rng.randint(0, 255) for _ in range(5)]      # short key, still unique per scenario
        cnt = rng.choice([0, 0, 1, 2, 255, 256, 0x7fff, 0xfffe])
        rc = rng.choice([0, 0, 1, 2, 127, 254])
        ex = rng.choice([1, 2, 60, 255, 256, 0x1234, 0xffff])
        to = rng.choice([0, 1, 5, 255, 256, 0x1234, 0xffff])
        tf, ef = rng.choice(TFLAGS), rng.choice(EFLAGS)
        steps = []
        f1 = lock_frame(1, rnd16(rng), rng.choice([0, 0, 1, 2, 8]), 0, lid, key, to, tf, ex, ef, cnt, rc)
        data1 = []
        if rng.random() < 0.3:
            f1[19] |= 0x20
            data1 = value_frame([rng.randint(0, 255) for _ in range(rng.choice([0, 1, 3, 100, 300]))])
        steps.append({"b": f1, "data": data1, "cuts": cuts_for(rng, 64 + len(data1))})
        if rng.random() < 0.7:      # a second request on the same key, answered at once (timeout 0)
            f2 = lock_frame(1, rnd16(rng), rng.choice([0, 1, 8]), 0, lid2, key, 0, rng.choice([0, 0x0800]), rng.choice([1, 77, 0xfffe]), rng.choice(EFLAGS),
                            rng.choice([cnt, 0, 1, 0xffff]), rng.choice([0, rc]))
            steps.append({"b": f2, "data": [], "cuts": cuts_for(rng, 64)})
        if rng.random() < 0.5:      # re-lock by the holder (re-entrant depth / LOCKED_ERROR)
            f3 = lock_frame(1, rnd16(rng), rng.choice([0, 2]), 0, lid, key, 0, 0, ex, ef, cnt, rc)
            steps.append({"b": f3, "data": [], "cuts": cuts_for(rng, 64)})
        if rng.random() < 0.8:
            who = rng.choice([lid, lid, lid2])
            f4 = lock_frame(2, rnd16(rng), rng.choice([0, 0, 1, 2]), 0, who, key, rng.choice([0, 0x1234]), rng.choice([0, 0x0800]),
                            rng.choice([0, 0x4321]), rng.choice([0, 0x0800]), rng.choice([0, cnt, 0xabcd]), rng.choice([0, rc, 1]))
            data4 = []
            if rng.random() < 0.2:
                f4[19] |= 0x20
                data4 = value_frame([rng.randint(0, 255) for _ in range(rng.choice([1, 5, 64]))])
            steps.append({"b": f4, "data": data4, "cuts": cuts_for(rng, 64 + len(data4))})
        if rng.random() < 0.3:      # unlock of something never locked
            f5 = lock_frame(2, rnd16(rng), 0, 0, rnd16(rng), rnd16(rng), 0, 0, 0, 0, rng.choice([0, 0x1234]), rng.choice([0, 0x56]))
            steps.append({"b": f5, "data": [], "cuts": cuts_for(rng, 64)})
        scs.append({"k": "srvbin", "id": ids.next(), "db": rng.choice([0, 2, 4]), "steps": steps})
    # --- text commands next to their binary twin
    for i in range(30 if quick else 300):
        keys = rng.choice(["k%d" % rng.getrandbits(40), "key:%d:%s" % (i, "y" * rng.randint(10, 40)), "%032x" % rng.getrandbits(128),
                           ("%032x" % rng.getrandbits(128)).upper(), "p%015d" % rng.getrandbits(48), "q%016d" % rng.getrandbits(50), "%031xz" % rng.getrandbits(124)])
        id1 = rng.choice(["a%d" % rng.randint(0, 999), "%032x" % rng.getrandbits(128), "i" * rng.randint(17, 33), "sixteen-bytes-id!"[:16]])
        id2 = "b%d" % rng.randint(0, 999)
        cnt = rng.choice([None, 0, 1, 2, 3, 1000, 65535])
        rc = rng.choice([None, 0, 1, 2, 255])
        def mk(word, lid, to=None, ex=None, flag=None, withcnt=True, lower=False):
            a = [word, keys, "LOCK_ID", lid]
            opts = []
            if to is not None:
                opts.append(("TIMEOUT", str(to)))
            if ex is not None:
                opts.append(("EXPRIED", str(ex)))
            if flag is not None:
                opts.append(("FLAG", str(flag)))
            if withcnt and cnt is not None:
                opts.append(("COUNT", str(cnt)))
            if withcnt and rc is not None:
                opts.append(("RCOUNT", str(rc)))
            rng.shuffle(opts)
            for k, v in opts:
                a += [k, v]
            if lower:
                a = [x.lower() if j % 2 == 0 and j != 1 else x for j, x in enumerate(a)]
            return [bs(x) for x in a]
        steps = []
        seq = [mk("LOCK", id1, to=rng.choice([None, 0, 3, 0x400002]), ex=rng.choice([None, 1, 30, 65535, 0x40003c, 0x40000001]), flag=rng.choice([None, 0, 8]),
                  lower=rng.random() < 0.2)]
        if rng.random() < 0.7:
            seq.append(mk("LOCK", id2, to=0, ex=rng.choice([None, 5]), flag=rng.choice([None, 1])))
        if rng.random() < 0.4:
            seq.append(mk("LOCK", id1, to=0, ex=rng.choice([None, 9]), flag=rng.choice([None, 2])))
        if rng.random() < 0.8:
            seq.append(mk("UNLOCK", rng.choice([id1, id1, id2]), flag=rng.choice([None, 0, 1]), withcnt=rng.random() < 0.5))
        for a in seq:
            n = len(b"*%d\r\n" % len(a)) + sum(len(b"$%d\r\n" % len(x)) + len(x) + 2 for x in a)
            cuts = cuts_for(rng, n) if rng.random() < 0.15 else ([] if rng.random() < 0.3 else [rng.randint(1, n - 1)])
            raw = b"*%d\r\n" % len(a) + b"".join(b"$%d\r\n" % len(x) + bytes(x) + b"\r\n" for x in a)
            steps.append({"args": a, "md5s": [md5_of(x) for x in a], "cuts": cuts, "b": text_twin(a, rng), "mayhang": a9_changes_parse(raw, cuts)})
        scs.append({"k": "srvtext", "id": ids.next(), "db": 0, "steps": steps})
    # directed: a text semaphore lock (COUNT 2) whose COUNT keyword is completed by a second read and whose line end
    # arrives in a third one (finding A9 end to end through the real server read loop)
    a = [bs(x) for x in ["LOCK", "a9-demo-key", "LOCK_ID", "a9-demo-id", "TIMEOUT", "0", "EXPRIED", "30", "COUNT", "2"]]
    raw = b"*%d\r\n" % len(a) + b"".join(b"$%d\r\n" % len(x) + bytes(x) + b"\r\n" for x in a)
    p = raw.index(b"COUNT")
    scs.append({"k": "srvtext", "id": ids.next(), "db": 0, "steps": [
        {"args": a, "md5s": [md5_of(x) for x in a], "cuts": [p + 3, p + 5], "b": text_twin(a, rng), "mayhang": True}]})
    return scs

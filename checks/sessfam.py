"""Check C18 (disconnect semantics: wills run once, nothing leaks or misroutes) - engine W.

  (1) TLC exhaustive design check of spec/Session.tla (connection lifetimes, clients table, proxy re-routing,
      Close()) with the code's named deviations fixed (what the property demands) AND as the code is
      (everything else must still hold); liveness "queued requests still end" on the small configuration
  (2) for every named deviation TLC produces a counterexample on the as-is model; it is compiled to a replay
      script and run on the REAL server (a TLC counterexample alone is never a verdict)
  (3) TLC -simulate behaviours of SessionSim (close point relative to pending grants / timeouts / expiries,
      gated will execution, reconnects, binary and text) compiled to driver steps and replayed on the real
      Server.handle / Binary-/TextServerProtocol over net.Pipe with the virtual clock
  (4) seeded wide-range lifetimes + directed regression histories on the real code
  (5) every recorded trace validated by TLC against the property monitor spec/mon/MonSession.tla
  (6) binding self-test: recorded traces are corrupted (one field each) and must be rejected
"""
import json, os, re, shutil, time, random, concurrent.futures as cf
import vbuild, vtlc, engine, gen_sess, checklib
from vbuild import VERIF, InfraError

PROPS = ["C18"]
ENGINES = [{"name": "W", "path": "harness/inpkg/server/zz_verif_w_test.go", "serves_properties": ["C18"],
            "kind_free_text": "real Server.handle / Binary- and TextServerProtocol / ProxyServerProtocol over net.Pipe connections with the virtual clock (hook H1) and will executions parked at hook H3; TLC counterexamples, TLC -simulate behaviours and seeded connection lifetimes replayed; ndjson traces validated by TLC against spec/mon/MonSession.tla; survives (and attributes) the death of a harness process"}]

MANIFEST = {"C18": dict(level="model_checking", design="5/C18", engine="W",
    technique="TLA+ model of connection lifetimes (Session) checked by TLC; TLC counterexamples and -simulate behaviours replayed on the real Server.handle over net.Pipe (virtual clock, gated will execution); every recorded trace validated by TLC against the TLA+ monitor MonSession",
    text="TLC exhausts the Session model (Connect, Init, RegisterWill, requests, Hangup, CloseMark, WillExec, CloseFinish, Timeout, Expire, reply routing live / by client id / dropped) for: wills exactly once in registration order and never before the disconnect, no reply to a connection that did not announce the requester's id, holds untouched by the disconnect itself, one disposition per request, empty tables after the drain, queued requests still ending (liveness) - with the code's three former deviations (all repaired in /repo) fixed; each deviation's TLC counterexample is kept as a regression replay that must not reproduce. Behaviours of the as-is model and wider seeded lifetimes are replayed on the real protocol objects; the monitor judges every reply frame on every pipe, the lock table before / after each disconnect (execution count and order of wills are visible as re-entrant depth on private keys), the clients / sessions tables after the drain, and the survival of the server process.",
    note="Trusted: TLC; engine W (real Server.handle, checkProtocol, Binary/TextServerProtocol, ProxyServerProtocol and LockDB over net.Pipe, sweeps driven by the virtual clock of hook H1, will executions parked at hook H3); the monitor MonSession, which knows only who sent what, which id each connection announced, and LOCK/UNLOCK on a key one connection uses alone. The driver is sequential except for gated will executions; wall-clock races between handler goroutines are not enumerated. A harness process that dies inside a scenario is attributed to that scenario (stack trace frame recorded) and the rest of the shard is re-run. Server.removeStream never unlinks the last stream of the list: one stale stream is tolerated (bounded), more is a violation.")}

# F1, F2, F4 were repaired in /repo (fb81e61, 4d4abfd, 9dea0f2): "as the code is" = all three fixed; the counterexamples of
# the deviations stay as regression replays that must NOT reproduce on the real code
FLAGS_ASIS = {}
ASIS_INVS = "INVARIANTS TypeOK WillsOnce NoLeak QueuedLive OneDisposition DrainedClean"

def read_cfg(name):
    with open(os.path.join(VERIF, "spec", "mc", name)) as fh:
        return fh.read()

def asis(cfg, invs=ASIS_INVS, prop="PROPERTY HoldsSurvive"):
    for a, b in FLAGS_ASIS.items():
        cfg = cfg.replace(a, b)
    cfg = re.sub(r"INVARIANTS.*", invs, cfg)
    cfg = re.sub(r"PROPERTY.*", prop, cfg)
    return cfg

def tlc_mc(name, cfg, wd, timeout, workers, heap="3g"):
    r = vtlc.run_tlc(os.path.join(VERIF, "spec"), "Session", cfg, os.path.join(wd, "mc_" + name.replace("/", "_")), workers=workers, timeout=timeout, heap=heap)
    st = vtlc.parse_stats(r["out"])
    if r["rc"] == -9:
        raise InfraError(f"Session model check '{name}' timed out (design model, not a verdict on the code)")
    if st is None or "No error has been found" not in r["out"]:
        raise InfraError(f"Session model check '{name}' did not complete cleanly (design model, not a verdict on the code):\n" + r["out"][-3000:])
    return {"config": name, "distinct_states": st["distinct"], "generated": st["generated"], "wall_s": round(r["wall"], 1)}

def tlc_cex(tag, inv, base_cfg, wd):
    """The model with the deviation switched on must refute `inv`; the printed hist becomes a replay script."""
    cfg = asis(base_cfg, invs="INVARIANTS " + inv, prop="").replace(tag + "Fixed = TRUE", tag + "Fixed = FALSE")
    r = vtlc.run_tlc(os.path.join(VERIF, "spec"), "Session", cfg, os.path.join(wd, "cex_" + tag), workers=1, timeout=900, heap="2g")
    hs = gen_sess.parse_behaviours(r["out"].splitlines(), tag="CEX " + tag)
    if not hs:
        raise InfraError(f"the as-is Session model produced no counterexample for {inv} (model / spec problem, not a verdict):\n" + r["out"][-2000:])
    return hs[0], round(r["wall"], 1)

# ------------------------------------------------------------------ engine W runner (survives the death of a harness process)

def crash_info(err):
    fatal = None
    for ln in err.splitlines():
        if ln.startswith("fatal error: "):
            fatal = ln[len("fatal error: "):].strip()
            break
        if ln.startswith("panic: "):
            fatal = "panic: " + ln[7:].strip()[:120]
            break
    frame = None
    for f in re.findall(r"github\.com/snower/slock/server\.(\S+?)\(0x", err) + re.findall(r"github\.com/snower/slock/server\.(\S+?)\(", err):
        if "vw" in f or "TestVerif" in f or f.startswith("v"):
            continue
        frame = f
        break
    return fatal, frame

# watchdog of engine W: deadline of one driver step that waits for the code under test / outer timeout of one harness process
W_OPTS = {"deadline": 20, "timeout": 300}
HANG_CODES = ("connection-hung", "close-never-returned")

def run_w(binp, scenarios, workdir, nshards):
    os.makedirs(workdir, exist_ok=True)
    shards = engine.shard(scenarios, max(nshards, len(scenarios) // 200))     # short-lived processes whatever the CPU count
    def one(arg):
        i, sh = arg
        combined = os.path.join(workdir, f"w_trace_{i}.ndjson")
        rest, base, attempt, crashes, hangs = list(sh), 0, 0, [], 0
        with open(combined, "w") as out:
            while rest:
                fin = os.path.join(workdir, f"w_in_{i}_{attempt}.ndjson")
                fout = os.path.join(workdir, f"w_out_{i}_{attempt}.ndjson")
                with open(fin, "w") as fh:
                    for sc in rest:
                        fh.write(json.dumps(sc) + "\n")
                try:
                    p = vbuild.run_test(binp, "TestVerifW", {"VERIF_IN": fin, "VERIF_OUT": fout, "VERIF_IDX0": str(base),
                                                             "VERIF_STEP_DEADLINE": str(W_OPTS["deadline"])}, cwd=workdir, timeout=W_OPTS["timeout"])
                except Exception as ex:
                    raise InfraError(f"engine W shard {i} did not finish: {ex}")
                lines = []
                if os.path.exists(fout):
                    with open(fout) as fh:
                        for ln in fh.read().split("\n"):
                            if not ln:
                                continue
                            try:
                                json.loads(ln)
                            except Exception:
                                continue        # torn last line of a dead process
                            lines.append(ln)
                if p.returncode == 0 and "PASS" in p.stdout:
                    out.write("".join(l + "\n" for l in lines))
                    nb = sum(1 for l in lines if '"e":"begin"' in l)
                    if "VW-HANG-STOP" in p.stdout and 0 < nb < len(rest):
                        # the watchdog abandoned a hung history (recorded as a `hang` event) and stopped the process: the rest
                        # of the shard goes to a fresh one; after three hangs in one shard the rest is skipped (recorded)
                        hangs += 1
                        if hangs >= 3:
                            crashes.append({"name": rest[nb]["name"], "fatal": "skipped", "frame": f"{len(rest) - nb} histories of this shard not run after {hangs} hangs"})
                            break
                        rest, base, attempt = rest[nb:], base + nb, attempt + 1
                        continue
                    break
                nb = sum(1 for l in lines if '"e":"begin"' in l)
                ne = sum(1 for l in lines if '"e":"end"' in l)
                err = "\n".join(x for x in ((p.stderr or "") + (p.stdout or "")).splitlines() if not re.match(r"^\d{4}-\d\d-\d\d \S+ (ERROR|INFO|WARNING|DEBUG) ", x))
                fatal, frame = crash_info(err)
                if nb == 0 or fatal is None or "vw:" in (fatal or "") or frame is None:
                    raise InfraError(f"engine W died outside the code under test (shard {i}, attempt {attempt}, {nb} begun / {ne} ended):\n" + err[:1500] + "\n...\n" + err[-1500:])
                if nb == ne:
                    # died while the last scenario was being torn down (a handler goroutine of it was still running):
                    # attribute it to that scenario
                    k = max(j for j, l in enumerate(lines) if '"e":"end"' in l)
                    lines = lines[:k]
                culprit = rest[nb - 1]
                lines.append(json.dumps({"e": "wcrash", "fatal": fatal, "frame": frame, "t": 0}))
                lines.append(json.dumps({"e": "end", "name": culprit["name"], "idx": base + nb - 1, "t": 0, "complete": False}))
                out.write("".join(l + "\n" for l in lines))
                crashes.append({"name": culprit["name"], "fatal": fatal, "frame": frame})
                rest, base, attempt = rest[nb:], base + nb, attempt + 1
                if attempt > 400:
                    raise InfraError("engine W: too many dead harness processes in one shard")
        return combined, crashes
    traces, crashes = [], []
    with cf.ThreadPoolExecutor(max_workers=engine.NCPU) as ex:
        for tr, cr in ex.map(one, list(enumerate(shards))):
            traces.append(tr)
            crashes += cr
    return traces, crashes

def confirm_hangs(binp, viols, byname, workdir):
    """A `hang` (watchdog of engine W) counts only if the SAME history hangs again when it is run alone in a fresh process.
    Returns (violations to keep, info).  At most three distinct histories are re-run; further hangs blocked in the same frame
    as a confirmed one are kept without a re-run.  A hang that does not repeat is an infrastructure problem."""
    keep, info, verdict, frames = [], [], {}, set()
    for v in viols:
        if v.get("code") not in HANG_CODES:
            keep.append(v)
            continue
        name, frame = v.get("name"), v["detail"].get("blocked_in")
        if name not in verdict:
            if len(verdict) >= 3:
                verdict[name] = frame in frames
            else:
                sc = byname.get(name)
                again = False
                if sc is not None:
                    trs, _ = run_w(binp, [sc], os.path.join(workdir, f"hang_{len(verdict)}"), 1)
                    again = any('"e":"hang"' in ln for tr in trs for ln in open(tr))
                verdict[name] = again
                info.append({"history": name, "blocked_in": frame, "what": v["detail"].get("what"), "hangs_again_alone": again})
                if again:
                    frames.add(frame)
        if verdict[name]:
            keep.append(v)
    lost = [i for i in info if not i["hangs_again_alone"]]
    if lost:
        raise InfraError("engine W: a history hung once but not when run alone in a fresh process (load? not a verdict): " + json.dumps(lost))
    return keep, info

# ------------------------------------------------------------------ binding self-test

def histories(lines):
    starts = [i for i, x in enumerate(lines) if '"e":"begin"' in x[:60]] + [len(lines)]
    return [lines[a:b] for a, b in zip(starts, starts[1:])]

def corruptions(lines):
    """Yield (kind, corrupted lines, description, expected code).  One recorded field changed each."""
    evs = [json.loads(x) for x in lines]
    if any(e["e"] in ("wcrash", "wclosehung") for e in evs):
        return
    dump = lambda E: [json.dumps(e) for e in E]
    closed = [e["c"] for e in evs if e["e"] == "wclosed"]
    conns = {e["c"]: e for e in evs if e["e"] == "wconn"}
    wills = [e for e in evs if e["e"] == "wreq" and e["will"] and e["kind"] == "bin" and e["key"] >= 1000 and e["to"] == 0]
    # (a) the effect of a will disappears from the first snapshot after the disconnect (as if it never ran)
    for w in wills:
        if w["cmd"] != "L" or w["c"] not in closed:
            continue
        seen_closed = False
        for i, e in enumerate(evs):
            if e["e"] == "wclosed" and e["c"] == w["c"]:
                seen_closed = True
            if seen_closed and e["e"] == "snap":
                ks = [k for k in e["keys"] if k["key"] == w["key"]]
                if len(ks) == 1 and len(ks[0]["holders"]) == 1 and ks[0]["holders"][0]["depth"] == 1 and \
                   sum(1 for x in wills if x["key"] == w["key"]) == 1:
                    E = json.loads(json.dumps(evs))
                    E[i]["keys"] = [k for k in E[i]["keys"] if k["key"] != w["key"]]
                    yield "never", dump(E), f"line {i+1}: the hold created by will {w['id']} removed from the first snapshot after the disconnect", "will-never-executed"
                    E = json.loads(json.dumps(evs))
                    for k in E[i]["keys"]:
                        if k["key"] == w["key"]:
                            k["holders"][0]["depth"] = 2
                    yield "twice", dump(E), f"line {i+1}: depth of the hold created by will {w['id']} rewritten 1 -> 2", "will-executed-twice"
                break
    # (b) a reply frame is attributed to a connection that announced no / another id
    others = [c for c in conns if conns[c]["kind"] == "bin"]
    for i, e in enumerate(evs):
        if e["e"] == "wframe" and e["rid"] > 0:
            known = {x["c"] for x in evs[:i] if x["e"] == "wconn"}
            cand = [c for c in others if c != e["c"] and c in known]
            req = next((x for x in evs if x["e"] == "wreq" and x["id"] == e["rid"]), None)
            if cand and req and req["c"] == e["c"]:
                inits = {x["c"]: x["cid"] for x in evs if x["e"] == "winit"}
                cand = [c for c in cand if inits.get(c, -1) == -1 or inits.get(c) != inits.get(e["c"], -1)]
                if cand:
                    E = json.loads(json.dumps(evs))
                    E[i]["c"] = cand[0]
                    yield "misroute", dump(E), f"line {i+1}: reply frame of request {e['rid']} moved from connection {e['c']} to connection {cand[0]}", "reply-misrouted"
                    break
    # (c) a hold of an ended connection vanishes from a snapshot before its deadline
    for i, e in enumerate(evs):
        if e["e"] == "snap" and not e.get("final"):
            for k in e["keys"]:
                for h in k["holders"]:
                    fr = next((x for x in evs[:i] if x["e"] == "wframe" and x["res"] == 0 and x["ct"] == 1 and x["key"] == k["key"] and x["lid"] == h["lid"]), None)
                    if fr is None or k["key"] >= 1000:
                        continue
                    req = next((x for x in evs if x["e"] == "wreq" and x["id"] == fr["rid"]), None)
                    if req is None or req["will"] or req["c"] not in [x["c"] for x in evs[:i] if x["e"] == "wclose"]:
                        continue
                    if any(x["e"] == "wreq" and x["cmd"] == "U" and x["key"] == k["key"] and x["lid"] == h["lid"] for x in evs):
                        continue
                    if any(x["e"] == "wdrain" for x in evs[:i]) or not (e["t"] + 1 < fr["t"] + req["ex"]):
                        continue
                    E = json.loads(json.dumps(evs))
                    E[i]["keys"] = [x for x in E[i]["keys"] if x["key"] != k["key"]]
                    yield "hold", dump(E), f"line {i+1}: hold (key {k['key']}, LockId {h['lid']}) of ended connection {req['c']} removed from a snapshot before its deadline", "hold-lost-on-disconnect"
                    return

def selftest(traces, workdir, dirty=()):
    """Corrupt histories the monitor ACCEPTED (dirty = names of histories with a violation) and show it rejects them."""
    want = ["never", "twice", "misroute", "hold"]
    found = {}
    for tr in traces:
        with open(tr) as fh:
            lines = fh.read().splitlines()
        for hist in histories(lines):
            if len(hist) > 3000 or json.loads(hist[0]).get("name") in dirty:
                continue
            for kind, cl, desc, code in corruptions(hist):
                if kind not in found:
                    found[kind] = (cl, desc, code)
            if all(k in found for k in want):
                break
        if all(k in found for k in want):
            break
    res = []
    for kind in want:
        if kind not in found:
            res.append({"kind": kind, "corruption": None, "rejected": None})
            continue
        cl, desc, code = found[kind]
        p = os.path.join(workdir, f"selftest_{kind}.ndjson")
        with open(p, "w") as fh:
            fh.write("\n".join(cl) + "\n")
        viols, _ = engine.monitor_traces("MonSession", [p], ["C18"], os.path.join(workdir, "selftest_" + kind))
        codes = sorted({v["code"] for v in viols})
        res.append({"kind": kind, "corruption": desc, "expected_code": code, "rejected": code in codes, "codes": codes})
    return res

# ------------------------------------------------------------------ reply correlation on real protocol objects (shared with C03)

def corr_stats(traces):
    st = {"commands": 0, "replies": 0, "async_notices": 0, "idle_periods": 0, "text_connections": 0, "binary_connections": 0, "hangs": 0}
    for tr in traces:
        with open(tr) as fh:
            for ln in fh:
                e = json.loads(ln)
                k = e["e"]
                if k == "wreq":
                    st["commands"] += 1
                elif k in ("wframe", "wtext"):
                    st["replies"] += 1
                    if k == "wframe" and e["res"] == 9:
                        st["async_notices"] += 1
                elif k == "wtick":
                    st["idle_periods"] += 1
                elif k == "wconn":
                    st["text_connections" if e["kind"] == "text" else "binary_connections"] += 1
                elif k == "hang":
                    st["hangs"] += 1
    return st

def run_c03_part(out, tier, seed, wd):
    """C03 ("exactly one terminal reply per request, to the right client") on REAL text / binary protocol objects: idle
    connections whose holds expire / whose queued requests time out, then more commands (lib/gen_sess.gen_idle) on engine W;
    every trace validated by TLC against the reply-correlation clauses of spec/mon/MonSession.tla (Props = {"C03"}).
    Appends violations (prop C03) to out.viols and returns a coverage dict."""
    quick = tier == "quick"
    W_OPTS.update({"deadline": 20, "timeout": 300} if quick else {"deadline": 60, "timeout": 1500})
    n = 110 if quick else 2000
    scs = [gen_sess.gen_idle(seed, i) for i in range(n)] + [d for d in gen_sess.directed() if d["name"].startswith("dir-idle-")]
    # replies for one binary connection produced by several goroutines at the same moment (slow reader)
    scs += [gen_sess.gen_par(seed, i) for i in range(24 if quick else 400)]
    sub = os.path.join(wd, "c03w")
    os.makedirs(sub, exist_ok=True)
    binp = os.path.join(wd, "server.test")
    if not os.path.exists(binp):
        binp = vbuild.build_inpkg("server", wd)
    t0 = time.time()
    traces, crashes = run_w(binp, scs, os.path.join(sub, "run"), engine.NCPU)
    if crashes:
        raise InfraError("engine W (C03 part): a harness process died: " + json.dumps(crashes[:3]))
    viols, mst = engine.monitor_traces("MonSession", traces, ["C03"], os.path.join(sub, "mon"), timeout=900)
    byname = {sc["name"]: sc for sc in scs}
    viols, hanginfo = confirm_hangs(binp, [v for v in viols if v["prop"] == "C03"], byname, sub)
    for v in viols:
        out.viols.append((v, byname.get(v.get("name"))))
    cov = corr_stats(traces)
    cov.update({"histories": len(scs), "monitor_events": mst["events"], "hangs_confirmed_alone": hanginfo, "wall_s": round(time.time() - t0, 1),
                "engine": "W (real Binary/TextServerProtocol over net.Pipe, virtual clock)", "monitor": "spec/mon/MonSession.tla clauses R1-R4, Props = {C03}",
                "sample": {"name": scs[0]["name"], "steps": scs[0]["steps"][:12]}})
    return cov

# ------------------------------------------------------------------ the check

def run(prop, tier, seed):
    out = checklib.Outcome()
    wd = vbuild.scratch(f"vf_{prop}_")
    try:
        quick = tier == "quick"
        ncpu = engine.NCPU
        W_OPTS.update({"deadline": 20, "timeout": 300} if quick else {"deadline": 60, "timeout": 1500})
        # (1) design checks
        models = []
        qcfg = read_cfg("Session_quick.cfg")
        if quick:
            models.append(dict(tlc_mc("design/2conn-2req", qcfg, wd, 1800, ncpu), flags="F1,F2,F4 fixed = as the code is"))
        else:
            tcfg = read_cfg("Session_thorough.cfg")
            models.append(dict(tlc_mc("design/2conn-3req", tcfg, wd, 3000, ncpu, heap="8g"), flags="F1,F2,F4 fixed = as the code is"))
            models.append(dict(tlc_mc("design/3conn-bin", read_cfg("Session_three.cfg"), wd, 3000, ncpu, heap="8g"), flags="F1,F2,F4 fixed"))
            models.append(dict(tlc_mc("liveness/QueuedEnd", read_cfg("Session_live.cfg"), wd, 1200, ncpu), flags="F1,F2,F4 fixed, fair timers"))
        states = sum(m["distinct_states"] for m in models)
        trans = sum(m["generated"] for m in models)
        # (2) counterexamples of the named deviations -> replay scripts
        cex = []
        cex_scs = []
        for tag, inv in (("F1", "CexCrash"), ("F2", "CexTextWill"), ("F4", "CexMisroute")):
            h, wall = tlc_cex(tag, inv, qcfg, wd)
            sc = gen_sess.compile_hist(h, f"cex-{tag}", seed)
            cex_scs.append(sc)
            cex.append({"deviation": tag, "refuted_invariant": inv, "steps_of_counterexample": len(h), "wall_s": wall,
                        "status_in_repo": {"F1": "fixed fb81e61", "F2": "fixed 4d4abfd", "F4": "fixed 9dea0f2"}[tag] + ": regression replay, must not reproduce"})
        # (3) behaviours of the as-is model
        nb = 260 if quick else 3000
        with open(os.path.join(VERIF, "spec", "sim", "Session_sim.cfg")) as fh:
            simcfg = fh.read()
        behs = []
        for avoid, share in (("TRUE", 0.3), ("FALSE", 0.7)):
            n = max(20, int(nb * share))
            rs = vtlc.run_tlc(os.path.join(VERIF, "spec"), "SessionSim", simcfg.replace("AvoidF1 = TRUE", "AvoidF1 = " + avoid),
                              os.path.join(wd, "sim_" + avoid), workers=1, timeout=900, simulate=f"num={3 * n}", depth=400, seed=seed, heap="2g")
            got = gen_sess.parse_behaviours(rs["out"].splitlines())
            if len(got) < n // 2:
                raise InfraError("behaviour generation produced too few behaviours:\n" + rs["out"][-2000:])
            r0 = random.Random(seed)
            r0.shuffle(got)
            behs += got[:n]
        beh_scs = [gen_sess.compile_hist(b["hist"], f"tlc-{seed}-{n}", seed) for n, b in enumerate(behs)]
        model_crashes = sum(1 for b in behs if b["crashed"])
        # (4) wide-range + directed
        nr = 220 if quick else 3000
        rnd = [gen_sess.gen_random(seed, i, safe=(i % 8 != 7)) for i in range(nr)]
        direct = gen_sess.directed()
        idle = [gen_sess.gen_idle(seed, i) for i in range(50 if quick else 1000)]
        scs = cex_scs + beh_scs + rnd + direct + idle
        binp = vbuild.build_inpkg("server", wd)
        traces, crashes = run_w(binp, scs, os.path.join(wd, "run"), ncpu)
        # (5) monitor
        viols, mst = engine.monitor_traces("MonSession", traces, [prop], os.path.join(wd, "mon"), timeout=1500)
        byname = {sc["name"]: sc for sc in scs}
        viols, hanginfo = confirm_hangs(binp, [v for v in viols if v["prop"] == prop], byname, wd)
        for v in viols:
            out.viols.append((v, byname.get(v.get("name"))))
        cex_names = {v.get("name") for v in viols}
        for c, sc in zip(cex, cex_scs):
            c["reproduced_on_real_code"] = sc["name"] in cex_names
            c["codes"] = sorted({v["code"] for v in viols if v.get("name") == sc["name"]})
        ncmp, div = gen_sess.divergences(behs, beh_scs, traces)
        # (6) self-test
        stest = selftest(traces, wd, dirty={v.get("name") for v in viols})
        for s in stest:
            if s["rejected"] is False:
                raise InfraError(f"self-test failed: the monitor accepted a corrupted trace ({s['corruption']}), codes {s.get('codes')}")
        if not any(s["rejected"] for s in stest) and not out.viols:
            raise InfraError("self-test could not be carried out: no accepted trace offered a field to corrupt")
        # coverage measured from the traces
        cov = {"wconn": 0, "winit": 0, "wreq": 0, "wills": 0, "wframe": 0, "wtext": 0, "wclose": 0, "wclosed": 0, "wpark": 0, "rerouted": 0,
               "text_conns": 0, "closes_by": {}, "gated_closes": 0, "busy_text_closes": 0}
        for tr in traces:
            origin, will = {}, set()
            with open(tr) as fh:
                for ln in fh:
                    e = json.loads(ln)
                    k = e["e"]
                    if k == "begin":
                        origin, will = {}, set()
                    if k in cov and isinstance(cov[k], int):
                        cov[k] += 1
                    if k == "wreq":
                        origin[e["id"]] = e["c"]
                        if e["will"]:
                            cov["wills"] += 1
                    if k == "wconn" and e["kind"] == "text":
                        cov["text_conns"] += 1
                    if k == "wframe" and e["rid"] in origin and origin[e["rid"]] != e["c"]:
                        cov["rerouted"] += 1
                    if k == "wclose":
                        cov["closes_by"][e["how"]] = cov["closes_by"].get(e["how"], 0) + 1
                        cov["gated_closes"] += 1 if e["gate"] else 0
                        cov["busy_text_closes"] += 1 if e["busy"] else 0
        samples = [{"name": sc["name"], "steps": sc["steps"][:14]} for sc in (cex_scs[:1] + beh_scs[:1] + rnd[:1])]
        out.coverage = {
            "states": states, "transitions": trans, "traces_validated_against_impl": len(scs), "samples": samples, "exhaustive": True,
            "models": models,
            "model": {"module": "spec/Session.tla",
                      "invariants": ["TypeOK", "WillsOnce", "AllWillsRun", "NoCrash", "NoMisroute", "NoLeak", "QueuedLive", "OneDisposition", "DrainedClean", "HoldsSurvive (action property)", "LeftBehindStable (action property, with third-party Traffic steps)"] + ([] if quick else ["QueuedEnd (liveness)"]),
                      "named_deviations": {"F1": "closed inited binary connection looks itself up in the clients table: unbounded recursion (repaired fb81e61)", "F2": "text wills re-registered instead of executed (repaired 4d4abfd)", "F4": "never-announced connections share the all-zero proxy client id and were re-routed to a client that announced it (repaired 9dea0f2: an all-zero proxy id is never looked up)"}},
            "counterexamples_replayed": cex,
            "tlc_behaviours_replayed": len(beh_scs), "tlc_behaviours_ending_in_model_crash": model_crashes,
            "refinement": {"behaviours_compared_with_model_prediction": ncmp, "divergences": len(div), "first": div[:5],
                           "note": "holders of the shared keys at the end of each TLC behaviour, as-is model vs real code; a divergence is never a verdict"},
            "idle_histories": len(idle), "reply_correlation": corr_stats(traces), "hangs_confirmed_alone": hanginfo,
            "random_histories": len(rnd), "directed_histories": len(direct),
            "harness_processes_that_died_in_a_scenario": len(crashes), "died_in": sorted({c["frame"] for c in crashes}),
            "observed": cov,
            "monitor": {"module": "spec/mon/MonSession.tla", "events": mst["events"], "monitor_states": mst["monitor_states"]},
            "selftest": stest,
            "evaluations": len(scs), "distinct_nontrivial": len({json.dumps(s["steps"], sort_keys=True) for s in scs if any(x["op"] == "close" for x in s["steps"])}),
            "rule": "one evaluation = one connection-lifetime history replayed on the real server and validated by the TLA+ monitor; distinct = distinct step sequences; non-trivial = contains at least one explicit disconnect step",
        }
        out.assumptions = [
            "engine W is sequential: one driver goroutine; handler goroutines run only between a request and its PONG / reply; will executions inside Close() are interleaved with other steps only where the driver parks them at hook H3",
            "time is virtual (hook H1): sweeps are run by the driver; millisecond timers and wall-clock races are not exercised",
            "the monitor judges execution count and order of wills on keys that only the owning connection uses (re-entrant depth makes 0/1/2 executions distinguishable); on shared keys wills are judged through their reply frames on a same-id successor only",
            "one database (0), exclusive keys (Count 0), no value frames",
        ]
        return out
    finally:
        shutil.rmtree(wd, ignore_errors=True)

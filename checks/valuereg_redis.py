"""Second part of check C15 (called by checks/valuereg.py): the Redis-style text commands.

  TLC exhaustive check of spec/RedisCmdsMC.tla (the ValueReg register driven by the converted value
  operations IS the plain key-value store) -> TLC enumeration / simulation of command sequences ->
  replay through the real TextServerProtocol handlers (TestVerifRedis) -> TLC validation of every
  recorded reply against spec/mon/MonRedis.tla -> binding self-test.
"""
import json, os, random, time
import vbuild, vtlc, engine
from vbuild import VERIF, InfraError

SPEC = os.path.join(VERIF, "spec")

MC_CFG = '''SPECIFICATION Spec
CONSTANTS
  Keys = {"k1", "k2"}
  MaxCmds = %(n)d
  CmdSet = "%(set)s"
  Export = %(export)s
%(view)s
INVARIANTS %(invs)s
%(props)s
CHECK_DEADLOCK FALSE
'''

def render(c, keymap):
    """Model command record -> what is sent over the text protocol."""
    k = keymap[c["k"]]
    v = bytes(c["v"]).decode("latin1")
    name = c["c"]
    if name in ("SET", "GETSET", "SETNX", "APPEND"):
        args = [name, k, v]
    elif name in ("INCRBY", "DECRBY"):
        args = [name, k, str(c["d"])]
    elif name in ("EXPIRE", "PEXPIRE"):
        args = [name, k, str(c["d"])]
    elif name == "EXPIREAT":
        args = [name, k, "@s+%d" % c["d"]]          # the driver turns it into wall-clock now + n (seconds)
    elif name == "PEXPIREAT":
        args = [name, k, "@ms+%d" % c["d"]]
    elif name in ("SETEX", "PSETEX"):
        args = [name, k, str(c["d"]), v]
    elif name == "SET_EX":
        args = ["SET", k, v, "EX", str(c["d"])]
    elif name == "SET_PX":
        args = ["SET", k, v, "PX", str(c["d"])]
    elif name == "SET_NX":
        args = ["SET", k, v, "NX"]
    elif name == "SET_XX":
        args = ["SET", k, v, "XX"]
    elif name == "SET_NX_TX":
        args = ["SET", k, v, "NX", "TX", str(c["d"])]
    elif name == "SET_NX_PTX":
        args = ["SET", k, v, "NX", "PTX", str(c["d"])]
    elif name == "PERSIST3":
        args = ["PERSIST", k, "0"]        # the argument shape protocol/textcommand.go insists on
    elif name == "TICK":
        args = ["TICK", str(c["d"])]
    else:
        args = [name, k]
    r = {"args": args, "c": name, "k": c["k"], "v": list(c["v"]), "d": c["d"]}
    if name in ("SET_NX_TX", "SET_NX_PTX"):
        r["maxticks"] = 100
    return r

def to_scenario(name, hist, idx, timeout=0):
    keymap = {m: f"{m}x{idx}" for m in ("k1", "k2", "k3")}
    return {"name": name, "timeout": timeout, "cmds": [render(c, keymap) for c in hist]}

def cmd(c, k, v=b"", d=0):
    return {"c": c, "k": k, "v": list(v), "d": d}

LETTERS = b"abcxyz019 _-"

def gen_random(seed, i, dev):
    """Random command history over three keys.  Without dev a shadow of 'which keys exist / who made them'
    steers away from the recorded deviations (generation only, not an oracle)."""
    rng = random.Random((seed << 18) ^ (i * 40503) ^ (3 if dev else 0))
    hist, shadow = [], {}
    for _ in range(rng.randint(6, 24)):
        k = rng.choice(["k1", "k2", "k3"])
        st = shadow.get(k)          # None / "s" / "n" / "nx"
        val = bytes(rng.choice(LETTERS) for _ in range(rng.randint(1, 14)))
        choices = ["SET", "GET", "DEL", "GETSET", "EXISTS", "STRLEN", "INCR", "DECR", "INCRBY", "DECRBY", "APPEND", "SETNX", "EXPIRE", "PERSIST3", "TICK"]
        name = rng.choice(choices)
        if not dev:
            if st == "nx" and name not in ("GET", "DEL", "EXISTS", "STRLEN", "SETNX", "TICK"):
                name = rng.choice(["GET", "DEL", "STRLEN"])
            if name == "APPEND" and st is None:
                name = "SET"
            if name in ("EXPIRE", "PERSIST3") and st is None:
                name = "EXISTS"
        if name in ("INCR", "DECR", "INCRBY", "DECRBY") and st in ("s", "nx"):
            name = "GET"
        if name == "APPEND" and st == "n":
            name = "STRLEN"
        d = 0
        if name in ("INCRBY", "DECRBY"):
            d = rng.choice([0, 1, 2, 9, 10, 99, 1000, 65536, 999999, -5])
        if name == "EXPIRE":
            d = 3
        if name == "TICK":
            d, k = 8, "k1"
        hist.append(cmd(name, k, val if name in ("SET", "GETSET", "SETNX", "APPEND") else b"", d))
        if name in ("SET", "GETSET"):
            shadow[k] = "s"
        elif name == "APPEND":
            shadow[k] = shadow.get(k) or "s"
        elif name == "SETNX" and st is None:
            shadow[k] = "nx"
        elif name in ("INCR", "DECR", "INCRBY", "DECRBY"):
            shadow[k] = "n"
        elif name == "DEL":
            shadow.pop(k, None)
        elif name == "TICK":
            shadow = {}     # conservative: keys with a ttl may be gone, the generator simply forgets everything
            hist.extend(cmd("DEL", kk) for kk in ("k1", "k2", "k3"))
    return hist

def directed():
    A, B = b"a", b"ba"
    return [
        ("rd-basic", [cmd("SET", "k1", A), cmd("GET", "k1"), cmd("APPEND", "k1", B), cmd("GET", "k1"), cmd("STRLEN", "k1"), cmd("EXISTS", "k1"),
                      cmd("GETSET", "k1", B), cmd("GET", "k1"), cmd("DEL", "k1"), cmd("GET", "k1"), cmd("EXISTS", "k1"), cmd("DEL", "k1")], 0),
        ("rd-counter", [cmd("INCR", "k1"), cmd("INCRBY", "k1", d=41), cmd("DECR", "k1"), cmd("DECRBY", "k1", d=100), cmd("GET", "k1"), cmd("STRLEN", "k1"), cmd("DEL", "k1"), cmd("DECR", "k1")], 0),
        ("rd-expire", [cmd("SET", "k1", A), cmd("EXPIRE", "k1", d=3), cmd("GET", "k1"), cmd("TICK", "k1", d=8), cmd("GET", "k1"), cmd("EXISTS", "k1"),
                       cmd("SET", "k1", B), cmd("EXPIRE", "k1", d=3), cmd("PERSIST3", "k1"), cmd("TICK", "k1", d=8), cmd("GET", "k1"), cmd("DEL", "k1")], 0),
        ("rd-setnx-default-timeout", [cmd("SETNX", "k1", A), cmd("SETNX", "k1", B), cmd("GET", "k1"), cmd("DEL", "k1"), cmd("SETNX", "k1", B), cmd("GET", "k1"), cmd("DEL", "k1")], -1),
        ("rd-del-then-reuse", [cmd("SET", "k1", A), cmd("EXPIRE", "k1", d=3), cmd("DEL", "k1"), cmd("GET", "k1"), cmd("INCR", "k1"), cmd("GET", "k1"), cmd("DEL", "k1"),
                               cmd("SETNX", "k1", B), cmd("GET", "k1"), cmd("DEL", "k1")], 0),
    ]

SEC_VALS = [1, 60, 65535, 65536, 100000]
MS_VALS = [1, 999, 1000, 2999, 3000, 3001, 5000, 59999, 60000, 65535, 65536, 70000, 65535000, 65535001, 65580500, 120000000]

def gen_ttl_random(seed, i):
    """Random time-to-live history on one key: option values drawn around the unit boundaries and anywhere between."""
    rng = random.Random((seed << 17) ^ (i * 7919) ^ 0x77)
    def sec():
        return rng.choice(SEC_VALS) if rng.random() < 0.5 else rng.choice([rng.randint(1, 300), rng.randint(60000, 70000), rng.randint(65536, 2000000)])
    def ms():
        return rng.choice(MS_VALS) if rng.random() < 0.5 else rng.choice([rng.randint(1, 3000), rng.randint(3001, 200000), rng.randint(65000000, 66000000), rng.randint(65535001, 500000000)])
    k, v = "k1", b"a"
    mk = rng.choice(["SET", "SET_EX", "SET_PX", "SETEX", "PSETEX"])
    hist = [cmd(mk, k, v, sec() if mk in ("SET_EX", "SETEX") else ms() if mk in ("SET_PX", "PSETEX") else 0)]
    for _ in range(rng.randint(1, 5)):
        name = rng.choice(["EXPIRE", "PEXPIRE", "EXPIREAT", "PEXPIREAT", "PERSIST", "APPEND", "GET", "EXISTS", "SET", "SET_EX", "SET_PX", "SETEX", "PSETEX", "GETSET", "SET_XX"])
        d = sec() if name in ("EXPIRE", "EXPIREAT", "SET_EX", "SETEX") else ms() if name in ("PEXPIRE", "PEXPIREAT", "SET_PX", "PSETEX") else 0
        if name == "PEXPIREAT" and (3000 < d <= 4000 or 65535000 < d <= 65536000):
            d += 1500       # converted against the wall clock: stay clear of the unit boundary
        hist.append(cmd(name, k, b"b" if name in ("APPEND", "SET", "SET_EX", "SET_PX", "SETEX", "PSETEX", "GETSET", "SET_XX") else b"", d))
    hist.append(cmd("DEL", k))
    return hist

def directed_ttl():
    """Histories that let the virtual clock run: the key is readable until its time-to-live and not after
    (terms above 3000 ms only - shorter millisecond terms sit on the millisecond wheel, which the virtual clock does not drive)."""
    A = b"a"
    out = []
    for name, d, before, after in [("SET_PX", 5000, 3, 6), ("SET_PX", 3001, 2, 6), ("SET_PX", 70000, 68, 8), ("PSETEX", 59999, 57, 8), ("SET_EX", 60, 58, 7),
                                   ("SETEX", 5, 3, 6), ("SET_EX", 1, 0, 6)]:
        h = [cmd(name, "k1", A, d)]
        if before:
            h += [cmd("TICK", "k1", d=before), cmd("GET", "k1"), cmd("EXISTS", "k1"), cmd("STRLEN", "k1")]
        h += [cmd("TICK", "k1", d=after), cmd("GET", "k1"), cmd("EXISTS", "k1"), cmd("STRLEN", "k1"), cmd("DEL", "k1")]
        out.append((f"rd-ttl-{name}-{d}", h, 0))
    for name, d, before, after in [("EXPIRE", 5, 3, 6), ("PEXPIRE", 5000, 3, 6), ("PEXPIRE", 65536, 64, 7), ("EXPIREAT", 60, 57, 9), ("PEXPIREAT", 70000, 67, 9)]:
        h = [cmd("SET", "k1", A), cmd(name, "k1", d=d), cmd("TICK", "k1", d=before), cmd("GET", "k1"), cmd("TICK", "k1", d=after), cmd("GET", "k1"), cmd("EXISTS", "k1"), cmd("DEL", "k1")]
        out.append((f"rd-ttl-{name}-{d}", h, 0))
    out.append(("rd-ttl-persist", [cmd("SET_EX", "k1", A, 5), cmd("PERSIST", "k1"), cmd("TICK", "k1", d=10), cmd("GET", "k1"), cmd("DEL", "k1")], 0))
    out.append(("rd-ttl-plain-set-clears", [cmd("SET_PX", "k1", A, 5000), cmd("SET", "k1", A), cmd("TICK", "k1", d=10), cmd("GET", "k1"), cmd("DEL", "k1")], 0))
    out.append(("rd-ttl-append-keeps", [cmd("SET_EX", "k1", A, 5), cmd("APPEND", "k1", A), cmd("TICK", "k1", d=10), cmd("GET", "k1"), cmd("DEL", "k1")], 0))
    # waits of SET .. NX TX / PTX on a key that exists
    for name, d in [("SET_NX_TX", 1), ("SET_NX_TX", 5), ("SET_NX_TX", 60), ("SET_NX_PTX", 3001), ("SET_NX_PTX", 5000), ("SET_NX_PTX", 59999), ("SET_NX_PTX", 70000)]:
        out.append((f"rd-wait-{name}-{d}", [cmd("SET", "k1", A), cmd(name, "k1", A, d), cmd("GET", "k1"), cmd("DEL", "k1"), cmd(name, "k1", A, d), cmd("GET", "k1"), cmd("DEL", "k1")], 0))
    return out

def enum(wd, name, n, cmdset, timeout):
    cfg = MC_CFG % {"n": n, "set": cmdset, "export": "TRUE", "view": "", "invs": "ExportInv", "props": ""}
    r = vtlc.run_tlc(SPEC, "RedisCmdsMC", cfg, os.path.join(wd, name), workers=engine.NCPU, timeout=timeout)
    st = vtlc.parse_stats(r["out"])
    if st is None or "No error has been found" not in r["out"]:
        raise InfraError(f"RedisCmdsMC enumeration {name} did not complete:\n" + r["out"][-2000:])
    import checks.valuereg as vr
    hs = [json.loads(x) for x in set(vr.parse_tagged(r["out"], "BEHAVIOUR"))]
    return [h for h in hs if len(h) == n], r["wall"]

def simulate(wd, name, n, num, seed, timeout, cmdset="all"):
    cfg = MC_CFG % {"n": n, "set": cmdset, "export": "TRUE", "view": "", "invs": "ExportInv", "props": ""}
    r = vtlc.run_tlc(SPEC, "RedisCmdsMC", cfg, os.path.join(wd, name), workers=1, timeout=timeout, simulate=f"num={num}", depth=n + 1, seed=seed)
    import checks.valuereg as vr
    hs = vr.maximal_behaviours(vr.parse_tagged(r["out"], "BEHAVIOUR"))
    if not hs:
        raise InfraError(f"RedisCmdsMC simulation produced nothing:\n" + r["out"][-2000:])
    return [h for h in hs if len(h) == n]

def selftest(traces, wd, monitor):
    """Corrupt one recorded reply of an accepted history; MonRedis must reject it."""
    for tr in traces:
        with open(tr) as fh:
            lines = fh.read().splitlines()
        starts = [i for i, x in enumerate(lines) if '"e":"begin"' in x[:60]]
        starts.append(len(lines))
        for a, b in zip(starts, starts[1:]):
            evs = [json.loads(x) for x in lines[a:b]]
            hit = None
            for e in evs:
                if e.get("e") == "rcmd" and e["c"] == "GET" and e["reply"]["t"] == "bulk" and e["reply"]["sb"]:
                    e["reply"]["sb"][-1] = (e["reply"]["sb"][-1] + 1) % 128
                    hit = f"command {e['i']} of {e['name']}: last byte of the GET reply changed"
                    break
            if not hit:
                continue
            p0, p1 = os.path.join(wd, "rst_orig.ndjson"), os.path.join(wd, "rst_bad.ndjson")
            with open(p0, "w") as fh:
                fh.write("\n".join(lines[a:b]) + "\n")
            with open(p1, "w") as fh:
                fh.write("\n".join(json.dumps(x) for x in evs) + "\n")
            v0, _ = monitor("MonRedis", [p0], os.path.join(wd, "rst0"))
            if v0:
                continue
            v1, _ = monitor("MonRedis", [p1], os.path.join(wd, "rst1"))
            return {"corruption": hit, "rejected": any(v["code"] == "redis-reply-differs-from-kv-store" for v in v1), "codes": sorted({v["code"] for v in v1})}
    return {"corruption": None, "rejected": None, "codes": []}

def run_part(out, wd, tier, seed, binp):
    import checks.valuereg as vr
    quick = tier == "quick"
    t0 = time.time()
    rng = random.Random(seed + 77)
    # design check
    cfg = MC_CFG % {"n": 4 if quick else 5, "set": "all", "export": "FALSE", "view": "VIEW view", "invs": "TypeOK Consequently NoStaleKey", "props": "PROPERTY Laws TtlLaws"}
    r = vtlc.run_tlc(SPEC, "RedisCmdsMC", cfg, os.path.join(wd, "rmc"), workers=engine.NCPU, timeout=300 if quick else 1800)
    st = vtlc.parse_stats(r["out"])
    if st is None or "No error has been found" not in r["out"]:
        raise InfraError("RedisCmdsMC exhaustive check did not complete cleanly (design model, not a verdict on the code):\n" + r["out"][-3000:])
    cfg_t = MC_CFG % {"n": 3, "set": "ttl", "export": "FALSE", "view": "VIEW view", "invs": "TypeOK Consequently NoStaleKey", "props": "PROPERTY Laws TtlLaws"}
    r_t = vtlc.run_tlc(SPEC, "RedisCmdsMC", cfg_t, os.path.join(wd, "rmc_ttl"), workers=engine.NCPU, timeout=300 if quick else 1800)
    st_t = vtlc.parse_stats(r_t["out"])
    if st_t is None or "No error has been found" not in r_t["out"]:
        raise InfraError("RedisCmdsMC (ttl alphabet) exhaustive check did not complete cleanly (design model, not a verdict on the code):\n" + r_t["out"][-3000:])
    # behaviours
    scs, idx = [], [0]
    def add(name, hist, timeout=0):
        idx[0] += 1
        scs.append(to_scenario(name, hist, idx[0], timeout))
    hs, w1 = enum(wd, "renum_rw", 3 if quick else 4, "rw", 600 if quick else 1800)
    n_rw = len(hs)
    if len(hs) > 60000:
        rng.shuffle(hs)
        hs = hs[:60000]
    for i, h in enumerate(hs):
        add(f"renum-rw-{i}", h)
    hs2, w2 = enum(wd, "renum_all", 2 if quick else 3, "all", 600 if quick else 1800)
    n_all = len(hs2)
    if len(hs2) > 40000:
        rng.shuffle(hs2)
        hs2 = hs2[:40000]
    for i, h in enumerate(hs2):
        add(f"renum-all-{i}", h)
    nsim = 1500 if quick else 30000
    hs3 = simulate(wd, "rsim", 6, max(8, nsim // 25), seed, 900)
    rng.shuffle(hs3)
    hs3 = hs3[:nsim]
    for i, h in enumerate(hs3):
        add(f"rsim-{seed}-{i}", h)
    nr = 600 if quick else 12000
    for i in range(nr):
        add(f"rrnd-{seed}-{i}", gen_random(seed, i, dev=False))
    for i in range(nr // 4):
        add(f"rrnddev-{seed}-{i}", gen_random(seed, i, dev=True))
    for name, hist, tmo in directed() + directed_ttl():
        add(name, hist, tmo)
    # time-to-live conversions: every pair of the boundary-value alphabet (complete), longer walks sampled
    hs4, w4 = enum(wd, "renum_ttl", 2, "ttl", 600 if quick else 1800)
    for i, h in enumerate(hs4):
        add(f"renum-ttl-{i}", h)
    # longer walks of the model: thorough tier only (the quick tier covers them with the seeded histories below)
    hs5 = []
    if not quick:
        nsim_t = 20000
        hs5 = simulate(wd, "rsim_ttl", 4, nsim_t // 40, seed, 900, cmdset="ttl")
        rng.shuffle(hs5)
        hs5 = hs5[:nsim_t]
    for i, h in enumerate(hs5):
        add(f"rsim-ttl-{seed}-{i}", h)
    nrt = 500 if quick else 8000
    for i in range(nrt):
        add(f"rrnd-ttl-{seed}-{i}", gen_ttl_random(seed, i))
    scs.sort(key=lambda s: s["timeout"])       # the driver switches the connection timeout between scenarios
    nshards = max(engine.NCPU, -(-len(scs) // 3000))       # short-lived driver processes, see checks/valuereg.py
    res = engine.run_harness(binp, "TestVerifRedis", scs, os.path.join(wd, "rrun"), tag="r", nshards=nshards, timeout=3000)
    traces = []
    for fin, fout, p in res:
        if p is not None:
            raise InfraError(f"redis driver died on {fin} (harness problem - panics of the handlers are caught and recorded):\n"
                             + (p.stdout or "")[-3000:] + (p.stderr or "")[-2000:])
        traces.append(fout)
    viols, mst = vr.monitor("MonRedis", traces, os.path.join(wd, "rmon"))
    byname = {sc["name"]: sc for sc in scs}
    vcounts = vr.cap_viols(out, [v for v in viols if v["prop"] == "C15"], byname)
    st_res = selftest(traces, wd, vr.monitor)
    if st_res["rejected"] is False:
        raise InfraError(f"self-test failed: MonRedis accepted a corrupted reply ({st_res['corruption']})")
    if st_res["rejected"] is None:
        raise InfraError("redis self-test could not find a history to corrupt")
    return {
        "model": {"module": "spec/RedisCmdsMC.tla (store: spec/RedisCmds.tla, register: spec/ValueReg.tla)",
                  "constants": f"2 keys, values {{a, ba}}, 31 commands, <= {4 if quick else 5} commands",
                  "invariants": ["TypeOK", "Consequently (register read back = plain store)", "Laws"],
                  "states": st["distinct"], "transitions": st["generated"], "wall_s": round(r["wall"], 1)},
        "tlc_enumerations": [{"alphabet": "rw (SET GET DEL APPEND INCR DECR INCRBY DECRBY, 2 keys)", "commands": 3 if quick else 4, "behaviours": n_rw, "replayed": len(hs)},
                             {"alphabet": "all 31 commands", "commands": 2 if quick else 3, "behaviours": n_all, "replayed": len(hs2)},
                             {"alphabet": "ttl (one key: SET [EX|PX|NX|XX], SETEX, PSETEX, EXPIRE, PEXPIRE, EXPIREAT, PEXPIREAT, PERSIST, APPEND, GETSET, reads, TICK; "
                                          "5 second values and 16 millisecond values around the unit boundaries)", "commands": 2, "behaviours": len(hs4), "replayed": len(hs4)}],
        "ttl": {"model_states": st_t["distinct"], "model_transitions": st_t["generated"], "simulated": len(hs5), "random": nrt, "directed": len(directed_ttl()),
                "deadlines_judged": mst.get("ttl_judged", 0)},
        "tlc_simulated_behaviours": len(hs3), "random_histories": nr + nr // 4, "directed_histories": len(directed()) + len(directed_ttl()),
        "histories": len(scs), "distinct": len({json.dumps([(c["c"], c["k"], c["v"], c["d"]) for c in s["cmds"]]) for s in scs}),
        "monitor": {"module": "spec/mon/MonRedis.tla", "events": mst["events"], "monitor_states": mst["monitor_states"], "commands_judged": mst["ops"],
                    "open_cases": mst["agnostic"], "wall_s": mst["wall_s"]},
        "violation_counts": vcounts, "selftest": st_res, "wall_s": round(time.time() - t0, 1),
        "note": "connection wait time set to 0 (text command TIMEOUT SET 0) except in the directed history rd-setnx-default-timeout",
    }

"""Check C19 - client-library primitives keep their textbook guarantees over TCP (engine P-lite).

  (1) TLC exhaustive: spec/PrimitivesRef.tla (the textbook rules are inductive) and spec/PrimEnc.tla (the ENCODING of
      every primitive - the Count / Rcount / flag values client/*.go sends - driving the lock-engine operators of
      spec/LockEngine.tla implies the textbook rules of spec/Primitives.tla, for every interleaving of the calls)
  (2) the REAL server binary (go build of the working tree) is started as a child process on a free loopback port,
      a second one with --slaveof gives the "through a follower's forwarding port" configuration
  (3) spec -> code: TLC -simulate behaviours of PrimEnc are replayed call by call through the real Go client
      (seq mode of harness/inpkg/client/zz_verif_prim_test.go, quiescence observed through the server's WaitCount)
  (4) code -> spec: seeded free-running histories (2..64 goroutines on 1..8 connections, n in 1..5, random hold
      times, pipelining on shared connections, connection cuts + reconnects, through the follower) are recorded as
      definitely-held intervals (acq_ret after the acquire returned / rel_call before the release is sent, one
      shared atomic stamp counter)
  (5) every history is validated by TLC against the trace spec spec/mon/MonPrim.tla (rules of spec/Primitives.tla)
  (6) binding self-tests: accepted histories are corrupted (one line moved / one field changed) and must be rejected
  (7) TIME (engine PV): spec/PrimEnc.tla has a clock (ETick: n seconds, the timeout and expiry sweeps of every second),
      TLC checks the encoding against the textbook objects ACROSS time (a hold ends with its expiry, a released / lapsed
      unit is free again, Event states lapse with their hold) and generates call sequences with ticks of 1..60 s;
      those and the directed ones of scenarios/primv_directed.json are replayed by
      harness/inpkg/server/zz_verif_primv_test.go: the REAL client library over loopback TCP against a REAL Server +
      leader SLock inside the driver process whose clock the driver advances (sweeps run for every elapsed second), so
      holds get older than the server's re-check horizon (36 s, long-wait table, key manager moved from the fast slot
      to the map), lapse while held, waiters time out / are granted after a long time in the queue.  Same event shape
      plus the second `t`; judged by the same monitor (mode "vt").
"""
import json, os, random, shutil, socket, subprocess, time, threading
import vbuild, vtlc, engine, checklib
from vbuild import VERIF, InfraError

PROPS = ["C19"]

MANIFEST = {
    "C19": dict(
        level="exploration", design="5/C19",
        technique="TLA+ encoding refinement (TLC exhaustive, with and without a clock) + TLC-generated call sequences replayed over TCP (real time and virtual time) + free-running interval histories validated by a TLA+ trace spec",
        text="The Go client primitives (Lock, RLock, RWLock, Semaphore, MaxConcurrentFlow, PriorityLock, Event) are driven against a real slock "
             "server process over TCP; every goroutine logs acq_ret after its acquire returned and rel_call before it releases, stamped by one "
             "atomic counter, so two overlapping definitely-held intervals are a real overlap. TLC validates every recorded history against the "
             "textbook admission rules (spec/Primitives.tla via spec/mon/MonPrim.tla). The schedules are free-running (sampled, not enumerated), "
             "hence level 'exploration'; the part that IS exhaustive is the TLC check that each primitive's encoding onto the lock engine "
             "(Count n-1, readers 0xffff / writer 0, Rcount 0xff, priority flag, Event's update/unlock pair) implies its rule for every "
             "interleaving of 3-4 processes, and TLC-generated behaviours of that model are replayed call by call on the real client+server. "
             "ACROSS TIME: the encoding model has a clock (timeout / expiry sweeps per second) and is checked against the textbook objects with "
             "expiry (a hold ends with its expiry, a released or lapsed unit is free again, Event states lapse with their hold); TLC-generated call "
             "sequences with clock steps of 1..60 s and directed long-hold sequences are replayed through the real client library over loopback TCP "
             "against a real Server + leader SLock inside the driver process under a virtual clock (holds past the 36 s re-check horizon and the "
             "long-wait table, holds lapsing while held, waiters timing out or granted after a long queue time); the same monitor judges them with "
             "two holder tables (definite / possible holds) aged by the textbook rule.",
        note="Trusted base: Go runtime atomic counter ordering, TLC, the Go driver's bookkeeping (it only records). Assumes holds do not expire "
             "while judged (sessions older than half the 60-240 s expiry are voided, none occurs in practice); PriorityLock hand-over in free "
             "mode uses the server's own LIST_WAIT answer as evidence that a request is queued; replays observe quiescence through the "
             "server's WaitCount of a private DB. Follower forwarding is exercised with a static leader (no fail-over). Virtual-time part: the "
             "driver's quiescence test (WaitCount + one STATE round trip per connection), vWorld.Tick running the server's own per-second sweeps; "
             "RWLock objects one of whose reader holds lapsed un-released are not judged on RUnlock (client/rwlock.go names the lapsed LockId).",
        engine="P-lite + PV"),
}

KINDS = ["lock", "rlock", "sem", "flow", "rw", "prio", "event_set", "event_clear"]
SPECDIRS = [os.path.join(VERIF, "spec"), os.path.join(VERIF, "spec", "mon")]

ENC_CONST = '''  Keys = {1}
  Lids = {1}
  Counts = {0}
  Rcounts = {0}
  Timeouts = {0}
  Expireds = {0}
  MaxReq = 0
  MaxNow = 0
  MaxDepth = 3
  LockFlags = {}
  UnlockFlags = {}
  A1Fixed = TRUE
  A13Fixed = TRUE
  NoDupWait = TRUE
  Roles = {"leader"}
  MaxRoleChanges = 0
  AofDelay = 100
  WaitLeader = 3
  ReArm = 1
  Turns = {"any"}
  Lag = FALSE
  EKinds = {"lock", "rlock", "sem", "flow", "rw", "prio", "event_set", "event_clear"}
  EMaxRe = 3
  CMAX = 60
'''
UNTIMED = '''  ENs = {1, 2, 3}
  ETOs = {5}
  EEXs = {5}
  ETicks = {}
  EMaxNow = 0
'''

ENC_MC = '''SPECIFICATION ESpec
CONSTANTS
''' + ENC_CONST + UNTIMED + '''  EProcs = {%(procs)s}
  EMaxOps = %(maxops)d
  EPrios = {%(prios)s}
  EMaxSteps = 100
  EMinExport = 1000
  ETimeouts = TRUE
  A24Fixed = TRUE
VIEW eview
INVARIANTS EncStateOK EncUnitsExact EncNothingRefused EncNoLostAdmission EncWaitBlockedOnlyWhenClear EncLiveBracket
PROPERTY EncActionProps
CHECK_DEADLOCK FALSE
'''

# the encoding across time, exhaustive: every blocking call waits `to` s, every hold lasts `ex` s, clock steps `ticks`
ENC_MC_TIME = '''SPECIFICATION ESpec
CONSTANTS
''' + ENC_CONST + '''  ENs = {%(ns)s}
  ETOs = {%(to)s}
  EEXs = {%(ex)s}
  ETicks = {%(ticks)s}
  EMaxNow = %(maxnow)d
  EProcs = {%(procs)s}
  EMaxOps = %(maxops)d
  EPrios = {1, 2}
  EMaxSteps = 100
  EMinExport = 1000
  ETimeouts = FALSE
  A24Fixed = TRUE
VIEW eview
INVARIANTS EncStateOK EncUnitsExact EncNothingRefused EncNoLostAdmission EncWaitBlockedOnlyWhenClear EncLiveBracket
PROPERTY EncActionProps
CHECK_DEADLOCK FALSE
'''

# generator of call sequences with ticks: long holds (past 36 s and 44 s), holds that lapse while held (expiry 8 s),
# waits that time out (5 s), waits granted after a long time in the queue (timeouts 40 / 70 s)
ENC_SIM_TIME = '''SPECIFICATION ESpec
CONSTANTS
''' + ENC_CONST + '''  ENs = {1, 2, 3}
  ETOs = {5, 40, 70}
  EEXs = {8, 50, 150}
  ETicks = {1, 2, 4, 9, 20, 37, 45, 60}
  EMaxNow = 900
  EProcs = {1, 2, 3, 4}
  EMaxOps = 3
  EPrios = {1, 2, 3, 4}
  EMaxSteps = %(steps)d
  EMinExport = %(steps)d
  ETimeouts = FALSE
  A24Fixed = TRUE
INVARIANTS EncStateOK EncUnitsExact EncNothingRefused EncNoLostAdmission EncWaitBlockedOnlyWhenClear EncLiveBracket EncExport
CHECK_DEADLOCK FALSE
'''

ENC_SIM = '''SPECIFICATION ESpec
CONSTANTS
''' + ENC_CONST + UNTIMED + '''  EProcs = {1, 2, 3, 4}
  EMaxOps = 3
  EPrios = {1, 2, 3, 4}
  EMaxSteps = %(steps)d
  EMinExport = %(steps)d
  ETimeouts = FALSE
  A24Fixed = TRUE
INVARIANTS EncStateOK EncUnitsExact EncNothingRefused EncNoLostAdmission EncWaitBlockedOnlyWhenClear EncLiveBracket EncExport
CHECK_DEADLOCK FALSE
'''

REF_MC = '''SPECIFICATION RSpec
CONSTANTS
  RKinds = {"lock", "rlock", "sem", "flow", "rw", "prio", "event_set", "event_clear"}
  RNs = {1, 2, 3}
  RProcs = {%(procs)s}
  RMaxDepth = 3
  RPrios = {1, 2, 3}
  REXs = {%(ex)s}
  RTOs = {%(to)s}
  RMaxNow = %(maxnow)d
INVARIANTS RStateOK RWaitersBlocked RDepthBounded RNoStaleHold RBracket
CHECK_DEADLOCK FALSE
'''

# ------------------------------------------------------------------ server processes

def free_port():
    s = socket.socket()
    s.bind(("127.0.0.1", 0))
    p = s.getsockname()[1]
    s.close()
    return p

class Node:
    def __init__(self, binp, wd, name, extra):
        self.port = free_port()
        self.dir = os.path.join(wd, name)
        os.makedirs(self.dir)
        self.log = os.path.join(wd, name + ".log")
        self.proc = subprocess.Popen([binp, "--bind=127.0.0.1", "--port=%d" % self.port, "--data_dir=" + self.dir, "--log=" + self.log] + extra,
                                     cwd=wd, stdout=subprocess.DEVNULL, stderr=subprocess.DEVNULL)
        for _ in range(300):
            if self.proc.poll() is not None:
                raise InfraError(f"slock node {name} exited at start (rc {self.proc.returncode})")
            try:
                c = socket.create_connection(("127.0.0.1", self.port), timeout=0.5)
                c.close()
                return
            except OSError:
                time.sleep(0.1)
        self.stop()
        raise InfraError(f"slock node {name} does not listen on port {self.port}")

    def alive(self):
        return self.proc.poll() is None

    def stop(self):
        if self.proc.poll() is None:
            self.proc.terminate()
            try:
                self.proc.wait(timeout=5)
            except subprocess.TimeoutExpired:
                self.proc.kill()
                self.proc.wait()

def build_server(wd):
    binp = os.path.join(wd, "slock")
    p = subprocess.run(["go", "build", "-o", binp, "."], cwd=vbuild.REPO, env=vbuild.GOENV, capture_output=True, text=True)
    if p.returncode != 0:
        raise InfraError("build of the slock server failed:\n" + p.stdout + p.stderr)
    return binp

# ------------------------------------------------------------------ scenarios

def gen_free(seed, i, kind, port, via, budget, cuts=0):
    rng = random.Random(f"c19-{seed}-{i}-{kind}-{via}")
    G = rng.choice([2, 3, 4, 6, 8, 12, 16, 24, 32, 48, 64])
    n = rng.randint(1, 5)
    if kind in ("sem", "flow"):
        G = max(G, n + 2)
    if kind in ("event_set", "event_clear"):
        G = max(G, 3)
    C = rng.randint(1, min(8, G))
    hold = rng.choice([0, 100, 300, 1000, 3000])
    think = rng.choice([0, 100, 500, 2000])
    if kind.startswith("event"):
        hold = rng.choice([500, 2000, 8000, 20000])
    iters = max(3, min(40, budget // G))
    if kind == "prio":
        iters = max(3, min(20, budget // (2 * G)))
    sc = dict(name=f"free-{seed}-{i}-{kind}-{via}" + ("-cut" if cuts else ""), mode="free", kind=kind, n=n, G=G, C=C, iters=iters,
              hold_us=hold, think_us=think, depth=rng.randint(2, 4), seed=seed * 100003 + i, port=port, db=0, key=500000 + seed * 1000 + i,
              to_s=30, ex_s=120, cuts=cuts, via=via)
    if kind.startswith("event"):
        sc["short_waits"] = rng.random() < 0.5
    if cuts:
        sc["to_s"] = 3
        sc["max_s"] = 10
        if kind in ("sem", "rw"):
            sc["ex_s"] = 24      # anonymous holds cannot be cleaned up after a cut: let them expire
        sc["iters"] = max(3, min(sc["iters"], 160 // G))
        sc["C"] = min(sc["C"], 3)
    return sc

def behaviours(out, seed, limit):
    hs = set()
    for ln in out.splitlines():
        ln = ln.strip()
        if ln.startswith('"BEHAVIOUR '):
            try:
                hs.add(json.loads(ln)[10:])
            except Exception:
                pass
    hs = [json.loads(h) for h in sorted(hs)]
    rng = random.Random(seed)
    rng.shuffle(hs)
    return hs[:limit]

def directed():
    with open(os.path.join(VERIF, "scenarios", "prim_directed.json")) as fh:
        return json.load(fh)

def seq_scenarios(behs, seed, port, nshards):
    scs = []
    items = [(d["name"], d, d["steps"]) for d in directed()]
    items += [(f"tlc-{seed}-{i}-{b['kind']}", b, [dict(op=s["op"], p=s["p"] - 1, role=s["role"], prio=s["prio"]) for s in b["steps"]]) for i, b in enumerate(behs)]
    for i, (name, b, steps) in enumerate(items):
        rng = random.Random(f"c19seq-{seed}-{i}")
        sh = i % nshards
        scs.append(dict(name=name, mode="seq", kind=b["kind"], n=b["n"], G=4, C=rng.randint(1, 4), iters=0, hold_us=0, think_us=0,
                        depth=3, seed=seed, port=port, db=0, dbs=[1 + 15 * sh + j for j in range(15)], key=900000 + seed * 10000 + i,
                        to_s=200, ex_s=400, cuts=0, via="leader", steps=steps))
    return scs

def directed_vt():
    with open(os.path.join(VERIF, "scenarios", "primv_directed.json")) as fh:
        return json.load(fh)

def vt_scenarios(behs, seed):
    """virtual-time histories: the directed ones (as written) + the TLC-generated call sequences with ticks.
    Environment drawn per history: connections, size of the fast key table, bystander keys held by another client
    (a multiple of the table size away = same fast bucket, others elsewhere)."""
    scs = []
    for i, d in enumerate(directed_vt()):
        scs.append(dict(name=d["name"], mode="vt", kind=d["kind"], n=d["n"], G=4, C=1 + i % 3, key=800000 + i,
                        to_s=d["to"], ex_s=d["ex"], fastkeys=d.get("fastkeys", 64), bys=d.get("bys", []), steps=d["steps"]))
    for i, b in enumerate(behs):
        rng = random.Random(f"c19vt-{seed}-{i}")
        fk = rng.choice([64, 64, 256, 4096])
        bys = []
        r = rng.random()
        if r < 0.25:
            bys = [rng.choice([1, 2, 3, 5, 17])]
        elif r < 0.4:
            bys = [fk * rng.randint(1, 3)] + ([rng.choice([1, 7])] if rng.random() < 0.5 else [])
        steps = []
        for st in b["steps"]:
            if st["op"] == "tick":
                steps.append(dict(op="tick", n=st["n"], order=st["order"]))
            else:
                steps.append(dict(op=st["op"], p=st["p"] - 1, role=st["role"], prio=st["prio"]))
        scs.append(dict(name=f"tlcvt-{seed}-{i}-{b['kind']}", mode="vt", kind=b["kind"], n=b["n"], G=4, C=rng.randint(1, 4),
                        key=810000 + seed * 1000 + i, to_s=b["to"], ex_s=b["ex"], fastkeys=fk, bys=bys, steps=steps))
    return scs

# ------------------------------------------------------------------ trace validation (TLC, bounded heap: the machine is shared)

def monitor(traces, workdir, par=8, heap="1g", timeout=900):
    par = max(1, min(par, engine.NCPU))
    """engine.monitor_traces with a heap bound and bounded parallelism; same acceptance rule:
    TLC must consume every line (distinct states = lines + 1), VIOL lines are collected."""
    import concurrent.futures as cf
    def one(arg):
        i, tr = arg
        cfg = engine.MON_CFG % {"trace": tr, "props": '"C19"'}
        return tr, vtlc.run_tlc(SPECDIRS, "MonPrim", cfg, os.path.join(workdir, f"tlc_{i}"), workers=1, timeout=timeout, heap=heap)
    viols, nstates, nev = [], 0, 0
    with cf.ThreadPoolExecutor(max_workers=par) as ex:
        for tr, r in ex.map(one, list(enumerate(traces))):
            o = r["out"]
            st = vtlc.parse_stats(o)
            if r["rc"] == -9:
                raise InfraError(f"TLC timed out on {tr}")
            if "No error has been found" not in o or st is None:
                raise InfraError(f"TLC did not accept the trace file {tr} completely (monitor/infra problem, not a verdict):\n" + o[-3000:])
            with open(tr) as fh:
                n = sum(1 for _ in fh)
            if st["distinct"] != n + 1:
                raise InfraError(f"trace {tr}: {n} events but {st['distinct']} monitor states")
            nstates += st["distinct"]; nev += n
            for v in vtlc.parse_viols(o):
                v["file"] = tr
                viols.append(v)
    return viols, {"monitor_states": nstates, "events": nev}

# ------------------------------------------------------------------ self-tests (binding demonstration)

def split_histories(path):
    hs, cur = [], None
    with open(path) as fh:
        for ln in fh:
            e = json.loads(ln)
            if e["e"] == "begin":
                cur = [e]
            elif cur is not None:
                cur.append(e)
                if e["e"] == "end":
                    hs.append(cur)
                    cur = None
    return hs

def corrupt_exclusive(h):
    """move an acq_ret in front of the previous holder's rel_call (exclusive kinds)"""
    if h[0]["kind"] not in ("lock", "prio", "rlock") or h[0]["mode"] != "free":
        return None
    holder = None
    for i, e in enumerate(h):
        if e["e"] == "acq_ret" and not e["void"]:
            if holder is not None and holder[0] != e["g"]:
                j = holder[1]     # index of the holder's last rel_call, if it came before this acq_ret
                if j is not None:
                    hh = h[:j] + [h[i]] + h[j:i] + h[i + 1:]
                    return hh, f"acq_ret of goroutine {e['g']} (line {i+1}) moved before the rel_call of holder {holder[0]} (line {j+1})"
            if holder is None or holder[0] != e["g"]:
                holder = [e["g"], None]
        if e["e"] == "rel_call" and holder is not None and holder[0] == e["g"]:
            holder[1] = i
        if e["e"] in ("abandon", "acq_err", "acq_fail"):
            return None
    return None

def corrupt_capacity(h):
    """the recorded n of a semaphore / flow history is lowered to below the concurrency it reached"""
    if h[0]["kind"] not in ("sem", "flow") or h[0]["mode"] != "free":
        return None
    cur = mx = 0
    for e in h:
        if e["e"] == "acq_ret" and not e["void"]:
            cur += 1
            mx = max(mx, cur)
        if e["e"] == "rel_call" and not e["void"]:
            cur -= 1
        if e["e"] in ("abandon", "acq_err"):
            return None
    if mx >= 2:
        hh = [dict(h[0], n=mx - 1)] + h[1:]
        return hh, f"begin.n changed from {h[0]['n']} to {mx-1} although {mx} definite holds overlap"
    return None

def corrupt_rw(h):
    """a reader's acq_ret that overlaps another reader is relabelled as a writer"""
    if h[0]["kind"] != "rw" or h[0]["mode"] != "free":
        return None
    held = {}
    for i, e in enumerate(h):
        if e["e"] == "acq_ret" and not e["void"]:
            if e["role"] == "r" and held:
                hh = h[:i] + [dict(e, role="w")] + h[i + 1:]
                return hh, f"line {i+1}: role of a reader admitted next to {len(held)} reader(s) changed to writer"
            held[e["g"]] = e["role"]
        if e["e"] == "rel_call":
            held.pop(e["g"], None)
        if e["e"] in ("abandon", "acq_err"):
            return None
    return None

def corrupt_rlock(h):
    if h[0]["kind"] != "rlock":
        return None
    for i, e in enumerate(h):
        if e["e"] == "rel_ret" and e["ok"] and not e["void"]:
            hh = h[:i] + [dict(e, ok=False, res=6)] + h[i + 1:]
            return hh, f"line {i+1}: acknowledged unlock of an RLock holder rewritten to UNLOCK_ERROR"
    return None

def corrupt_prio(h):
    if h[0]["kind"] != "prio" or h[0]["mode"] != "free":
        return None
    armed = None
    obs = {}
    for i, e in enumerate(h):
        if e["e"] == "obs" and not e["void"]:
            obs[e["g"]] = e["prios"]
        if e["e"] == "rel_call":
            armed = obs.pop(e["g"], None)
        if e["e"] == "acq_ret":
            if armed and not e["void"] and len(set(armed)) >= 2 and e["prio"] == max(armed):
                hh = h[:i] + [dict(e, prio=min(armed))] + h[i + 1:]
                return hh, f"line {i+1}: priority of the waiting request that received the hand-over changed from {e['prio']} to {min(armed)} (the previous holder saw priorities {sorted(armed)} waiting)"
            armed = None
    return None

def corrupt_event(h):
    """a Set call is moved behind a Wait return that it enabled"""
    if h[0]["kind"] not in ("event_set", "event_clear") or h[0]["mode"] != "free":
        return None
    inflight, setcalls, clrmark, since = 0, 0, {}, (0 if h[0]["kind"] == "event_clear" else -1)
    last_set = None
    waitmark = {}
    for i, e in enumerate(h):
        t = e["e"]
        if t == "set_call":
            if since >= 0:
                last_set = (i, since)
            inflight += 1; setcalls += 1; since = -1
        elif t == "set_ret":
            inflight = max(0, inflight - 1)
        elif t == "clear_call":
            clrmark[e["g"]] = setcalls if inflight == 0 else -1
        elif t == "clear_ret":
            if e["ok"] and not e["void"] and clrmark.get(e["g"]) == setcalls and inflight == 0 and since < 0:
                since = e["s"]
            last_set = None if since >= 0 else last_set
        elif t == "wait_call":
            waitmark[e["g"]] = (i, e["s"])
        elif t == "wait_ret" and e["ok"] and last_set is not None and e["g"] in waitmark:
            j, was_since = last_set
            wi, ws = waitmark[e["g"]]
            # the wait was called while the event was definitely clear, and returned after that Set call
            if was_since < ws and wi < j < i and not any(x["e"] in ("set_call", "clear_ret") for x in h[j + 1:i]):
                hh = h[:j] + h[j + 1:i + 1] + [h[j]] + h[i + 1:]
                return hh, f"set_call (line {j+1}) moved behind the wait_ret (line {i+1}) of a Wait that was called while the event was clear"
    return None

def corrupt_seq(h):
    """replay: a quiescent point is made to list a process as queued although it is the re-entering holder / a reader among readers"""
    if h[0]["mode"] != "seq" or h[0]["kind"] not in ("lock", "prio", "rlock", "sem", "flow", "rw"):
        return None
    # simplest exact corruption: drop the rel_call of a holder -> the next holder's acq_ret overlaps
    if h[0]["kind"] not in ("lock", "prio"):
        return None
    for i, e in enumerate(h):
        if e["e"] == "rel_call":
            for k in range(i + 1, len(h)):
                if h[k]["e"] == "acq_ret" and h[k]["g"] != e["g"]:
                    hh = h[:i] + h[i + 1:]
                    return hh, f"replay history: rel_call of process {e['g']} (line {i+1}) deleted, the next grant then overlaps"
            return None
    return None

# ---- virtual-time histories (mode "vt")

def _vt(h, kinds=None, events=False):
    b = h[0]
    if b.get("mode") != "vt" or h[-1].get("diverged"):
        return False
    isev = b["kind"] in ("event_set", "event_clear")
    if isev != events:
        return False
    return kinds is None or b["kind"] in kinds

def corrupt_vt_release(h):
    """the acknowledged release of a hold that is definitely outstanding (and older than 36 s) is rewritten to UNLOCK_ERROR"""
    if not _vt(h, ("lock", "rlock", "flow", "rw", "prio")):
        return None
    ex, tacq = h[0]["ex"], {}
    for i, e in enumerate(h):
        if e["e"] == "acq_ret":
            tacq[e["g"]] = e["t"]
        if e["e"] == "rel_ret" and e["ok"] and e["g"] in tacq and 36 < e["t"] - tacq[e["g"]] < ex - 1:
            return h[:i] + [dict(e, ok=False, res=6)] + h[i + 1:], \
                f"line {i+1}: the acknowledged release of a hold taken {e['t'] - tacq[e['g']]} s earlier (expiry {ex} s) rewritten to UNLOCK_ERROR"
    return None

def corrupt_vt_blocked(h):
    """a waiter that was given the lock by a release is made to stay queued at the next quiescent point"""
    if not _vt(h, ("lock", "prio")):
        return None
    for i, e in enumerate(h):
        if e["e"] == "rel_ret" and e["ok"]:
            j = i + 1
            if j < len(h) - 1 and h[j]["e"] == "acq_ret" and h[j]["g"] != e["g"] and h[j + 1]["e"] == "quiet" and h[j + 1]["prios"] == []:
                q = h[j]["g"]
                return h[:j] + [dict(h[j + 1], prios=[q])] + [h[-1]], \
                    f"line {j+1}: the grant to process {q} after the release of process {e['g']} (second {e['t']}) deleted, the process listed as still queued; rest cut"
    return None

def corrupt_vt_lapse(h):
    """the expiry of the history is raised: a hold that had lapsed when the next one was granted then overlaps it"""
    if not _vt(h, ("lock", "prio")):
        return None
    ex, held = h[0]["ex"], {}
    for i, e in enumerate(h):
        if e["e"] == "acq_ret":
            for g, t0 in held.items():
                if g != e["g"] and e["t"] - t0 > ex + 1:
                    return [dict(h[0], ex=10000)] + h[1:i + 1] + [h[-1]], \
                        f"begin.ex changed from {ex} to 10000: the hold of process {g} (second {t0}) is then still outstanding when process {e['g']} is granted at second {e['t']}; rest cut"
            held[e["g"]] = e["t"]
        if e["e"] == "rel_call":
            held.pop(e["g"], None)
    return None

def corrupt_vt_wait_clear(h):
    """default-clear event: a Wait that timed out while the event was clear is rewritten to a successful return"""
    if not _vt(h, ("event_clear",), events=True):
        return None
    clear, mark = True, {}
    for i, e in enumerate(h):
        t = e["e"]
        if t in ("set_call", "set_ret"):
            clear, mark = False, {}
        elif t == "clear_call":
            mark = {}
        elif t == "clear_ret":
            clear, mark = bool(e["ok"]), {}
        elif t == "wait_call" and clear:
            mark[e["g"]] = i
        elif t == "wait_ret" and not e["ok"] and e["g"] in mark:
            return h[:i] + [dict(e, ok=True, res=0)] + h[i + 1:], \
                f"line {i+1}: the TIMEOUT of a Wait called (line {mark[e['g']]+1}) and answered while the event was clear rewritten to success"
    return None

def corrupt_vt_wait_set(h):
    """default-set event: a Wait that returned at once while the event was set is made to stay queued"""
    if not _vt(h, ("event_set",), events=True):
        return None
    isset = True
    for i, e in enumerate(h):
        t = e["e"]
        if t in ("clear_call", "clear_ret"):
            isset = False
        elif t == "set_ret":
            isset = bool(e["ok"])
        elif t == "wait_call" and isset and i + 2 < len(h) and h[i + 1]["e"] == "wait_ret" and h[i + 1]["ok"] \
                and h[i + 2]["e"] == "quiet" and h[i + 2]["prios"] == []:
            return h[:i + 1] + [dict(h[i + 2], prios=[e["g"]])] + [h[-1]], \
                f"line {i+2}: the return of a Wait called while the event was set deleted, the process listed as still queued; rest cut"
    return None

VT_EXPECT = {"vt-release-refused": {"release-refused-while-held"}, "vt-blocked-although-free": {"blocked-although-free"},
             "vt-lapsed-hold-overlaps": {"lock-not-exclusive", "prioritylock-not-exclusive"},
             "vt-wait-returned-while-clear": {"wait-returned-while-clear"}, "vt-wait-blocked-while-set": {"wait-blocked-while-set"}}

CORRUPTIONS = [("vt-release-refused", corrupt_vt_release), ("vt-blocked-although-free", corrupt_vt_blocked),
               ("vt-lapsed-hold-overlaps", corrupt_vt_lapse), ("vt-wait-returned-while-clear", corrupt_vt_wait_clear),
               ("vt-wait-blocked-while-set", corrupt_vt_wait_set),
               ("exclusive-overlap", corrupt_exclusive), ("capacity", corrupt_capacity), ("reader-as-writer", corrupt_rw),
               ("rlock-unlock-refused", corrupt_rlock), ("priority-handover", corrupt_prio), ("event-set-after-wait", corrupt_event),
               ("replay-missing-release", corrupt_seq)]

def selftests(traces, workdir):
    """every corrupted history goes into ONE trace file (histories are independent: the monitor starts afresh at every
    `begin`), told apart by a private idx; one TLC run judges them all"""
    hists = []
    for tr in traces:
        hists += split_histories(tr)
    res = []
    p = os.path.join(workdir, "selftest_corrupted.ndjson")
    n = 0
    with open(p, "w") as fh:
        for k, (name, fn) in enumerate(CORRUPTIONS):
            found = None
            for h in hists:
                if len(h) > 6000:
                    continue
                r = fn(h)
                if r:
                    found = r
                    break
            if not found:
                res.append({"selftest": name, "corruption": None, "rejected": None})
                continue
            hh, desc = found
            idx = 900000 + k
            hh = [dict(hh[0], idx=idx)] + hh[1:-1] + [dict(hh[-1], idx=idx)]
            for e in hh:
                fh.write(json.dumps(e) + "\n")
            n += 1
            res.append({"selftest": name, "corruption": desc, "history": hh[0]["name"], "idx": idx})
    if n:
        viols, _ = monitor([p], os.path.join(workdir, "selftest"), par=1, heap="1g")
        for r in res:
            if r.get("idx"):
                codes = sorted({v["code"] for v in viols if v.get("trace") == r["idx"]})
                r["rejected"] = len(codes) > 0 if r["selftest"] not in VT_EXPECT else bool(VT_EXPECT[r["selftest"]] & set(codes))
                r["codes"] = codes
                del r["idx"]
    return res

# ------------------------------------------------------------------ the check

def run(prop, tier, seed):
    out = checklib.Outcome()
    out.level = "exploration"
    wd = vbuild.scratch(f"vf_{prop}_")
    nodes = []
    th = threading.Thread(target=lambda: None)
    th.start()
    th_sim = th_time = th_simt = th_bv = th
    try:
        quick = tier == "quick"
        T = {}
        tt = [time.time()]
        def lap(name):
            T[name] = round(time.time() - tt[0], 1); tt[0] = time.time()
        # (1) design checks, in the background while the real system runs
        tlc = {}
        def design():
            try:
                cfg = ENC_MC % ({"procs": "1, 2, 3", "maxops": 2, "prios": "1, 2"} if quick else {"procs": "1, 2, 3, 4", "maxops": 2, "prios": "1, 2"})
                tlc["enc"] = vtlc.run_tlc(SPECDIRS[0], "PrimEnc", cfg, os.path.join(wd, "mc_enc"), workers=min(4 if quick else 8, engine.NCPU),
                                          timeout=900 if quick else 3000, heap="1g" if quick else "3g")
                cfg = REF_MC % {"procs": "1, 2, 3" if quick else "1, 2, 3, 4", "ex": 5, "to": 5, "maxnow": 0}
                tlc["ref"] = vtlc.run_tlc(SPECDIRS[0], "PrimitivesRef", cfg, os.path.join(wd, "mc_ref"), workers=2, timeout=600, heap="512m")
            except Exception as ex:      # reported by the main thread
                tlc["error"] = ex
        # (7) the encoding and the reference ACROSS TIME, exhaustive (own thread: as long as the untimed pair)
        def design_time():
            try:
                if quick:
                    tcfg = [dict(procs="1, 2", maxops=2, ns="1, 2", to=1, ex=2, ticks="1, 2", maxnow=4)]
                else:
                    tcfg = [dict(procs="1, 2", maxops=2, ns="1, 2", to=2, ex=3, ticks="1, 3", maxnow=7),
                            dict(procs="1, 2, 3", maxops=1, ns="1, 2", to=1, ex=2, ticks="1, 2", maxnow=4)]
                tlc["enc_time"] = []
                for k, c in enumerate(tcfg):
                    r = vtlc.run_tlc(SPECDIRS[0], "PrimEnc", ENC_MC_TIME % c, os.path.join(wd, f"mc_enc_time{k}"), workers=min(4 if quick else 8, engine.NCPU),
                                     timeout=900 if quick else 3000, heap="1g" if quick else "3g")
                    tlc["enc_time"].append((c, r))
                cfg = REF_MC % ({"procs": "1, 2", "ex": 2, "to": 1, "maxnow": 4} if quick else {"procs": "1, 2, 3", "ex": 2, "to": 1, "maxnow": 4})
                tlc["ref_time"] = vtlc.run_tlc(SPECDIRS[0], "PrimitivesRef", cfg, os.path.join(wd, "mc_ref_time"), workers=2, timeout=900, heap="1g")
            except Exception as ex:
                tlc["error"] = ex
        nb = 100 if quick else 3000
        nbt = 120 if quick else 2000
        steps = 14 if quick else 18
        def simulate_time():
            try:
                tlc["simt"] = vtlc.run_tlc(SPECDIRS[0], "PrimEnc", ENC_SIM_TIME % {"steps": steps}, os.path.join(wd, "simt"), workers=1, timeout=900, heap="512m",
                                           simulate=f"num={nbt * 2}", depth=steps + 2, seed=seed)
            except Exception as ex:
                tlc["simt_error"] = ex
        bv = {}
        def build_vt():
            try:
                bv["bin"] = vbuild.build_inpkg("server", os.path.join(wd, "bv"))
            except Exception as ex:
                bv["error"] = ex
        os.makedirs(os.path.join(wd, "bv"))
        def simulate():
            try:
                tlc["sim"] = vtlc.run_tlc(SPECDIRS[0], "PrimEnc", ENC_SIM % {"steps": steps}, os.path.join(wd, "sim"), workers=1, timeout=900, heap="512m",
                                          simulate=f"num={nb * 2}", depth=steps + 2, seed=seed)
            except Exception as ex:
                tlc["sim_error"] = ex
        th = threading.Thread(target=design)
        th.start()
        th_sim = threading.Thread(target=simulate)
        th_sim.start()
        th_simt = threading.Thread(target=simulate_time)
        th_simt.start()
        th_bv = threading.Thread(target=build_vt)
        th_bv.start()
        th_time = threading.Thread(target=design_time)
        th_time.start()
        # (2) the real system
        srv = build_server(wd)
        binp = vbuild.build_inpkg("client", wd)
        lap("build")
        leader = Node(srv, wd, "leader", [])
        nodes.append(leader)
        follower = Node(srv, wd, "follower", ["--slaveof=127.0.0.1:%d" % leader.port])
        nodes.append(follower)
        ready = [dict(name=f"ready-{nm}", mode="ready", kind="lock", n=1, G=1, C=1, port=nd.port, db=0, key=1 + k, to_s=0, ex_s=5)
                 for k, (nm, nd) in enumerate((("leader", leader), ("follower", follower)))]
        for fin, fout, p in engine.run_harness(binp, "TestVerifPrim", ready, os.path.join(wd, "ready"), tag="r", nshards=1, timeout=120):
            if p is not None:
                raise InfraError("the slock nodes did not become ready:\n" + (p.stdout or "")[-2000:] + (p.stderr or "")[-1000:])
        lap("nodes_ready")
        # (4) free-running scenarios
        budget = 300 if quick else 1500
        per_kind = 2 if quick else 20
        free = []
        i = 0
        for rep in range(per_kind):
            for kind in KINDS:
                free.append(gen_free(seed, i, kind, leader.port, "leader", budget)); i += 1
        for rep in range(1 if quick else 6):
            for kind in KINDS:
                free.append(gen_free(seed, i, kind, follower.port, "follower", budget)); i += 1
        cutkinds = KINDS if not quick else random.Random(seed).sample(KINDS[:6], 3) + ["event_set"]
        for rep in range(1 if quick else 2):
            for kind in cutkinds:
                free.append(gen_free(seed, i, kind, leader.port, "leader", budget, cuts=1 if quick else 2)); i += 1
        nshards = engine.NCPU
        t_run = time.time()
        res_free = engine.run_harness(binp, "TestVerifPrim", free, os.path.join(wd, "run_free"), tag="f", nshards=nshards, timeout=900,
                                      extra_env={"VERIF_PRIM_PAR": "4"})
        lap("run_free")
        # (3) behaviours for the replay
        th_sim.join()
        if "sim_error" in tlc:
            raise tlc["sim_error"]
        behs = behaviours(tlc["sim"]["out"], seed, nb)
        if len(behs) < 20:
            raise InfraError("behaviour generation produced too few behaviours:\n" + tlc["sim"]["out"][-2000:])
        seqs = seq_scenarios(behs, seed, leader.port, nshards)
        lap("tlc_simulate_join")
        res_seq = engine.run_harness(binp, "TestVerifPrim", seqs, os.path.join(wd, "run_seq"), tag="q", nshards=nshards, timeout=900,
                                     extra_env={"VERIF_PRIM_PAR": "4"})
        lap("run_seq")
        # (7) virtual-time histories
        th_simt.join()
        if "simt_error" in tlc:
            raise tlc["simt_error"]
        behs_t = behaviours(tlc["simt"]["out"], seed, nbt)
        if len(behs_t) < 20:
            raise InfraError("behaviour generation (with ticks) produced too few behaviours:\n" + tlc["simt"]["out"][-2000:])
        vts = vt_scenarios(behs_t, seed)
        th_bv.join()
        if "error" in bv:
            raise bv["error"]
        res_vt = engine.run_harness(bv["bin"], "TestVerifPrimV", vts, os.path.join(wd, "run_vt"), tag="v", nshards=nshards, timeout=600)
        lap("run_vt")
        run_wall = time.time() - t_run
        traces = []
        for fin, fout, p in res_free + res_seq + res_vt:
            if p is not None:
                alive = all(nd.alive() for nd in nodes)
                raise InfraError(f"driver failed on {fin} (server processes alive: {alive}):\n" + (p.stdout or "")[-3000:] + (p.stderr or "")[-1500:])
            traces.append(fout)
        for nd in nodes:
            if not nd.alive():
                raise InfraError("a slock server process died during the run (crash of the server is outside C19's monitor; see its log)")
        # (5) monitors (histories are independent: the trace files are concatenated pairwise to halve the JVM starts)
        merged = []
        os.makedirs(os.path.join(wd, "merged"))
        nm = max(1, min(8, len(traces)))
        for k in range(nm):
            mp = os.path.join(wd, "merged", f"trace_{k}.ndjson")
            with open(mp, "w") as fo:
                for tr in traces[k::nm]:
                    with open(tr) as fi:
                        shutil.copyfileobj(fi, fo)
            merged.append(mp)
        traces = merged
        viols, mst = monitor(traces, os.path.join(wd, "mon"))
        lap("monitor")
        byname = {sc["name"]: sc for sc in free + seqs + vts}
        for v in viols:
            if v["prop"] == prop:
                out.viols.append((v, byname.get(v.get("name"))))
        # coverage measured from the histories
        stats = {"acquisitions": 0, "acquire_refused": 0, "uncertain": 0, "void_events": 0, "obs": 0, "obs_nonempty": 0, "waits": 0, "wait_timeouts": 0,
                 "quiet_points": 0, "divergences": 0, "incomplete": 0, "max_goroutines": 0, "max_connections": 0, "histories_with_overlap": 0,
                 "by_kind": {k: 0 for k in KINDS}, "via_follower": 0, "with_cuts": 0, "release_refused": 0,
                 "divergence_samples": [], "slowest_history_ms": 0, "slowest_history": ""}
        # what the virtual-time histories reached (all measured from the recorded events)
        vstat = {"histories": 0, "directed": 0, "tlc_generated": 0, "virtual_seconds": 0, "ticks": 0, "longest_tick_s": 0,
                 "releases_of_holds_older_than_36s": 0, "releases_of_holds_older_than_44s": 0, "oldest_released_hold_s": 0,
                 "holds_lapsed_while_held": 0, "acquire_timeouts": 0, "grants_after_more_than_36s_queued": 0, "longest_queued_grant_s": 0,
                 "event_calls_after_more_than_36s": 0, "wait_timeouts": 0, "waits_returned_after_more_than_36s": 0,
                 "with_bystander_keys": 0, "with_colliding_bystander": 0, "release_refused": 0, "by_kind": {k: 0 for k in KINDS}}
        distinct = set()
        samples = []
        for tr in traces:
            for h in split_histories(tr):
                b, e = h[0], h[-1]
                if not e.get("complete"):
                    stats["incomplete"] += 1
                if e.get("diverged"):
                    stats["divergences"] += 1
                    if len(stats["divergence_samples"]) < 5:
                        stats["divergence_samples"].append(b["name"] + ": " + e["diverged"])
                if e.get("dur_ms", 0) > stats["slowest_history_ms"]:
                    stats["slowest_history_ms"] = e["dur_ms"]; stats["slowest_history"] = b["name"]
                stats["by_kind"][b["kind"]] += 1
                stats["max_goroutines"] = max(stats["max_goroutines"], b["G"])
                stats["max_connections"] = max(stats["max_connections"], b["C"])
                stats["via_follower"] += b.get("via") == "follower"
                stats["with_cuts"] += b.get("cuts", 0) > 0
                cur = mx = 0
                sig = []
                for ev in h[1:-1]:
                    t = ev["e"]
                    sig.append((t, ev["g"], ev["role"], ev["ok"]))
                    stats["void_events"] += bool(ev["void"])
                    if t == "acq_ret":
                        stats["acquisitions"] += 1; cur += 1; mx = max(mx, cur)
                    elif t == "rel_call":
                        cur -= 1
                    elif t == "acq_fail":
                        stats["acquire_refused"] += 1
                    elif t in ("acq_err", "abandon"):
                        stats["uncertain"] += 1
                    elif t == "rel_ret" and not ev["ok"]:
                        stats["release_refused"] += 1
                    elif t == "obs":
                        stats["obs"] += 1; stats["obs_nonempty"] += len(ev["prios"]) > 0
                    elif t == "wait_ret":
                        stats["waits"] += 1; stats["wait_timeouts"] += not ev["ok"]
                    elif t == "quiet":
                        stats["quiet_points"] += 1
                stats["histories_with_overlap"] += mx >= 2
                if b.get("mode") == "vt":
                    vstat["histories"] += 1
                    vstat["directed" if b["name"].startswith("dvt-") else "tlc_generated"] += 1
                    vstat["by_kind"][b["kind"]] += 1
                    vstat["virtual_seconds"] += e.get("t_end", 0)
                    sc0 = byname.get(b["name"], {})
                    vstat["with_bystander_keys"] += bool(sc0.get("bys"))
                    vstat["with_colliding_bystander"] += any(o % sc0.get("fastkeys", 64) == 0 for o in sc0.get("bys", []))
                    tacq, tcall, last_ev = {}, {}, None
                    for ev in h[1:-1]:
                        t, g, now = ev["e"], ev["g"], ev["t"]
                        for gg in [x for x in tacq if now - tacq[x] > b["ex"] + 1]:
                            vstat["holds_lapsed_while_held"] += 1
                            del tacq[gg]
                        if t == "tick":
                            vstat["ticks"] += 1; vstat["longest_tick_s"] = max(vstat["longest_tick_s"], ev["prio"])
                        elif t in ("acq_call", "wait_call"):
                            tcall[g] = now
                        elif t == "acq_ret":
                            tacq[g] = now
                            q = now - tcall.get(g, now)
                            vstat["grants_after_more_than_36s_queued"] += q > 36
                            vstat["longest_queued_grant_s"] = max(vstat["longest_queued_grant_s"], q)
                        elif t == "acq_fail":
                            vstat["acquire_timeouts"] += ev["res"] == 8
                        elif t == "rel_ret" and g in tacq:
                            age = now - tacq[g]
                            vstat["releases_of_holds_older_than_36s"] += age > 36
                            vstat["releases_of_holds_older_than_44s"] += age > 44
                            vstat["oldest_released_hold_s"] = max(vstat["oldest_released_hold_s"], age)
                            vstat["release_refused"] += not ev["ok"]
                            if ev["ok"] and b["kind"] != "rlock":
                                del tacq[g]
                        elif t in ("set_ret", "clear_ret"):
                            vstat["event_calls_after_more_than_36s"] += last_ev is not None and now - last_ev > 36
                            last_ev = now
                        elif t == "wait_ret":
                            vstat["wait_timeouts"] += not ev["ok"]
                            vstat["waits_returned_after_more_than_36s"] += ev["ok"] and now - tcall.get(g, now) > 36
                if len(h) > 6:
                    distinct.add(hash(tuple(sig)))
                if len(samples) < 3 and len(h) > 10 and b["mode"] == ("free" if len(samples) != 1 else "seq"):
                    samples.append({"begin": b, "first_events": h[1:13]})
        if stats["incomplete"]:
            raise InfraError(f"{stats['incomplete']} histories are incomplete")
        # (6) self-tests
        stest = selftests(traces, wd)
        for r in stest:
            if r["rejected"] is False:
                raise InfraError(f"self-test failed: the monitor accepted a corrupted history ({r['selftest']}: {r['corruption']})")
        if not any(r["rejected"] for r in stest if r["selftest"] == "exclusive-overlap"):
            raise InfraError("self-test: no history suitable for the exclusive-overlap corruption was recorded")
        lap("selftest")
        # (1) results of the design checks
        th.join()
        th_time.join()
        lap("design_join")
        if "error" in tlc:
            raise tlc["error"]
        model = {}
        nstates = ngen = 0
        runs = [("enc", "spec/PrimEnc.tla", tlc["enc"], None), ("ref", "spec/PrimitivesRef.tla", tlc["ref"], None),
                ("ref_time", "spec/PrimitivesRef.tla", tlc["ref_time"], "the textbook objects across time (expiry 2 s, timeout 1 s, clock 0..4)")]
        for k, (c, r) in enumerate(tlc["enc_time"]):
            runs.append((f"enc_time{k}", "spec/PrimEnc.tla", r, "the encoding across time: %s processes, %d calls each, n in {%s}, timeout %s s, expiry %s s, clock steps {%s} up to second %d"
                         % (c["procs"].count(",") + 1, c["maxops"], c["ns"], c["to"], c["ex"], c["ticks"], c["maxnow"])))
        for key, mod, r, what in runs:
            st = vtlc.parse_stats(r["out"])
            if r["rc"] == -9:
                raise InfraError(f"TLC timed out on {mod}")
            if st is None or "No error has been found" not in r["out"]:
                raise InfraError(f"exhaustive check of {mod} did not complete cleanly (design model, not a verdict on the code):\n" + r["out"][-3000:])
            model[key] = {"module": mod, "distinct_states": st["distinct"], "generated": st["generated"], "wall_s": round(r["wall"], 1)}
            if what:
                model[key]["constants"] = what
            nstates += st["distinct"]; ngen += st["generated"]
        model["enc"]["constants"] = "8 primitive kinds, n in 1..3, %d processes, 2 acquire/wait calls each, RLock depth <= 3, priorities 1..2" % (3 if quick else 4)
        model["enc"]["invariants"] = ["EncStateOK", "EncUnitsExact", "EncNothingRefused", "EncNoLostAdmission", "EncWaitBlockedOnlyWhenClear",
                                      "EncLiveBracket", "EncGrantAdmissible", "EncHandOver", "EncWaitReturnsOnlyWhenSet", "EncWaitImmediateOnlyWhenSet"]
        out.coverage = {
            "evaluations": len(free) + len(seqs) + len(vts), "distinct_nontrivial": len(distinct),
            "rule": "one evaluation = one history recorded from the real client+server (free-running: G goroutines x iters acquire/release cycles on one shared key; "
                    "seq: one TLC-generated call sequence of 4 processes; vt: one call sequence with clock steps replayed on the in-process server under the virtual clock) "
                    "and validated by the TLA+ trace spec; distinct = distinct event sequences "
                    "(event type, goroutine, role, outcome) with more than 4 events",
            "samples": samples, "exhaustive": False,
            "states": nstates, "transitions": ngen, "traces_validated_against_impl": len(free) + len(seqs) + len(vts),
            "model": model,
            "free_running_histories": len(free), "tlc_behaviours_replayed": len(seqs), "driver_wall_s": round(run_wall, 1),
            "virtual_time_histories": vstat,
            "monitor": {"module": "spec/mon/MonPrim.tla", "events": mst["events"], "monitor_states": mst["monitor_states"]},
            "history_stats": stats, "phase_wall_s": T,
            "selftest": stest,
        }
        out.assumptions = [
            "schedules are free-running (sampled); only the encoding model and the replayed call sequences are enumerated / generated by TLC",
            "a hold is judged only while younger than half its expiry (120-400 s here); none was voided unless void_events > 0",
            "PriorityLock hand-over (free mode) is judged against the wait list the server itself reported (LIST_WAIT) to the holder before it released; goroutines use distinct priorities",
            "after a connection cut the outcome of in-flight calls is uncertain: such holds are dropped from the monitor's table (never added), wait-list observations and the final probe of that history are not judged",
            "Event: a Wait is judged only against intervals in which the event was definitely clear (a Clear returned, no Set overlapped or followed)",
            "the follower forwards to a static leader; fail-over during a history is not exercised here (C10/C12)",
            "virtual-time histories (mode vt): calls are issued one at a time; a hold counts as outstanding while younger than its expiry, as gone once older "
            "than expiry + 1 s, nothing is claimed in between; Semaphore units are anonymous (the definite holds keep the oldest ages, the possible holds the newest); "
            "an Event state that is a hold (Clear of a default-set event, Set of a default-clear event) lapses with that hold; the in-process server has one "
            "database and no follower; TokenBucketFlow is not driven (it reads the wall clock in the client)",
        ]
        return out
    finally:
        for t in (th, th_sim, th_time, th_simt, th_bv):
            try:
                t.join()
            except Exception:
                pass
        for nd in nodes:
            try:
                nd.stop()
            except Exception:
                pass
        if os.environ.get("VERIF_KEEP"):
            print("scratch kept:", wd)
        else:
            shutil.rmtree(wd, ignore_errors=True)

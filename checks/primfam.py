"""Check C19 - client-library primitives keep their textbook guarantees over TCP (engine P-lite).

  (1) TLC exhaustive: spec/PrimitivesRef.tla (the textbook rules are inductive) and spec/PrimEnc.tla (the ENCODING of
      every primitive - the Count / Rcount / flag values client/*.go sends - driving the lock-engine operators of
      spec/LockEngine.tla implies the textbook rules of spec/Primitives.tla, for every interleaving of the calls)
  (2) the REAL server binary (go build of the working tree) is started as a child process on a free loopback port,
      a second one with --slaveof gives the "through a follower's forwarding port" configuration
  (3) spec -> code: TLC -simulate behaviours of PrimEnc are replayed call by call through the real Go client
      (seq mode of harness/inpkg/client/zz_verif_prim_test.go, quiescence observed through the server's WaitCount)
  (4) code -> spec: seeded free-running histories (2..64 goroutines on 1..8 connections, n in 1..5, random hold
      times, pipelining on shared connections, connection cuts + reconnects, through the follower) are recorded as
      definitely-held intervals (acq_ret after the acquire returned / rel_call before the release is sent, one
      shared atomic stamp counter)
  (5) every history is validated by TLC against the trace spec spec/mon/MonPrim.tla (rules of spec/Primitives.tla)
  (6) binding self-tests: accepted histories are corrupted (one line moved / one field changed) and must be rejected
"""
import json, os, random, shutil, socket, subprocess, time, threading
import vbuild, vtlc, engine, checklib
from vbuild import VERIF, InfraError

PROPS = ["C19"]

MANIFEST = {
    "C19": dict(
        level="exploration", design="5/C19",
        technique="TLA+ encoding refinement (TLC exhaustive) + TLC-generated call sequences replayed over TCP + free-running interval histories validated by a TLA+ trace spec",
        text="The Go client primitives (Lock, RLock, RWLock, Semaphore, MaxConcurrentFlow, PriorityLock, Event) are driven against a real slock "
             "server process over TCP; every goroutine logs acq_ret after its acquire returned and rel_call before it releases, stamped by one "
             "atomic counter, so two overlapping definitely-held intervals are a real overlap. TLC validates every recorded history against the "
             "textbook admission rules (spec/Primitives.tla via spec/mon/MonPrim.tla). The schedules are free-running (sampled, not enumerated), "
             "hence level 'exploration'; the part that IS exhaustive is the TLC check that each primitive's encoding onto the lock engine "
             "(Count n-1, readers 0xffff / writer 0, Rcount 0xff, priority flag, Event's update/unlock pair) implies its rule for every "
             "interleaving of 3-4 processes, and TLC-generated behaviours of that model are replayed call by call on the real client+server.",
        note="Trusted base: Go runtime atomic counter ordering, TLC, the Go driver's bookkeeping (it only records). Assumes holds do not expire "
             "while judged (sessions older than half the 60-240 s expiry are voided, none occurs in practice); PriorityLock hand-over in free "
             "mode uses the server's own LIST_WAIT answer as evidence that a request is queued; replays observe quiescence through the "
             "server's WaitCount of a private DB. Follower forwarding is exercised with a static leader (no fail-over).",
        engine="P-lite"),
}

KINDS = ["lock", "rlock", "sem", "flow", "rw", "prio", "event_set", "event_clear"]
SPECDIRS = [os.path.join(VERIF, "spec"), os.path.join(VERIF, "spec", "mon")]

ENC_CONST = '''  Keys = {1}
  Lids = {1}
  Counts = {0}
  Rcounts = {0}
  Timeouts = {0}
  Expireds = {0}
  MaxReq = 0
  MaxNow = 0
  MaxDepth = 3
  LockFlags = {}
  UnlockFlags = {}
  A1Fixed = TRUE
  A13Fixed = TRUE
  NoDupWait = TRUE
  Roles = {"leader"}
  MaxRoleChanges = 0
  AofDelay = 100
  WaitLeader = 3
  ReArm = 1
  Turns = {"any"}
  Lag = FALSE
  EKinds = {"lock", "rlock", "sem", "flow", "rw", "prio", "event_set", "event_clear"}
  ENs = {1, 2, 3}
  EMaxRe = 3
  CMAX = 60
'''

ENC_MC = '''SPECIFICATION ESpec
CONSTANTS
''' + ENC_CONST + '''  EProcs = {%(procs)s}
  EMaxOps = %(maxops)d
  EPrios = {%(prios)s}
  EMaxSteps = 100
  EMinExport = 1000
  ETimeouts = TRUE
  A24Fixed = TRUE
VIEW eview
INVARIANTS EncStateOK EncUnitsExact EncNothingRefused EncNoLostAdmission EncWaitBlockedOnlyWhenClear
PROPERTY EncActionProps
CHECK_DEADLOCK FALSE
'''

ENC_SIM = '''SPECIFICATION ESpec
CONSTANTS
''' + ENC_CONST + '''  EProcs = {1, 2, 3, 4}
  EMaxOps = 3
  EPrios = {1, 2, 3, 4}
  EMaxSteps = %(steps)d
  EMinExport = %(steps)d
  ETimeouts = FALSE
  A24Fixed = TRUE
INVARIANTS EncStateOK EncUnitsExact EncNothingRefused EncNoLostAdmission EncWaitBlockedOnlyWhenClear EncExport
CHECK_DEADLOCK FALSE
'''

REF_MC = '''SPECIFICATION RSpec
CONSTANTS
  RKinds = {"lock", "rlock", "sem", "flow", "rw", "prio", "event_set", "event_clear"}
  RNs = {1, 2, 3}
  RProcs = {%(procs)s}
  RMaxDepth = 3
  RPrios = {1, 2, 3}
INVARIANTS RStateOK RWaitersBlocked RDepthBounded
CHECK_DEADLOCK FALSE
'''

# ------------------------------------------------------------------ server processes

def free_port():
    s = socket.socket()
    s.bind(("127.0.0.1", 0))
    p = s.getsockname()[1]
    s.close()
    return p

class Node:
    def __init__(self, binp, wd, name, extra):
        self.port = free_port()
        self.dir = os.path.join(wd, name)
        os.makedirs(self.dir)
        self.log = os.path.join(wd, name + ".log")
        self.proc = subprocess.Popen([binp, "--bind=127.0.0.1", "--port=%d" % self.port, "--data_dir=" + self.dir, "--log=" + self.log] + extra,
                                     cwd=wd, stdout=subprocess.DEVNULL, stderr=subprocess.DEVNULL)
        for _ in range(300):
            if self.proc.poll() is not None:
                raise InfraError(f"slock node {name} exited at start (rc {self.proc.returncode})")
            try:
                c = socket.create_connection(("127.0.0.1", self.port), timeout=0.5)
                c.close()
                return
            except OSError:
                time.sleep(0.1)
        self.stop()
        raise InfraError(f"slock node {name} does not listen on port {self.port}")

    def alive(self):
        return self.proc.poll() is None

    def stop(self):
        if self.proc.poll() is None:
            self.proc.terminate()
            try:
                self.proc.wait(timeout=5)
            except subprocess.TimeoutExpired:
                self.proc.kill()
                self.proc.wait()

def build_server(wd):
    binp = os.path.join(wd, "slock")
    p = subprocess.run(["go", "build", "-o", binp, "."], cwd=vbuild.REPO, env=vbuild.GOENV, capture_output=True, text=True)
    if p.returncode != 0:
        raise InfraError("build of the slock server failed:\n" + p.stdout + p.stderr)
    return binp

# ------------------------------------------------------------------ scenarios

def gen_free(seed, i, kind, port, via, budget, cuts=0):
    rng = random.Random(f"c19-{seed}-{i}-{kind}-{via}")
    G = rng.choice([2, 3, 4, 6, 8, 12, 16, 24, 32, 48, 64])
    n = rng.randint(1, 5)
    if kind in ("sem", "flow"):
        G = max(G, n + 2)
    if kind in ("event_set", "event_clear"):
        G = max(G, 3)
    C = rng.randint(1, min(8, G))
    hold = rng.choice([0, 100, 300, 1000, 3000])
    think = rng.choice([0, 100, 500, 2000])
    if kind.startswith("event"):
        hold = rng.choice([500, 2000, 8000, 20000])
    iters = max(3, min(40, budget // G))
    if kind == "prio":
        iters = max(3, min(20, budget // (2 * G)))
    sc = dict(name=f"free-{seed}-{i}-{kind}-{via}" + ("-cut" if cuts else ""), mode="free", kind=kind, n=n, G=G, C=C, iters=iters,
              hold_us=hold, think_us=think, depth=rng.randint(2, 4), seed=seed * 100003 + i, port=port, db=0, key=500000 + seed * 1000 + i,
              to_s=30, ex_s=120, cuts=cuts, via=via)
    if kind.startswith("event"):
        sc["short_waits"] = rng.random() < 0.5
    if cuts:
        sc["to_s"] = 3
        sc["max_s"] = 10
        if kind in ("sem", "rw"):
            sc["ex_s"] = 24      # anonymous holds cannot be cleaned up after a cut: let them expire
        sc["iters"] = max(3, min(sc["iters"], 160 // G))
        sc["C"] = min(sc["C"], 3)
    return sc

def behaviours(out, seed, limit):
    hs = set()
    for ln in out.splitlines():
        ln = ln.strip()
        if ln.startswith('"BEHAVIOUR '):
            try:
                hs.add(json.loads(ln)[10:])
            except Exception:
                pass
    hs = [json.loads(h) for h in sorted(hs)]
    rng = random.Random(seed)
    rng.shuffle(hs)
    return hs[:limit]

def directed():
    with open(os.path.join(VERIF, "scenarios", "prim_directed.json")) as fh:
        return json.load(fh)

def seq_scenarios(behs, seed, port, nshards):
    scs = []
    items = [(d["name"], d, d["steps"]) for d in directed()]
    items += [(f"tlc-{seed}-{i}-{b['kind']}", b, [dict(op=s["op"], p=s["p"] - 1, role=s["role"], prio=s["prio"]) for s in b["steps"]]) for i, b in enumerate(behs)]
    for i, (name, b, steps) in enumerate(items):
        rng = random.Random(f"c19seq-{seed}-{i}")
        sh = i % nshards
        scs.append(dict(name=name, mode="seq", kind=b["kind"], n=b["n"], G=4, C=rng.randint(1, 4), iters=0, hold_us=0, think_us=0,
                        depth=3, seed=seed, port=port, db=0, dbs=[1 + 15 * sh + j for j in range(15)], key=900000 + seed * 10000 + i,
                        to_s=200, ex_s=400, cuts=0, via="leader", steps=steps))
    return scs

# ------------------------------------------------------------------ trace validation (TLC, bounded heap: the machine is shared)

def monitor(traces, workdir, par=8, heap="1g", timeout=900):
    par = max(1, min(par, engine.NCPU))
    """engine.monitor_traces with a heap bound and bounded parallelism; same acceptance rule:
    TLC must consume every line (distinct states = lines + 1), VIOL lines are collected."""
    import concurrent.futures as cf
    def one(arg):
        i, tr = arg
        cfg = engine.MON_CFG % {"trace": tr, "props": '"C19"'}
        return tr, vtlc.run_tlc(SPECDIRS, "MonPrim", cfg, os.path.join(workdir, f"tlc_{i}"), workers=1, timeout=timeout, heap=heap)
    viols, nstates, nev = [], 0, 0
    with cf.ThreadPoolExecutor(max_workers=par) as ex:
        for tr, r in ex.map(one, list(enumerate(traces))):
            o = r["out"]
            st = vtlc.parse_stats(o)
            if r["rc"] == -9:
                raise InfraError(f"TLC timed out on {tr}")
            if "No error has been found" not in o or st is None:
                raise InfraError(f"TLC did not accept the trace file {tr} completely (monitor/infra problem, not a verdict):\n" + o[-3000:])
            with open(tr) as fh:
                n = sum(1 for _ in fh)
            if st["distinct"] != n + 1:
                raise InfraError(f"trace {tr}: {n} events but {st['distinct']} monitor states")
            nstates += st["distinct"]; nev += n
            for v in vtlc.parse_viols(o):
                v["file"] = tr
                viols.append(v)
    return viols, {"monitor_states": nstates, "events": nev}

# ------------------------------------------------------------------ self-tests (binding demonstration)

def split_histories(path):
    hs, cur = [], None
    with open(path) as fh:
        for ln in fh:
            e = json.loads(ln)
            if e["e"] == "begin":
                cur = [e]
            elif cur is not None:
                cur.append(e)
                if e["e"] == "end":
                    hs.append(cur)
                    cur = None
    return hs

def corrupt_exclusive(h):
    """move an acq_ret in front of the previous holder's rel_call (exclusive kinds)"""
    if h[0]["kind"] not in ("lock", "prio", "rlock") or h[0]["mode"] != "free":
        return None
    holder = None
    for i, e in enumerate(h):
        if e["e"] == "acq_ret" and not e["void"]:
            if holder is not None and holder[0] != e["g"]:
                j = holder[1]     # index of the holder's last rel_call, if it came before this acq_ret
                if j is not None:
                    hh = h[:j] + [h[i]] + h[j:i] + h[i + 1:]
                    return hh, f"acq_ret of goroutine {e['g']} (line {i+1}) moved before the rel_call of holder {holder[0]} (line {j+1})"
            if holder is None or holder[0] != e["g"]:
                holder = [e["g"], None]
        if e["e"] == "rel_call" and holder is not None and holder[0] == e["g"]:
            holder[1] = i
        if e["e"] in ("abandon", "acq_err", "acq_fail"):
            return None
    return None

def corrupt_capacity(h):
    """the recorded n of a semaphore / flow history is lowered to below the concurrency it reached"""
    if h[0]["kind"] not in ("sem", "flow") or h[0]["mode"] != "free":
        return None
    cur = mx = 0
    for e in h:
        if e["e"] == "acq_ret" and not e["void"]:
            cur += 1
            mx = max(mx, cur)
        if e["e"] == "rel_call" and not e["void"]:
            cur -= 1
        if e["e"] in ("abandon", "acq_err"):
            return None
    if mx >= 2:
        hh = [dict(h[0], n=mx - 1)] + h[1:]
        return hh, f"begin.n changed from {h[0]['n']} to {mx-1} although {mx} definite holds overlap"
    return None

def corrupt_rw(h):
    """a reader's acq_ret that overlaps another reader is relabelled as a writer"""
    if h[0]["kind"] != "rw" or h[0]["mode"] != "free":
        return None
    held = {}
    for i, e in enumerate(h):
        if e["e"] == "acq_ret" and not e["void"]:
            if e["role"] == "r" and held:
                hh = h[:i] + [dict(e, role="w")] + h[i + 1:]
                return hh, f"line {i+1}: role of a reader admitted next to {len(held)} reader(s) changed to writer"
            held[e["g"]] = e["role"]
        if e["e"] == "rel_call":
            held.pop(e["g"], None)
        if e["e"] in ("abandon", "acq_err"):
            return None
    return None

def corrupt_rlock(h):
    if h[0]["kind"] != "rlock":
        return None
    for i, e in enumerate(h):
        if e["e"] == "rel_ret" and e["ok"] and not e["void"]:
            hh = h[:i] + [dict(e, ok=False, res=6)] + h[i + 1:]
            return hh, f"line {i+1}: acknowledged unlock of an RLock holder rewritten to UNLOCK_ERROR"
    return None

def corrupt_prio(h):
    if h[0]["kind"] != "prio" or h[0]["mode"] != "free":
        return None
    armed = None
    obs = {}
    for i, e in enumerate(h):
        if e["e"] == "obs" and not e["void"]:
            obs[e["g"]] = e["prios"]
        if e["e"] == "rel_call":
            armed = obs.pop(e["g"], None)
        if e["e"] == "acq_ret":
            if armed and not e["void"] and len(set(armed)) >= 2 and e["prio"] == max(armed):
                hh = h[:i] + [dict(e, prio=min(armed))] + h[i + 1:]
                return hh, f"line {i+1}: priority of the waiting request that received the hand-over changed from {e['prio']} to {min(armed)} (the previous holder saw priorities {sorted(armed)} waiting)"
            armed = None
    return None

def corrupt_event(h):
    """a Set call is moved behind a Wait return that it enabled"""
    if h[0]["kind"] not in ("event_set", "event_clear") or h[0]["mode"] != "free":
        return None
    inflight, setcalls, clrmark, since = 0, 0, {}, (0 if h[0]["kind"] == "event_clear" else -1)
    last_set = None
    waitmark = {}
    for i, e in enumerate(h):
        t = e["e"]
        if t == "set_call":
            if since >= 0:
                last_set = (i, since)
            inflight += 1; setcalls += 1; since = -1
        elif t == "set_ret":
            inflight = max(0, inflight - 1)
        elif t == "clear_call":
            clrmark[e["g"]] = setcalls if inflight == 0 else -1
        elif t == "clear_ret":
            if e["ok"] and not e["void"] and clrmark.get(e["g"]) == setcalls and inflight == 0 and since < 0:
                since = e["s"]
            last_set = None if since >= 0 else last_set
        elif t == "wait_call":
            waitmark[e["g"]] = (i, e["s"])
        elif t == "wait_ret" and e["ok"] and last_set is not None and e["g"] in waitmark:
            j, was_since = last_set
            wi, ws = waitmark[e["g"]]
            # the wait was called while the event was definitely clear, and returned after that Set call
            if was_since < ws and wi < j < i and not any(x["e"] in ("set_call", "clear_ret") for x in h[j + 1:i]):
                hh = h[:j] + h[j + 1:i + 1] + [h[j]] + h[i + 1:]
                return hh, f"set_call (line {j+1}) moved behind the wait_ret (line {i+1}) of a Wait that was called while the event was clear"
    return None

def corrupt_seq(h):
    """replay: a quiescent point is made to list a process as queued although it is the re-entering holder / a reader among readers"""
    if h[0]["mode"] != "seq" or h[0]["kind"] not in ("lock", "prio", "rlock", "sem", "flow", "rw"):
        return None
    # simplest exact corruption: drop the rel_call of a holder -> the next holder's acq_ret overlaps
    if h[0]["kind"] not in ("lock", "prio"):
        return None
    for i, e in enumerate(h):
        if e["e"] == "rel_call":
            for k in range(i + 1, len(h)):
                if h[k]["e"] == "acq_ret" and h[k]["g"] != e["g"]:
                    hh = h[:i] + h[i + 1:]
                    return hh, f"replay history: rel_call of process {e['g']} (line {i+1}) deleted, the next grant then overlaps"
            return None
    return None

CORRUPTIONS = [("exclusive-overlap", corrupt_exclusive), ("capacity", corrupt_capacity), ("reader-as-writer", corrupt_rw),
               ("rlock-unlock-refused", corrupt_rlock), ("priority-handover", corrupt_prio), ("event-set-after-wait", corrupt_event),
               ("replay-missing-release", corrupt_seq)]

def selftests(traces, workdir):
    hists = []
    for tr in traces:
        hists += split_histories(tr)
    res, files = [], []
    for name, fn in CORRUPTIONS:
        found = None
        for h in hists:
            if len(h) > 6000:
                continue
            r = fn(h)
            if r:
                found = r
                break
        if not found:
            res.append({"selftest": name, "corruption": None, "rejected": None})
            continue
        hh, desc = found
        p = os.path.join(workdir, f"selftest_{name}.ndjson")
        with open(p, "w") as fh:
            for e in hh:
                fh.write(json.dumps(e) + "\n")
        files.append(p)
        res.append({"selftest": name, "corruption": desc, "file": p})
    if files:
        viols, _ = monitor(files, os.path.join(workdir, "selftest"), par=7, heap="512m")
        for r in res:
            if r.get("file"):
                codes = sorted({v["code"] for v in viols if v["file"] == r["file"]})
                r["rejected"] = len(codes) > 0
                r["codes"] = codes
                del r["file"]
    return res

# ------------------------------------------------------------------ the check

def run(prop, tier, seed):
    out = checklib.Outcome()
    out.level = "exploration"
    wd = vbuild.scratch(f"vf_{prop}_")
    nodes = []
    th = threading.Thread(target=lambda: None)
    th.start()
    th_sim = th
    try:
        quick = tier == "quick"
        T = {}
        tt = [time.time()]
        def lap(name):
            T[name] = round(time.time() - tt[0], 1); tt[0] = time.time()
        # (1) design checks, in the background while the real system runs
        tlc = {}
        def design():
            try:
                cfg = ENC_MC % ({"procs": "1, 2, 3", "maxops": 2, "prios": "1, 2"} if quick else {"procs": "1, 2, 3, 4", "maxops": 2, "prios": "1, 2"})
                tlc["enc"] = vtlc.run_tlc(SPECDIRS[0], "PrimEnc", cfg, os.path.join(wd, "mc_enc"), workers=min(4 if quick else 8, engine.NCPU),
                                          timeout=900 if quick else 3000, heap="1g" if quick else "3g")
                cfg = REF_MC % {"procs": "1, 2, 3" if quick else "1, 2, 3, 4"}
                tlc["ref"] = vtlc.run_tlc(SPECDIRS[0], "PrimitivesRef", cfg, os.path.join(wd, "mc_ref"), workers=2, timeout=600, heap="512m")
            except Exception as ex:      # reported by the main thread
                tlc["error"] = ex
        nb = 100 if quick else 3000
        steps = 14 if quick else 18
        def simulate():
            try:
                tlc["sim"] = vtlc.run_tlc(SPECDIRS[0], "PrimEnc", ENC_SIM % {"steps": steps}, os.path.join(wd, "sim"), workers=1, timeout=900, heap="512m",
                                          simulate=f"num={nb * 2}", depth=steps + 2, seed=seed)
            except Exception as ex:
                tlc["sim_error"] = ex
        th = threading.Thread(target=design)
        th.start()
        th_sim = threading.Thread(target=simulate)
        th_sim.start()
        # (2) the real system
        srv = build_server(wd)
        binp = vbuild.build_inpkg("client", wd)
        lap("build")
        leader = Node(srv, wd, "leader", [])
        nodes.append(leader)
        follower = Node(srv, wd, "follower", ["--slaveof=127.0.0.1:%d" % leader.port])
        nodes.append(follower)
        ready = [dict(name=f"ready-{nm}", mode="ready", kind="lock", n=1, G=1, C=1, port=nd.port, db=0, key=1 + k, to_s=0, ex_s=5)
                 for k, (nm, nd) in enumerate((("leader", leader), ("follower", follower)))]
        for fin, fout, p in engine.run_harness(binp, "TestVerifPrim", ready, os.path.join(wd, "ready"), tag="r", nshards=1, timeout=120):
            if p is not None:
                raise InfraError("the slock nodes did not become ready:\n" + (p.stdout or "")[-2000:] + (p.stderr or "")[-1000:])
        lap("nodes_ready")
        # (4) free-running scenarios
        budget = 300 if quick else 1500
        per_kind = 2 if quick else 20
        free = []
        i = 0
        for rep in range(per_kind):
            for kind in KINDS:
                free.append(gen_free(seed, i, kind, leader.port, "leader", budget)); i += 1
        for rep in range(1 if quick else 6):
            for kind in KINDS:
                free.append(gen_free(seed, i, kind, follower.port, "follower", budget)); i += 1
        cutkinds = KINDS if not quick else random.Random(seed).sample(KINDS[:6], 3) + ["event_set"]
        for rep in range(1 if quick else 2):
            for kind in cutkinds:
                free.append(gen_free(seed, i, kind, leader.port, "leader", budget, cuts=1 if quick else 2)); i += 1
        nshards = engine.NCPU
        t_run = time.time()
        res_free = engine.run_harness(binp, "TestVerifPrim", free, os.path.join(wd, "run_free"), tag="f", nshards=nshards, timeout=900,
                                      extra_env={"VERIF_PRIM_PAR": "4"})
        lap("run_free")
        # (3) behaviours for the replay
        th_sim.join()
        if "sim_error" in tlc:
            raise tlc["sim_error"]
        behs = behaviours(tlc["sim"]["out"], seed, nb)
        if len(behs) < 20:
            raise InfraError("behaviour generation produced too few behaviours:\n" + tlc["sim"]["out"][-2000:])
        seqs = seq_scenarios(behs, seed, leader.port, nshards)
        lap("tlc_simulate_join")
        res_seq = engine.run_harness(binp, "TestVerifPrim", seqs, os.path.join(wd, "run_seq"), tag="q", nshards=nshards, timeout=900,
                                     extra_env={"VERIF_PRIM_PAR": "4"})
        lap("run_seq")
        run_wall = time.time() - t_run
        traces = []
        for fin, fout, p in res_free + res_seq:
            if p is not None:
                alive = all(nd.alive() for nd in nodes)
                raise InfraError(f"driver failed on {fin} (server processes alive: {alive}):\n" + (p.stdout or "")[-3000:] + (p.stderr or "")[-1500:])
            traces.append(fout)
        for nd in nodes:
            if not nd.alive():
                raise InfraError("a slock server process died during the run (crash of the server is outside C19's monitor; see its log)")
        # (5) monitors (histories are independent: the trace files are concatenated pairwise to halve the JVM starts)
        merged = []
        os.makedirs(os.path.join(wd, "merged"))
        nm = max(1, min(8, len(traces)))
        for k in range(nm):
            mp = os.path.join(wd, "merged", f"trace_{k}.ndjson")
            with open(mp, "w") as fo:
                for tr in traces[k::nm]:
                    with open(tr) as fi:
                        shutil.copyfileobj(fi, fo)
            merged.append(mp)
        traces = merged
        viols, mst = monitor(traces, os.path.join(wd, "mon"))
        lap("monitor")
        byname = {sc["name"]: sc for sc in free + seqs}
        for v in viols:
            if v["prop"] == prop:
                out.viols.append((v, byname.get(v.get("name"))))
        # coverage measured from the histories
        stats = {"acquisitions": 0, "acquire_refused": 0, "uncertain": 0, "void_events": 0, "obs": 0, "obs_nonempty": 0, "waits": 0, "wait_timeouts": 0,
                 "quiet_points": 0, "divergences": 0, "incomplete": 0, "max_goroutines": 0, "max_connections": 0, "histories_with_overlap": 0,
                 "by_kind": {k: 0 for k in KINDS}, "via_follower": 0, "with_cuts": 0, "release_refused": 0,
                 "divergence_samples": [], "slowest_history_ms": 0, "slowest_history": ""}
        distinct = set()
        samples = []
        for tr in traces:
            for h in split_histories(tr):
                b, e = h[0], h[-1]
                if not e.get("complete"):
                    stats["incomplete"] += 1
                if e.get("diverged"):
                    stats["divergences"] += 1
                    if len(stats["divergence_samples"]) < 5:
                        stats["divergence_samples"].append(b["name"] + ": " + e["diverged"])
                if e.get("dur_ms", 0) > stats["slowest_history_ms"]:
                    stats["slowest_history_ms"] = e["dur_ms"]; stats["slowest_history"] = b["name"]
                stats["by_kind"][b["kind"]] += 1
                stats["max_goroutines"] = max(stats["max_goroutines"], b["G"])
                stats["max_connections"] = max(stats["max_connections"], b["C"])
                stats["via_follower"] += b.get("via") == "follower"
                stats["with_cuts"] += b.get("cuts", 0) > 0
                cur = mx = 0
                sig = []
                for ev in h[1:-1]:
                    t = ev["e"]
                    sig.append((t, ev["g"], ev["role"], ev["ok"]))
                    stats["void_events"] += bool(ev["void"])
                    if t == "acq_ret":
                        stats["acquisitions"] += 1; cur += 1; mx = max(mx, cur)
                    elif t == "rel_call":
                        cur -= 1
                    elif t == "acq_fail":
                        stats["acquire_refused"] += 1
                    elif t in ("acq_err", "abandon"):
                        stats["uncertain"] += 1
                    elif t == "rel_ret" and not ev["ok"]:
                        stats["release_refused"] += 1
                    elif t == "obs":
                        stats["obs"] += 1; stats["obs_nonempty"] += len(ev["prios"]) > 0
                    elif t == "wait_ret":
                        stats["waits"] += 1; stats["wait_timeouts"] += not ev["ok"]
                    elif t == "quiet":
                        stats["quiet_points"] += 1
                stats["histories_with_overlap"] += mx >= 2
                if len(h) > 6:
                    distinct.add(hash(tuple(sig)))
                if len(samples) < 3 and len(h) > 10 and b["mode"] == ("free" if len(samples) != 1 else "seq"):
                    samples.append({"begin": b, "first_events": h[1:13]})
        if stats["incomplete"]:
            raise InfraError(f"{stats['incomplete']} histories are incomplete")
        # (6) self-tests
        stest = selftests(traces, wd)
        for r in stest:
            if r["rejected"] is False:
                raise InfraError(f"self-test failed: the monitor accepted a corrupted history ({r['selftest']}: {r['corruption']})")
        if not any(r["rejected"] for r in stest if r["selftest"] == "exclusive-overlap"):
            raise InfraError("self-test: no history suitable for the exclusive-overlap corruption was recorded")
        lap("selftest")
        # (1) results of the design checks
        th.join()
        lap("design_join")
        if "error" in tlc:
            raise tlc["error"]
        model = {}
        nstates = ngen = 0
        for key, mod in (("enc", "spec/PrimEnc.tla"), ("ref", "spec/PrimitivesRef.tla")):
            r = tlc[key]
            st = vtlc.parse_stats(r["out"])
            if r["rc"] == -9:
                raise InfraError(f"TLC timed out on {mod}")
            if st is None or "No error has been found" not in r["out"]:
                raise InfraError(f"exhaustive check of {mod} did not complete cleanly (design model, not a verdict on the code):\n" + r["out"][-3000:])
            model[key] = {"module": mod, "distinct_states": st["distinct"], "generated": st["generated"], "wall_s": round(r["wall"], 1)}
            nstates += st["distinct"]; ngen += st["generated"]
        model["enc"]["constants"] = "8 primitive kinds, n in 1..3, %d processes, 2 acquire/wait calls each, RLock depth <= 3, priorities 1..2" % (3 if quick else 4)
        model["enc"]["invariants"] = ["EncStateOK", "EncUnitsExact", "EncNothingRefused", "EncNoLostAdmission", "EncWaitBlockedOnlyWhenClear",
                                      "EncGrantAdmissible", "EncHandOver", "EncWaitReturnsOnlyWhenSet", "EncWaitImmediateOnlyWhenSet"]
        out.coverage = {
            "evaluations": len(free) + len(seqs), "distinct_nontrivial": len(distinct),
            "rule": "one evaluation = one history recorded from the real client+server (free-running: G goroutines x iters acquire/release cycles on one shared key; "
                    "seq: one TLC-generated call sequence of 4 processes) and validated by the TLA+ trace spec; distinct = distinct event sequences "
                    "(event type, goroutine, role, outcome) with more than 4 events",
            "samples": samples, "exhaustive": False,
            "states": nstates, "transitions": ngen, "traces_validated_against_impl": len(free) + len(seqs),
            "model": model,
            "free_running_histories": len(free), "tlc_behaviours_replayed": len(seqs), "driver_wall_s": round(run_wall, 1),
            "monitor": {"module": "spec/mon/MonPrim.tla", "events": mst["events"], "monitor_states": mst["monitor_states"]},
            "history_stats": stats, "phase_wall_s": T,
            "selftest": stest,
        }
        out.assumptions = [
            "schedules are free-running (sampled); only the encoding model and the replayed call sequences are enumerated / generated by TLC",
            "a hold is judged only while younger than half its expiry (120-400 s here); none was voided unless void_events > 0",
            "PriorityLock hand-over (free mode) is judged against the wait list the server itself reported (LIST_WAIT) to the holder before it released; goroutines use distinct priorities",
            "after a connection cut the outcome of in-flight calls is uncertain: such holds are dropped from the monitor's table (never added), wait-list observations and the final probe of that history are not judged",
            "Event: a Wait is judged only against intervals in which the event was definitely clear (a Clear returned, no Set overlapped or followed)",
            "the follower forwards to a static leader; fail-over during a history is not exercised here (C10/C12)",
        ]
        return out
    finally:
        for t in (th, th_sim):
            try:
                t.join()
            except Exception:
                pass
        for nd in nodes:
            try:
                nd.stop()
            except Exception:
                pass
        if os.environ.get("VERIF_KEEP"):
            print("scratch kept:", wd)
        else:
            shutil.rmtree(wd, ignore_errors=True)

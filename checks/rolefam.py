"""Check C10 (only the leader decides; other nodes refuse or forward): the refuse / do-not-expire half in-process
(this module), the forwarding half on real server processes (checks/fwdpart.py, called from run()).

  (1) TLC exhaustive check of LockEngine with Roles = {leader, follower}: NonLeaderDecidesNothing and
      NoEarlyFollowerExpiry (action properties) over every interleaving of requests, role changes, ticks
  (2) seeded role-change histories replayed on the real LockDB (engine S, all four non-leader states),
      the clock driven up to 345 s past the deadlines
  (3) every trace validated by TLC against MonLock clauses of C10
  (4) forwarding half: checks/fwdpart.py - spec/Forward.tla (TLC, exhaustive), behaviours replayed on a real
      leader + followers + CONFIG-state member (engine P), traces validated against spec/mon/MonForward.tla.
"""
import json, os, shutil, time
import vbuild, vtlc, engine, gen_role, gen_rt, gen_conc, checklib
from vbuild import VERIF, InfraError
from checks import lockfam, fwdpart

PROPS = ["C10"]
MANIFEST = {"C10": dict(level="model_checking", design="5/C10", engine="S+P",
    technique="TLC on LockEngine with role changes (NonLeaderDecidesNothing, NoEarlyFollowerExpiry) + trace validation of real-code role-change histories (sequential, and role changes racing requests on the gated engine C) against the TLA+ monitor MonLock (C10 clauses); forwarding: TLC on Forward.tla (transparency layer) + TLC-generated, seeded and directed request sequences through real leader / follower / CONFIG-member processes (binary and text, upstream cuts, leader gone / frozen / killed, promotion between two requests of a connection; holds taken through a non-leader that EXPIRE on the leader in real time - the unsolicited EXPRIED frame with an already answered request id on the upstream link - followed by further requests on the same connections, text LOCK / SET EX / SETEX / PSETEX and binary; every key command registered in the text dispatch tables - write class and read class, PUSH - through a non-leader as a non-first command, each write followed by reads on the leader and on the follower), every trace validated by TLC against MonForward (one reply per request, relayed reply = the leader's reply, no success of the node's own, one sequential engine explains all routes, follower holds = leader's logged holds, exactly one leader frame is the answer of a request and it is the frame of THAT request, an expiry notice reaches a binary client as a notice of that very request and a text client never, a write-class key command is refused or forwarded and answered with the leader's frame as its reply writer renders it, the leader's values follow the sequential key-value store of spec/RedisCmds.tla)",
    text="The model is exhausted for two roles and two role changes; on the real code every request sent while the node is FOLLOWER/SYNC/CONFIG/VOTE must be answered STATE_ERROR (or UNLOCK_ERROR for a key without state, or TIMEOUT by the concurrent-check fast path), the holds seen in the snapshot must be exactly those the events explain, and no persisted hold may be expired before deadline+300 s.",
    note="Refuse half in-process: the role is switched on a real leader instance (db.status under the shard mutexes, as SLock.updateState does). Forwarding half on processes: followers joined with --slaveof through a recording proxy (the leader's real replies are seen on the wire); leader -> follower demotion is not provokable (SLAVEOF host port dead-locks in updateState) and VOTE needs an election: both only in the model and in engine S. Trusted: TLC, engine S / C harness, the proxy / client driver, MonLock, MonForward.")}

MC = lockfam.MC_CFG

def corrupt(lines):
    evs = [json.loads(x) for x in lines]
    status = 1
    for i, e in enumerate(evs):
        if e["e"] == "status":
            status = e["status"]
        if e["e"] == "reply" and status != 1 and e["res"] == 10 and e["ct"] == 1:
            e["res"] = 0
            return [json.dumps(x) for x in evs], f"line {i+1}: STATE_ERROR reply of a lock sent to a non-leader rewritten to SUCCED"
    return None

def run(prop, tier, seed):
    out = checklib.Outcome()
    wd = vbuild.scratch(f"vf_{prop}_")
    try:
        quick = tier == "quick"
        mc = MC % {"maxreq": 3 if quick else 4, "maxnow": 7 if quick else 8, "lag": "FALSE", "roles": '"leader", "follower"', "mrc": 2, "aofdelay": 1,
                   "lockflags": '"conc"' if quick else '"conc", "update", "prio"'}
        mc = mc.replace("Lids = {1, 2, 3}", "Lids = {1, 2}").replace("Rcounts = {0, 1}", "Rcounts = {0}").replace("Expireds = {0, 2}", "Expireds = {0, 1}")
        r = vtlc.run_tlc(os.path.join(VERIF, "spec"), "LockEngine", mc, os.path.join(wd, "mc"), workers=engine.NCPU, timeout=300 if quick else 2400)
        st = vtlc.parse_stats(r["out"])
        if st is None or "No error has been found" not in r["out"]:
            raise InfraError("LockEngine (roles) exhaustive check did not complete cleanly:\n" + r["out"][-3000:])
        n = 160 if quick else 3000
        scs = [gen_role.gen_role(seed, i) for i in range(n)]
        binp = vbuild.build_inpkg("server", wd)
        res = engine.run_harness(binp, "TestVerifS", scs, os.path.join(wd, "run"))
        traces = []
        for fin, fout, p in res:
            if p is not None:
                lockfam.died(prop, out, binp, "TestVerifS", fin, fout, p, wd, "S")
            traces.append(fout)
        # real-time part: persisted millisecond holds on a node that stops being the leader
        rt = [gen_rt.gen_rt(seed, i) for i in range(3, 64 if quick else 640, 4)]
        resr = engine.run_harness(binp, "TestVerifRT", rt, os.path.join(wd, "runrt"), tag="rt", nshards=min(len(rt), 32))
        for fin, fout, p in resr:
            if p is not None:
                lockfam.died(prop, out, binp, "TestVerifRT", fin, fout, p, wd, "RT")
            traces.append(fout)
        scs = scs + rt
        # engine C: a role change racing the requests of a phase (the request is parked at its entry yield point,
        # before the shard mutex, while the node stops being the leader)
        conc = [gen_conc.gen_conc_role(seed, i) for i in range(96 if quick else 1200)]
        with open(os.path.join(VERIF, "scenarios", "conc_role_directed.json")) as fh:
            conc += json.load(fh)
        resc = engine.run_harness(binp, "TestVerifC", conc, os.path.join(wd, "runc"), tag="c")
        for fin, fout, p in resc:
            if p is not None:
                lockfam.died(prop, out, binp, "TestVerifC", fin, fout, p, wd, "C")
            traces.append(fout)
        scs = scs + conc
        viols, mst = engine.monitor_traces("MonLock", traces, [prop], os.path.join(wd, "mon"))
        byname = {sc["name"]: sc for sc in scs}
        for v in viols:
            out.viols.append((v, byname.get(v.get("name"))))
        # self-test
        stest = {"corruption": None, "rejected": None}
        for tr in traces:
            lines = open(tr).read().splitlines()
            starts = [i for i, x in enumerate(lines) if '"e":"begin"' in x[:40]] + [len(lines)]
            done = False
            for a, b in zip(starts, starts[1:]):
                c = corrupt(lines[a:b])
                if c:
                    p = os.path.join(wd, "selftest.ndjson")
                    open(p, "w").write("\n".join(c[0]) + "\n")
                    v2, _ = engine.monitor_traces("MonLock", [p], [prop], os.path.join(wd, "selftest"))
                    stest = {"corruption": c[1], "rejected": len(v2) > 0, "codes": sorted({v["code"] for v in v2})}
                    done = True
                    break
            if done:
                break
        if stest["rejected"] is False:
            raise InfraError("self-test failed: corrupted trace accepted")
        nonleader_reqs = npass = 0
        for tr in traces:
            status = 1
            for ln in open(tr):
                if '"e":"status"' in ln:
                    status = json.loads(ln)["status"]
                elif '"e":"begin"' in ln[:40]:
                    status = 1
                elif status != 1 and '"e":"req"' in ln:
                    nonleader_reqs += 1
                elif status != 1 and '"e":"pass"' in ln:
                    npass += 1
        fwd = fwdpart.run_part(out, tier, seed, os.path.join(wd, "fwd"))
        out.coverage = {"states": st["distinct"] + fwd["model"]["states"], "transitions": st["generated"] + fwd["model"]["transitions"],
                        "traces_validated_against_impl": len(scs) + fwd["traces_validated_against_impl"], "forwarding": fwd,
                        "samples": [{"name": scs[0]["name"], "steps": scs[0]["steps"][:14]}], "exhaustive": True,
                        "model": {"module": "spec/LockEngine.tla", "roles": ["leader", "follower"], "max_role_changes": 2, "wall_s": round(r["wall"], 1)},
                        "requests_sent_to_non_leader": nonleader_reqs, "gated_role_race_histories": len(conc),
                        "requests_passing_their_entry_point_on_a_non_leader": npass, "monitor": mst, "selftest": stest,
                        "evaluations": len(scs), "distinct_nontrivial": len({json.dumps(s["steps"], sort_keys=True) for s in scs}),
                        "rule": "one evaluation = one role-change history replayed on the real code and validated by the TLA+ monitor"}
        out.assumptions = ["refuse half: role switched in-process on a leader instance",
                           "forwarding half: leader unreachability is produced by a proxy on the follower -> leader address (the replication link stays up) and once by kill -9 of the leader; follower -> leader role change by SLAVEOF NO ONE; states VOTE and leader -> follower are covered by the model and engine S only",
                           "millisecond holds are exercised on the real clock (engine RT) for a few seconds only, far short of the 300 s window"]
        return out
    finally:
        shutil.rmtree(wd, ignore_errors=True)

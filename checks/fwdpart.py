"""Forwarding half of C10 (called from checks/rolefam.py): a non-leader forwards a client request to the leader and relays
the leader's reply unchanged, or refuses; it never decides itself; its holds change only through the leader's stream.

  (1) TLC, exhaustive: spec/Forward.tla (transparency layer of a non-leader node: wrapped connections, upstream links,
      requests in flight, AGAIN re-dispatch on role changes, upstream breaks, leader unreachable) - invariants
      OneReplyRightConn, RelayedIsLeaderReply, NoFabricatedSuccess, RefusedNotExecuted, AnsweredUnlessOrphan and the action
      property NonLeaderEngineUntouched, with the code's deviations named as constants; hold expiry on the deciding engine
      (LeaderExpire: an unsolicited EXPRIED frame with an already answered request id on the upstream link) with
      ReplyOfThatVeryRequest, NoticeIsOfExpiredGrant, NoticesRelayedToBinary, LockWaiterEmpty; the mutation "lockRequestId is
      not reset after the relay" (ResetAfterRelay = FALSE) is refuted by TLC
  (2) TLC -simulate on the same module generates behaviours (sends per connection, breaks, leader gone / back, promotion)
      that are replayed, with seeded and directed histories, on real slock PROCESSES (engine P: leader, followers behind a
      recording proxy, a CONFIG-state member); every request / reply / upstream frame / snapshot is recorded
  (3) TLC validates every recorded trace against spec/mon/MonForward.tla
  (4) binding self-test: a relayed refusal of an accepted trace is rewritten to SUCCED; MonForward must reject it; the answer
      a text client got for a request AFTER an expiry is replaced by the leader's notice frame: MonForward must say
      reply-of-another-request."""
import json, os, threading, time, itertools
import vtlc, engine, gen_fwd
import replcluster as rc
import fwdcluster as fc
from vbuild import VERIF, InfraError

INVS = ("TypeOK OneReplyRightConn RelayedIsLeaderReply NoFabricatedSuccess RefusedNotExecuted AnsweredUnlessOrphan OrphansOnlyByDeviation OrphansAreBinary "
        "FastPathAgreesWithLeader ReplyOfThatVeryRequest NoticeIsOfExpiredGrant NoticesRelayedToBinary LockWaiterEmpty AckedWriteReachedLeader ReadsDecideNothing")
ALLOPS = '"lock0", "lockw", "lockr", "lockc", "lockcw", "unlock"'

MC = '''SPECIFICATION Spec
CONSTANTS
  BinConns = {%(bin)s}
  TextConns = {%(text)s}
  DirConns = {%(dir)s}
  Lids = {%(lids)s}
  Ops = {%(ops)s}
  MaxReq = %(maxreq)d
  MaxFaults = %(faults)d
  MaxExpire = %(expire)d
  RollbackLatestOnly = %(rlo)s
  FirstTextLocal = %(ftl)s
  FastPathOr = %(fpor)s
  ResetAfterRelay = %(reset)s
  MisfiledOps = {%(misfiled)s}
  AllowDemote = %(demote)s
  RecordHist = %(hist)s
INVARIANTS %(invs)s
%(props)s
CHECK_DEADLOCK FALSE
'''

def mc_cfg(**kw):
    d = dict(bin='"b1"', text='"t1"', dir='"d1"', lids="1, 2", ops='"lock0", "lockw", "unlock"', maxreq=3, faults=1, expire=0, rlo="TRUE", ftl="TRUE", fpor="FALSE", reset="TRUE", misfiled="",
             demote="FALSE", hist="FALSE", invs=INVS, props="PROPERTY NonLeaderEngineUntouched")
    d.update(kw)
    return MC % d

def exhaustive(tier, wd, res):
    """Design check of the forwarding model (runs beside the cluster)."""
    try:
        quick = tier == "quick"
        if quick:
            # (about 0.6 million states in all: the quick tier shares the machine with the cluster run; two faults, the repaired
            #  deviations and the 3 M / 10 M state configurations are in the thorough tier)
            runs = [("three-requests", mc_cfg(ops='"lockw", "unlock"', dir="")),
                    ("all-ops-one-fault-demote", mc_cfg(ops=ALLOPS, maxreq=2, faults=1, demote="TRUE")),
                    ("three-requests-one-expiry", mc_cfg(ops='"lockr", "lockw", "unlock"', dir="", faults=0, expire=1)),
                    ("value-commands-one-fault-demote", mc_cfg(ops='"wset", "rget", "lock0", "unlock"', maxreq=2, faults=1, demote="TRUE")),
                    ("value-commands-three-requests", mc_cfg(ops='"wset", "rget", "lock0"', dir="", lids="1", faults=0))]
        else:
            runs = [("three-requests", mc_cfg()),
                    ("all-ops-two-faults-demote", mc_cfg(ops=ALLOPS, maxreq=2, faults=2, demote="TRUE")),
                    ("deviations-repaired", mc_cfg(ops=ALLOPS, maxreq=2, faults=2, demote="TRUE", rlo="FALSE", ftl="FALSE", invs=INVS + " NoOrphan")),
                    ("three-requests-two-faults", mc_cfg(faults=2, demote="TRUE")),
                    ("two-binary-connections", mc_cfg(bin='"b1", "b2"', text="", maxreq=3, faults=2)),
                    ("three-requests-one-expiry", mc_cfg(ops='"lockr", "lockw", "unlock"', dir="", faults=0, expire=1)),
                    ("three-requests-two-expiries", mc_cfg(dir="", faults=0, expire=2)),
                    ("all-ops-one-fault-one-expiry-demote", mc_cfg(ops=ALLOPS, maxreq=2, faults=1, expire=1, demote="TRUE")),
                    ("three-requests-one-fault-one-expiry", mc_cfg(dir="", faults=1, expire=1)),
                    ("value-commands-one-fault-demote", mc_cfg(ops='"wset", "rget", "lock0", "unlock"', maxreq=2, faults=1, demote="TRUE")),
                    ("value-commands-three-requests-one-fault", mc_cfg(ops='"wset", "rget", "lock0", "unlock"', dir="", faults=1)),
                    ("value-commands-one-expiry", mc_cfg(ops='"wset", "rget", "lockw"', dir="", faults=0, expire=1))]
        # the refutations of the named deviations / mutations (small, two workers each) run beside the exhaustive configurations
        refuted, rerr = {}, []
        def refutations():
            try:
                specd = os.path.join(VERIF, "spec")
                for key, cfg, inv in [
                        # the named deviation is real in the model: with the code's rollback rule a request can stay unanswered
                        ("orphan_counterexample", mc_cfg(maxreq=2, faults=1, invs="NoOrphan", props=""), "NoOrphan"),
                        # the fast-path guard written with OR (a no-wait lock of the holder answered by the follower)
                        ("fastpath_or_counterexample", mc_cfg(ops='"lockr", "unlock"', maxreq=2, faults=0, fpor="TRUE", invs="FastPathAgreesWithLeader", props=""),
                         "FastPathAgreesWithLeader"),
                        # lockRequestId not reset after a frame was handed to lockWaiter (seed C10d): the expiry notice is taken as the
                        # answer of the next request of the text connection
                        ("noreset_counterexample", mc_cfg(ops='"lock0", "unlock"', bin="", dir="", maxreq=2, faults=0, expire=1, reset="FALSE",
                                                          invs="ReplyOfThatVeryRequest", props=""), "ReplyOfThatVeryRequest"),
                        # a write key command registered with the local read handler of the non-leader's text table (seed C10e): the
                        # client holds an answer for a write no deciding engine ever saw
                        ("misfiled_counterexample", mc_cfg(ops='"wset", "rget"', bin="", dir="", maxreq=2, faults=0, misfiled='"wset"',
                                                           invs="AckedWriteReachedLeader", props=""), "AckedWriteReachedLeader")]:
                    r = vtlc.run_tlc(specd, "Forward", cfg, os.path.join(wd, "mc_" + key), workers=2, timeout=300, heap="1g")
                    refuted[key] = ("Invariant %s is violated" % inv) in r["out"]
            except Exception as ex:
                rerr.append(ex)
        thr = threading.Thread(target=refutations)
        thr.start()
        out = []
        for name, cfg in runs:
            r = vtlc.run_tlc(os.path.join(VERIF, "spec"), "Forward", cfg, os.path.join(wd, "mc_" + name), workers=max(2, engine.NCPU - 2),
                             timeout=600 if quick else 3000, heap="3g")
            st = vtlc.parse_stats(r["out"])
            if st is None or "No error has been found" not in r["out"]:
                raise InfraError(f"Forward.tla exhaustive check '{name}' did not complete cleanly:\n" + r["out"][-3000:])
            out.append({"config": name, "states": st["distinct"], "transitions": st["generated"], "wall_s": round(r["wall"], 1)})
        thr.join()
        if rerr:
            raise rerr[0]
        res.update(refuted)
        res["runs"] = out
    except Exception as ex:
        res["error"] = ex

SIM = dict(bin='"b1", "b2"', text='"t1", "t2"', dir='"d1"', lids="1, 2, 3", ops=ALLOPS, faults=2, expire=0, hist="TRUE",
           invs="Export OneReplyRightConn RelayedIsLeaderReply NoFabricatedSuccess", props="")

def behaviours(seed, n, wd):
    """TLC-generated behaviours (hist sequences) of Forward.tla."""
    got, seen = [], set()
    st_total = 0
    for rnd, (maxreq, depth) in enumerate([(5, 40), (7, 60)]):
        cfg = mc_cfg(**dict(SIM, maxreq=maxreq))
        r = vtlc.run_tlc(os.path.join(VERIF, "spec"), "Forward", cfg, os.path.join(wd, f"sim{rnd}"), workers=1, timeout=240, heap="1g",
                         simulate=f"num={max(200, n * 8)}", depth=depth, seed=seed * 7 + rnd)
        if r["rc"] == -9:
            raise InfraError("behaviour generation (tlc -simulate on Forward.tla) timed out")
        for line in r["out"].splitlines():
            line = line.strip()
            if line.startswith('"BEHAVIOUR '):
                try:
                    h = json.loads(json.loads(line)[10:])
                except Exception:
                    continue
                key = json.dumps(h, sort_keys=True)
                if key not in seen and any(x["op"] == "send" for x in h):
                    seen.add(key)
                    got.append(h)
        if "Error:" in r["out"] and "BEHAVIOUR" not in r["out"]:
            raise InfraError("tlc -simulate on Forward.tla failed:\n" + r["out"][-2500:])
    # a fault after the last request exercises nothing: strip trailing fault steps, drop duplicates and prefixes,
    # prefer behaviours with requests AFTER their faults
    cut = []
    seen2 = set()
    for h in got:
        while h and h[-1]["op"] != "send":
            h = h[:-1]
        key = json.dumps(h, sort_keys=True)
        if h and key not in seen2:
            seen2.add(key)
            cut.append(h)
    def after_fault(h):
        f = [i for i, x in enumerate(h) if x["op"] != "send"]
        return 0 if not f else sum(1 for x in h[f[0]:] if x["op"] == "send")
    cut.sort(key=lambda h: (-after_fault(h), -len(h), json.dumps(h)))
    keep, prefixes = [], set()
    for h in cut:
        steps = [json.dumps(x, sort_keys=True) for x in h]
        if "|".join(steps) in prefixes:
            continue
        keep.append(h)
        for i in range(1, len(steps) + 1):
            prefixes.add("|".join(steps[:i]))
    import random
    rng = random.Random(seed)
    prom = [h for h in keep if any(x["op"] == "promote" for x in h)]
    faulty = [h for h in keep if not any(x["op"] == "promote" for x in h) and after_fault(h) > 0]
    plain = [h for h in keep if all(x["op"] == "send" for x in h)]
    # promotion: only behaviours that send on a connection of N both before and after it
    def straddles(h):
        i = [j for j, x in enumerate(h) if x["op"] == "promote"][0]
        before = {x["c"] for x in h[:i] if x["op"] == "send" and x["c"][0] in "bt"}
        after = {x["c"] for x in h[i:] if x["op"] == "send" and x["c"][0] in "bt"}
        return bool(before & after)
    prom = [h for h in prom if straddles(h)]
    # one bucket per fault pattern (break / gone / gone-back / ...), served round robin
    buckets = {}
    for h in faulty:
        buckets.setdefault(tuple(x["op"] for x in h if x["op"] != "send"), []).append(h)
    top = []
    order = sorted(buckets, key=lambda k: (("break" not in k), ("back" not in k), k))
    while len(top) < n and any(buckets.values()):
        for k in order:
            if buckets[k]:
                top.append(buckets[k].pop(0))
    rng.shuffle(plain); rng.shuffle(prom)
    nf = min(len(top), (n * 2) // 3)
    return top[:nf] + plain[: n - nf], prom, len(got)

def expiry_behaviours(seed, n, wd, res):
    """TLC-generated EXPIRY behaviours: random walks of spec/ForwardSim.tla (the class of the next step is drawn first), printed
    when a hold whose command came in on a connection of the non-leader expired and that connection sent again."""
    try:
        with open(os.path.join(VERIF, "spec", "sim", "ForwardExpiry_sim.cfg")) as fh:
            cfg = fh.read()
        r = vtlc.run_tlc(os.path.join(VERIF, "spec"), "ForwardSim", cfg, wd, workers=1, timeout=300, heap="1g",
                         simulate=f"num={max(250, n * 12)}", depth=80, seed=seed * 11 + 3)
        if r["rc"] == -9:
            raise InfraError("expiry behaviour generation (tlc -simulate on ForwardSim.tla) timed out")
        got, seen = [], set()
        for line in r["out"].splitlines():
            line = line.strip()
            if line.startswith('"BEHAVIOUR '):
                try:
                    h = json.loads(json.loads(line)[10:])
                except Exception:
                    continue
                while h and h[-1]["op"] != "send":
                    h = h[:-1]
                key = json.dumps(h, sort_keys=True)
                if key not in seen:
                    seen.add(key)
                    got.append(h)
        if not got:
            raise InfraError("tlc -simulate on ForwardSim.tla produced no expiry behaviour:\n" + r["out"][-2500:])
        def first_exp(h):
            return [x for x in h if x["op"] == "expire" and x["n"] > 0 and x["c"][:1] in "bt"][0]
        def rank(h):
            x = first_exp(h)
            i = h.index(x)
            after_same = sum(1 for y in h[i + 1:] if y["op"] == "send" and y["c"] == x["c"])
            nofault = not any(y["op"] in ("break", "gone") for y in h[:i + 1])
            return (-int(nofault), -min(after_same, 3), -sum(1 for y in h if y["op"] == "expire"), json.dumps(h, sort_keys=True))
        got.sort(key=rank)
        # text and binary holders alternate
        et = [h for h in got if first_exp(h)["c"][:1] == "t"]
        eb = [h for h in got if first_exp(h)["c"][:1] == "b"]
        mixed = [x for pair in zip(et, eb) for x in pair] + et[len(eb):] + eb[len(et):]
        res["behs"], res["raw"], res["wall_s"] = mixed[:n], len(got), round(r["wall"], 1)
    except Exception as ex:
        res["error"] = ex

# ------------------------------------------------------------------------------------------- trace normalisation

TS_BASE = 1700000000

class IdMap:
    def __init__(self):
        self.m, self.n = {}, 1500000
    def get(self, x):
        if isinstance(x, int):
            return x
        if x not in self.m:
            self.n += 1
            self.m[x] = self.n
        return self.m[x]

def payload(hexdata):
    return hexdata[4:] if hexdata else ""

# wire form of the text key commands (protocol/textcommand.go): frame type, flag, LockId = key?
V_WIRE = {}
for _n in ("SET", "GETSET", "APPEND", "INCR", "INCRBY", "DECR", "DECRBY", "SETEX", "PSETEX"):
    V_WIRE[_n] = (1, 0x22, True)
V_WIRE["SETNX"] = (1, 0x20, False)
for _n in ("EXPIRE", "PEXPIRE", "EXPIREAT", "PEXPIREAT", "PERSIST"):
    V_WIRE[_n] = (1, 0x02, True)
V_WIRE["DEL"] = (2, 0x01, True)
for _n in ("GET", "STRLEN", "EXISTS", "TYPE", "DUMP"):
    V_WIRE[_n] = (1, 0x01, True)
# command code of spec/RedisCmds.tla for the form that was sent ("" = outside that store: not judged against it)
KV_CODES = {"SET", "SETNX", "SETEX", "PSETEX", "GETSET", "APPEND", "INCR", "INCRBY", "DECR", "DECRBY", "EXPIRE", "PEXPIRE", "EXPIREAT", "PEXPIREAT",
            "PERSIST", "DEL", "GET", "STRLEN", "EXISTS"}

def wire_of(e):
    """(frame type, LockId or 0 = any, flag or None) a text request would be forwarded with; None: never linked."""
    c = e["cmd"]
    if c in ("L", "U"):
        return (1 if c == "L" else 2, e["lid"], None)
    if c == "P":
        return (1, e["lid"], None)
    if c == "S":
        return (1, e["key"], None)
    if c == "D":
        return (2, e["key"], None)
    if c == "V" and e.get("name") in V_WIRE:
        ct, flag, own = V_WIRE[e["name"]]
        return (ct, e["key"] if own else 0, flag)
    return None

def same_terms(e, x):
    """Is the forwarded frame x (seen by the proxy) the frame of text request e?  Two text connections of one node may send
    requests with one key and LockId at the same time: the flag, the times and the counts tell them apart."""
    if "to" not in x:
        return True
    if e["cmd"] == "L":
        return (x["flag"] & 0xdf) == (e["flag"] & 0xdf) and (x["to"], x["tf"], x["ex"], x["ef"], x["cnt"], x["rc"]) == (e["to"], e["tf"], e["ex"], e["ef"], e["cnt"], e["rc"])
    if e["cmd"] == "U":
        return (x["flag"] & 0xdf) == (e["flag"] & 0xdf) and x["rc"] == e["rc"]
    if e["cmd"] == "V":
        w = wire_of(e)
        return w is not None and x["flag"] == w[2]
    return True

def normalise(events, ids, vkeys):
    """Cut after `end`, make every id an int, link each request to the upstream request that carried it, give every
    event of a kind the same fields (TLC records)."""
    out = []
    for e in events:
        out.append(dict(e))
        if e["e"] == "end":
            break
    for e in out:
        for f in ("lid", "key"):
            if f in e:
                e[f] = ids.get(e[f])
        if "ts" in e:
            e["ts"] -= TS_BASE             # (TLC integers are 32 bit: seconds are counted from a fixed recent instant)
        if e["e"] == "snap":
            for ks in e["keys"]:
                for h in ks["holds"]:
                    h["lid"] = ids.get(h["lid"])
                    h["exp"] = max(0, h.get("exp", 0) - TS_BASE)
    # link
    used = set()
    replied_at = {}
    for i, e in enumerate(out):
        if e["e"] != "req":
            continue
        e["uprid"] = 0
        e.setdefault("len", 0)
        # expiry of the request in whole seconds (lower / upper bound): the unit is in the expiry flag
        ex, ef = e.get("ex", 0), e.get("ef", 0)
        if ef & 0x4000:
            e["exlo"] = e["exhi"] = 1000000000 if ex else 0
        elif ef & 0x0400:
            e["exlo"], e["exhi"] = ex // 1000, (ex + 999) // 1000
        elif ef & 0x0040:
            e["exlo"] = e["exhi"] = ex * 60
        else:
            e["exlo"] = e["exhi"] = ex
        # value commands: the bytes of the value argument, the command of spec/RedisCmds.tla and its number
        e.setdefault("name", ""); e.setdefault("num", 0)
        e["valb"] = list(str(e.get("val", "")).encode())
        c = e["cmd"]
        if c == "S":
            ms = bool(ef & 0x0400)
            e["kc"] = "SET" if not ex else (("PSETEX" if ms else "SETEX") if e.get("form") == "setex" else ("SET_PX" if ms else "SET_EX"))
            e["kd"] = ex
        elif c in ("G", "D"):
            e["kc"], e["kd"] = ("GET" if c == "G" else "DEL"), 0
        elif c == "V":
            e["kc"], e["kd"] = (e["name"] if e["name"] in KV_CODES else ""), e["num"]
        else:
            e["kc"], e["kd"] = "", 0
        e.pop("form", None)
        w = wire_of(e)
        if w is None:
            continue
        ct, lid = w[0], w[1]
        for j in range(i + 1, len(out)):
            x = out[j]
            if x["e"] == "reply" and x["rid"] == e["id"]:
                replied_at[e["id"]] = j
                break
            if x["e"] == "up_req" and x["node"] == e["node"] and j not in used:
                if e["proto"] == "bin":
                    if x["rid"] == e["id"]:
                        e["uprid"] = x["rid"]; used.add(j); break
                elif x.get("ct") == ct and x.get("key") == e["key"] and (lid == 0 or x.get("lid") == lid) and x["rid"] >= fc.TEXT_RID_BASE and same_terms(e, x):
                    e["uprid"] = x["rid"]; used.add(j); break
    # a text request whose forwarded frame was seen by the proxy only AFTER the client had its answer (the answer did not wait
    # for the leader: the monitor will have to say why): the frame is still this request's when no other request was issued
    # in between
    for i, e in enumerate(out):
        if e["e"] == "req" and e["proto"] == "text" and e["uprid"] == 0 and wire_of(e) is not None and e["id"] in replied_at:
            ct, lid = wire_of(e)[0], wire_of(e)[1]
            for j in range(replied_at[e["id"]] + 1, len(out)):
                x = out[j]
                if x["e"] in ("req", "end"):
                    break
                if x["e"] == "up_req" and x["node"] == e["node"] and j not in used and x.get("ct") == ct and x.get("key") == e["key"] \
                   and (lid == 0 or x.get("lid") == lid) and x["rid"] >= fc.TEXT_RID_BASE and same_terms(e, x):
                    e["uprid"] = x["rid"]; used.add(j); break
    for e in out:
        if e["e"] == "reply":
            e["datap"] = e["data"] if "err" in e else payload(e["data"])      # text replies carry the payload only
            e.setdefault("val", ""); e.setdefault("nil", False); e.setdefault("err", "")
            e.setdefault("rk", "other"); e.setdefault("ri", 0); e.setdefault("rsb", [])
            e.pop("raw", None)
        elif e["e"] == "up_reply":
            e["datap"] = payload(e["data"])
            for f, dv in (("dkind", "none"), ("dvb", []), ("dnum", 0), ("dlen", 0), ("dempty", True)):
                e.setdefault(f, dv)
        elif e["e"] == "vals":
            for x in e["vals"]:
                x.setdefault("rk", "nil" if x.get("nil") else "bulk"); x.setdefault("ri", 0); x.setdefault("rsb", list(str(x.get("val", "")).encode()))
        elif e["e"] == "begin":
            e["vkeys"] = list(vkeys)
    return out

def seq_json(sc):
    def conv(x):
        if isinstance(x, bytes):
            return x.hex()
        if isinstance(x, dict):
            return {k: conv(v) for k, v in x.items()}
        if isinstance(x, list):
            return [conv(v) for v in x]
        return x
    return conv(sc)

# ------------------------------------------------------------------------------------------- self-test

def corrupt(events):
    """A refusal the follower RELAYED (the leader said TIMEOUT / LOCKED_ERROR) rewritten to SUCCED."""
    evs = [dict(e) for e in events]
    reqs = {e["id"]: e for e in evs if e["e"] == "req"}
    ups = {e["rid"]: e for e in evs if e["e"] == "up_reply"}
    for i, e in enumerate(evs):
        if e["e"] == "reply" and e["res"] in (5, 8) and e["rid"] in reqs:
            q = reqs[e["rid"]]
            if q["role"] == "follower" and q["uprid"] in ups and ups[q["uprid"]]["res"] == e["res"] and q["cmd"] == "L":
                e["res"] = 0
                return evs, f"event {i + 1}: the {('TIMEOUT', 'LOCKED_ERROR')[e['res'] == 5]} reply relayed by follower {q['node']} for request {q['id']} ({q['proto']}) rewritten to SUCCED"
    return None

def _notices(evs):
    """(index, up_reply event) of every FURTHER frame the leader sent with a request id it had already answered."""
    seen, out = set(), []
    for i, e in enumerate(evs):
        if e["e"] == "up_reply":
            if e["rid"] in seen:
                out.append((i, e))
            seen.add(e["rid"])
    return out

def corrupt_text_notice(events):
    """The answer a TEXT client got through a follower for a request AFTER the expiry of an earlier hold of that connection is
    replaced by the leader's expiry notice (all fields of that frame): the monitor must say reply-of-another-request."""
    evs = [dict(e) for e in events]
    for i, n in _notices(evs):
        if n["res"] != 9:
            continue
        owner = [e for e in evs if e["e"] == "req" and e["uprid"] == n["rid"] and e["proto"] == "text" and e["role"] == "follower"]
        if not owner:
            continue
        for q in evs[i:]:
            if q["e"] == "req" and q["conn"] == owner[0]["conn"] and q["node"] == owner[0]["node"] and q["cmd"] in ("L", "U") and q["uprid"] != 0:
                for j, r in enumerate(evs):
                    if r["e"] == "reply" and r["rid"] == q["id"] and j > i:
                        for f in ("res", "lid", "lc", "cnt", "lrc", "rc", "datap"):
                            r[f] = n[f]
                        r["data"] = n["datap"]
                        return evs, (f"event {j + 1}: the answer of text request {q['id']} (connection {q['conn']} of follower {q['node']}) replaced by the leader's "
                                     f"EXPRIED notice for request {owner[0]['id']} of that connection"), "reply-of-another-request"
    return None

def corrupt_binary_notice(events):
    """The expiry notice a BINARY client got through a follower is removed from the trace: the monitor must say notice-not-relayed."""
    evs = [dict(e) for e in events]
    if any(e["e"] in ("cut", "up_closed", "gone", "role", "closed") for e in evs):
        return None
    for i, n in _notices(evs):
        if n["res"] != 9:
            continue
        owner = [e for e in evs if e["e"] == "req" and e["uprid"] == n["rid"] and e["proto"] == "bin" and e["role"] == "follower"]
        if not owner:
            continue
        hits = [j for j, r in enumerate(evs) if r["e"] == "reply" and r["rid"] == owner[0]["id"] and r["res"] == 9 and j > i]
        if hits:
            del evs[hits[0]]
            return evs, (f"event {hits[0] + 1}: the EXPRIED notice follower {owner[0]['node']} relayed to binary connection {owner[0]['conn']} "
                         f"for request {owner[0]['id']} removed"), "notice-not-relayed"
    return None

READS = ("G", "C")
def is_read(q):
    return q["cmd"] in READS or (q["cmd"] == "V" and q.get("name") in gen_fwd.READ_CMDS)

def corrupt_write_answered_locally(events):
    """A write key command (GETSET first of all) that a follower FORWARDED loses its upstream frames in the trace, as if the node had
    answered it from its replica: the monitor must say non-leader-answered-on-its-own."""
    evs = [dict(e) for e in events]
    cands = [e for e in evs if e["e"] == "req" and e["cmd"] == "V" and e["name"] in gen_fwd.WRITE_CMDS and e["role"] == "follower" and e["uprid"] and not e["first"]]
    cands.sort(key=lambda e: (e["name"] != "GETSET", e["id"]))
    for q in cands:
        rep_ = [r for r in evs if r["e"] == "reply" and r["rid"] == q["id"]]
        if not rep_ or rep_[0]["res"] not in (0, 8):
            continue
        up = q["uprid"]
        evs = [e for e in evs if not (e["e"] in ("up_req", "up_reply") and e["rid"] == up)]
        q["uprid"] = 0
        return evs, (f"the upstream frames of text request {q['id']} ({q['name']} through follower {q['node']}, answered {rep_[0]['rk']}) removed: "
                     "the answer stands without a request to the leader"), "non-leader-answered-on-its-own"
    return None

def corrupt_leader_value(events):
    """The value the LEADER reports after a write command that went through a follower is replaced by another one: the monitor must
    say get-differs-from-last-acknowledged-set (the leader's values follow the sequential key-value store)."""
    evs = [dict(e) for e in events]
    reqs = {e["id"]: e for e in evs if e["e"] == "req"}
    wrote = set()
    for e in evs:
        if e["e"] == "reply" and e["rid"] in reqs:
            q = reqs[e["rid"]]
            if q["cmd"] == "V" and q["name"] in ("GETSET", "APPEND", "SET") and q["role"] == "follower" and q["uprid"] and e["res"] == 0:
                wrote.add(q["key"])
            elif q["cmd"] == "G" and q["where"] == "L" and q["key"] in wrote and e["rk"] == "bulk":
                e["rsb"] = list(b"not-the-value"); e["val"] = "not-the-value"
                return evs, f"the value the leader answered to GET request {q['id']} (key {q['key']}, after a write through a follower) replaced", "get-differs-from-last-acknowledged-set"
    return None

# ------------------------------------------------------------------------------------------- monitor run

def fstats(files, props, wd, timeout=900):
    """One TLC run per trace file; returns (viols, monitor stats, judged-keys statistics)."""
    import concurrent.futures as cf
    # the monitor and the module it instantiates (the key-value store of the text commands: spec/RedisCmds.tla)
    import shutil
    specs = os.path.join(wd, "specs")
    os.makedirs(specs, exist_ok=True)
    for f in os.listdir(os.path.join(VERIF, "spec", "mon")):
        if f.endswith(".tla"):
            shutil.copy(os.path.join(VERIF, "spec", "mon", f), specs)
    shutil.copy(os.path.join(VERIF, "spec", "RedisCmds.tla"), specs)
    def one(arg):
        i, tr = arg
        cfg = engine.MON_CFG % {"trace": tr, "props": ", ".join('"%s"' % p for p in props)}
        return tr, vtlc.run_tlc([specs], "MonForward", cfg, os.path.join(wd, f"tlc_{i}"), workers=1, timeout=timeout)
    viols, nstates, nev, keys, tainted = [], 0, 0, 0, 0
    with cf.ThreadPoolExecutor(max_workers=max(1, min(engine.NCPU, len(files)))) as ex:
        for tr, r in ex.map(one, list(enumerate(files))):
            o = r["out"]
            st = vtlc.parse_stats(o)
            if r["rc"] == -9:
                raise InfraError(f"TLC timed out on {tr}")
            if "No error has been found" not in o or st is None:
                raise InfraError(f"TLC did not accept the trace file {tr} completely (monitor / infrastructure problem, not a verdict):\n" + o[-3000:])
            with open(tr) as fh:
                n = sum(1 for _ in fh)
            if st["distinct"] != n + 1:
                raise InfraError(f"trace {tr}: {n} events but {st['distinct']} monitor states")
            nstates += st["distinct"]; nev += n
            for v in vtlc.parse_viols(o):
                v["file"] = tr
                viols.append(v)
            seen = set()
            for line in o.splitlines():
                line = line.strip()
                if line.startswith('"FSTAT '):
                    try:
                        d = json.loads(json.loads(line)[6:])
                    except Exception:
                        continue
                    if d["name"] in seen:
                        continue
                    seen.add(d["name"])
                    keys += d["keys"]; tainted += d["tainted"]
    return viols, {"monitor_states": nstates, "events": nev}, {"lock_keys": keys, "keys_not_judged_to_the_end": tainted}

# ------------------------------------------------------------------------------------------- the part

def run_part(out, tier, seed, wd):
    quick = tier == "quick"
    t_start = time.time()
    os.makedirs(wd, exist_ok=True)
    nbeh = 50 if quick else 600
    nrnd = 70 if quick else 900
    nxbeh = 8 if quick else 120        # expiry histories (real time: each costs 0.3 - 3 s; they run on followers of their own)
    nxrnd = 16 if quick else 300
    nvrnd = 20 if quick else 300       # histories over the whole text command table
    laps = {}
    # (1) exhaustive design check, beside everything else
    mcres = {}
    th = threading.Thread(target=exhaustive, args=(tier, os.path.join(wd, "mc"), mcres))
    th.start()
    # (2a) behaviours from the model
    xres = {}
    thx = threading.Thread(target=expiry_behaviours, args=(seed, nxbeh, os.path.join(wd, "simx"), xres))
    thx.start()
    behs, prom_behs, nraw = behaviours(seed, nbeh, os.path.join(wd, "sim"))
    thx.join()
    if "error" in xres:
        raise xres["error"] if isinstance(xres["error"], InfraError) else InfraError("expiry behaviour generation failed: %r" % (xres["error"],))
    exp_behs = xres["behs"]
    if len(exp_behs) < min(4, nxbeh):
        raise InfraError(f"expiry behaviour generation produced only {len(exp_behs)} behaviours")
    if len(behs) < min(20, nbeh):
        raise InfraError(f"behaviour generation produced only {len(behs)} behaviours")
    laps["simulate_s"] = round(time.time() - t_start, 1)
    cluster = None
    try:
        binp = rc.build_server(wd)
        nprom = 2 + min(len(prom_behs), 2 if quick else 8)
        NX = 3 if quick else 6             # followers that run the expiry histories (real time: their wall time is the sum of the waits)
        cluster = fc.FwdCluster(binp, os.path.join(wd, "cluster"), nf=2 + NX, nspare=nprom)
        os.makedirs(os.path.join(wd, "cluster"), exist_ok=True)
        laps["cluster_start_s"] = round(cluster.start(), 2)
        cnt = itertools.count(1)
        lk = threading.Lock()
        def next_rid():
            with lk:
                return next(cnt)
        # sequences: fresh key range each
        seqs, idx = [], 0
        def kb():
            return 10000 + idx * 16
        for h in behs:
            seqs.append(gen_fwd.from_behaviour(seed, idx, h, kb())); idx += 1
        for i in range(nrnd):
            seqs.append(gen_fwd.gen_random(seed, idx, kb())); idx += 1
        dirs = gen_fwd.directed(seed, idx, kb(), 16)
        idx += len(dirs) + 1
        frozen = [d for d in dirs if d["name"] == "dir-leader-frozen"]
        seqs += [d for d in dirs if d["name"] != "dir-leader-frozen"]
        proms = [gen_fwd.promote_seq(seed, idx, kb(), 0)]; idx += 1
        proms.append(gen_fwd.promote_seq(seed, idx, kb(), 1)); idx += 1
        for h in prom_behs[: nprom - 2]:
            proms.append(gen_fwd.from_behaviour(seed, idx, h, kb())); idx += 1
        kill = gen_fwd.kill_seq(seed, idx, kb()); idx += 1
        # expiry histories: key ranges of their own (64 keys each)
        xseqs, xi = [], 0
        def xkb():
            return 500000 + xi * 64
        xdir = gen_fwd.directed_expiry(seed, idx, xkb(), 64)
        xi += len(xdir); idx += len(xdir)
        for h in exp_behs:
            xseqs.append(gen_fwd.from_behaviour(seed, idx, h, xkb())); idx += 1; xi += 1
        for i in range(nxrnd):
            xseqs.append(gen_fwd.gen_expiry(seed, idx, xkb())); idx += 1; xi += 1
        # (directed ones spread over the expiry workers, first)
        xseqs = xdir + xseqs
        # the text key commands: every registered command through a non-leader (key ranges of their own, 64 keys each)
        vdir = gen_fwd.directed_values(seed, idx, 900000, 64)
        idx += len(vdir)
        vseqs = list(vdir)
        for i in range(nvrnd):
            vseqs.append(gen_fwd.gen_values(seed, idx, 900000 + (len(vdir) + i) * 64)); idx += 1
        seqs += vseqs
        traces = {}        # worker -> list of (sequence, normalised events)
        errors = []
        ids = IdMap()
        idlock = threading.Lock()
        def work(name, fname_of, items):
            res = []
            try:
                for k, sc in enumerate(items):
                    fname = fname_of(k)
                    r = fc.SeqRunner(cluster, fname, next_rid)
                    ev = r.run(sc)
                    with idlock:
                        res.append((sc, normalise(ev, ids, sc.get("vkeys", []))))
                    dead = cluster.alive()
                    if dead and sc["kind"] != "kill":
                        raise InfraError(f"slock node(s) {dead} died during sequence {sc['name']} (a server crash is judged by C13, not here):\n"
                                         + (cluster.leader if "L" in dead else cluster.followers.get(dead[0], (cluster.leader,))[0]).tail_log(1500))
            except Exception as ex:
                errors.append(ex)
            traces[name] = res
        t_run = time.time()
        rsc = gen_fwd.replset_seq(seed, idx, kb()); idx += 1
        def work_replset():
            # (an election can take long on a starved machine: one retry on a fresh replica set before giving up)
            for attempt in (1, 2):
                try:
                    r = fc.ReplsetRunner(binp, os.path.join(wd, "replset%d" % attempt), next_rid)
                    ev = r.run(rsc)
                    with idlock:
                        traces["R"] = [(rsc, normalise(ev, ids, []))]
                    laps["replset_attempts"] = attempt
                    return
                except InfraError as ex:
                    if attempt == 2:
                        errors.append(ex)
                except Exception as ex:
                    errors.append(ex)
                    return
        ws = [threading.Thread(target=work, args=("F1", lambda k: "F1", seqs[0::2])),
              threading.Thread(target=work, args=("F2", lambda k: "F2", seqs[1::2])),
              threading.Thread(target=work, args=("S", lambda k: "S%d" % (k + 1), proms))]
        for j in range(NX):
            ws.append(threading.Thread(target=work, args=("X%d" % (j + 1), (lambda k, j=j: "F%d" % (3 + j)), xseqs[j::NX])))
        for w in ws:
            w.start()
        for w in ws:
            w.join()
        if errors:
            raise errors[0] if isinstance(errors[0], InfraError) else InfraError("forwarding engine failed: %r" % (errors[0],))
        # the replica-set history (leader steps down) runs when the followers are idle, then the sequences with a global
        # effect run alone: leader frozen, then (last) leader killed
        work_replset()
        if errors:
            raise errors[0] if isinstance(errors[0], InfraError) else InfraError("forwarding engine failed: %r" % (errors[0],))
        work("Z", lambda k: "F2" if k == 0 and frozen else "F1", frozen + [kill])
        if errors:
            raise errors[0] if isinstance(errors[0], InfraError) else InfraError("forwarding engine failed: %r" % (errors[0],))
        laps["run_s"] = round(time.time() - t_run, 1)
    finally:
        if cluster is not None:
            cluster.shutdown()
    # (3) monitor
    t_mon = time.time()
    tdir = os.path.join(wd, "traces")
    os.makedirs(tdir, exist_ok=True)
    files, allseq = [], {}
    for name, res in traces.items():
        p = os.path.join(tdir, f"trace_{name}.ndjson")
        with open(p, "w") as fh:
            for sc, evs in res:
                allseq[sc["name"]] = (sc, evs)
                for e in evs:
                    fh.write(json.dumps(e) + "\n")
        if res:
            files.append(p)
    viols, mst, judged = fstats(files, ["C10", "C03", "OBS"], os.path.join(wd, "mon"), timeout=900 if quick else 3600)
    laps["monitor_s"] = round(time.time() - t_mon, 1)
    nviol = 0
    observed = {}
    for v in viols:
        sc, evs = allseq.get(v.get("name"), (None, None))
        if v["prop"] == "C10":
            nviol += 1
            out.viols.append((v, {"sequence": seq_json(sc) if sc else None, "trace": evs}))
        else:
            observed.setdefault(v["code"], []).append({"name": v.get("name"), "detail": v.get("detail")})
    # (4) self-test
    stest = {"corruption": None, "rejected": None}
    for name in sorted(allseq):
        sc, evs = allseq[name]
        c = corrupt(evs)
        if c:
            p = os.path.join(wd, "selftest.ndjson")
            with open(p, "w") as fh:
                for e in c[0]:
                    fh.write(json.dumps(e) + "\n")
            v2, _, _ = fstats([p], ["C10"], os.path.join(wd, "selftest"))
            stest = {"corruption": f"{name}: " + c[1], "rejected": len(v2) > 0, "codes": sorted({v["code"] for v in v2})}
            break
    if stest["rejected"] is not True:
        raise InfraError("forwarding self-test failed: " + ("no relayed refusal found to corrupt" if stest["corruption"] is None else "corrupted trace accepted"))
    # the clauses about unsolicited frames and about the text key commands: corruptions of accepted expiry / value histories
    clean = {n for n in allseq if not any(v.get("name") == n for v in viols)}
    stest["unsolicited_frames"] = []
    # (the corrupted traces are validated side by side)
    jobs = []
    for fn in (corrupt_text_notice, corrupt_binary_notice, corrupt_write_answered_locally, corrupt_leader_value):
        done = False
        for name in sorted(clean):
            sc, evs = allseq[name]
            if sc.get("kind") != ("exp" if "notice" in fn.__name__ else "val"):
                continue
            c = fn(evs)
            if c:
                pth = os.path.join(wd, "selftest_%s.ndjson" % fn.__name__)
                with open(pth, "w") as fh:
                    for e in c[0]:
                        fh.write(json.dumps(e) + "\n")
                jobs.append((fn.__name__, name, c, pth))
                done = True
                break
        if not done:
            # (every candidate history is among the rejected ones: the verdict stands, the demonstration has nothing to start from)
            if nviol == 0:
                raise InfraError("forwarding self-test failed: no accepted history to corrupt with " + fn.__name__)
            stest["unsolicited_frames"].append({"corruption": None, "expected": None, "rejected": None, "skipped": "no accepted history left to corrupt (" + fn.__name__ + ")"})
    import concurrent.futures as cf
    with cf.ThreadPoolExecutor(max_workers=max(1, len(jobs))) as ex:
        outs = list(ex.map(lambda j: fstats([j[3]], ["C10"], os.path.join(wd, "selftest_" + j[0])), jobs))
    for (fname, name, c, pth), (v2, _, _) in zip(jobs, outs):
        codes = sorted({v["code"] for v in v2})
        stest["unsolicited_frames"].append({"corruption": f"{name}: " + c[1], "expected": c[2], "rejected": c[2] in codes, "codes": codes})
        if c[2] not in codes:
            raise InfraError(f"forwarding self-test failed: {c[1]} - the monitor said {codes}, not {c[2]}")
    th.join()
    if "error" in mcres:
        ex = mcres["error"]
        raise ex if isinstance(ex, InfraError) else InfraError("Forward.tla exhaustive check failed: %r" % (ex,))
    # coverage (counting only)
    st = {"requests": 0, "via_leader": 0, "via_follower": 0, "via_config_member": 0, "via_promoted_node": 0, "via_replset_member": 0, "replset_after_step_down": 0, "binary": 0, "text": 0, "relayed": 0,
          "local_refusals": 0, "local_fastpath_timeouts": 0, "local_error_after_break": 0, "first_short_text_handled_locally": 0,
          "unanswered": 0, "snapshots_compared": 0, "follower_snapshot_keys": 0, "value_reads_compared": 0, "upstream_cuts": 0, "leader_gone_windows": 0,
          "promotions": 0, "text_other_cmds": 0,
          # unsolicited frames (hold expiry on the leader)
          "expiry_histories": 0, "expiry_histories_from_model_behaviours": 0, "requests_with_short_expiry_seconds": 0, "requests_with_short_expiry_milliseconds": 0,
          "value_commands_with_expiry": 0, "expiry_notices_on_upstream_links": 0, "notices_for_text_connections": 0, "notices_for_binary_connections": 0,
          "notices_relayed_to_binary_clients": 0, "notices_to_binary_clients_of_the_leader": 0,
          "text_requests_relayed_after_a_notice_on_their_connection": 0, "binary_requests_relayed_after_a_notice_on_their_connection": 0,
          "notice_waits": 0, "notice_waits_satisfied": 0,
          # the text key commands
          "value_histories": 0, "key_commands_through_a_non_leader": {}, "write_commands_forwarded_as_non_first_command": 0,
          "read_commands_answered_by_a_non_leader": 0, "reads_on_the_leader_after_a_write_through_a_non_leader": 0, "push_through_a_non_leader": 0}
    for name, (sc, evs) in allseq.items():
        reqs = {e["id"]: e for e in evs if e["e"] == "req"}
        upr = {e["rid"] for e in evs if e["e"] == "up_reply"}
        st["value_histories"] += sc.get("kind") == "val"
        wrote_via = set()
        for e in evs:
            if e["e"] == "req" and e["cmd"] in ("V", "P", "S", "G", "D", "C") and e["role"] in ("follower", "config") and e["proto"] == "text":
                nm = e["name"] or {"S": "SET", "G": "GET", "D": "DEL", "P": "PUSH"}.get(e["cmd"], e["cmd"])
                c = st["key_commands_through_a_non_leader"].setdefault(nm, {"sent": 0, "forwarded": 0, "first_of_connection": 0})
                c["sent"] += 1; c["forwarded"] += bool(e["uprid"]); c["first_of_connection"] += bool(e["first"])
                if e["uprid"] and not e["first"] and not is_read(e):
                    st["write_commands_forwarded_as_non_first_command"] += 1
                    wrote_via.add(e["key"])
                st["read_commands_answered_by_a_non_leader"] += is_read(e) and e["cmd"] != "C"
                st["push_through_a_non_leader"] += e["cmd"] == "P"
            elif e["e"] == "req" and e["where"] == "L" and is_read(e) and e["key"] in wrote_via:
                st["reads_on_the_leader_after_a_write_through_a_non_leader"] += 1
        if sc.get("kind") == "exp":
            st["expiry_histories"] += 1
            st["expiry_histories_from_model_behaviours"] += sc.get("src") == "tlc"
        byup = {e["uprid"]: e for e in evs if e["e"] == "req" and e["uprid"]}
        noticed = set()             # (node, connection) that had an unsolicited frame for one of its answered requests
        answered = set()
        for i, n in _notices(evs):
            if n["res"] == 9:
                st["expiry_notices_on_upstream_links"] += 1
                q = byup.get(n["rid"])
                if q is not None:
                    st["notices_for_text_connections" if q["proto"] == "text" else "notices_for_binary_connections"] += 1
        for e in evs:
            t = e["e"]
            if t == "up_reply" and e["rid"] in byup:
                if e["rid"] in answered:
                    noticed.add((byup[e["rid"]]["node"], byup[e["rid"]]["conn"]))
                answered.add(e["rid"])
            if t == "note" and e.get("what") == "wait_notice":
                st["notice_waits"] += 1
                st["notice_waits_satisfied"] += e["seen"] >= e["want"]
            if t == "req" and e["ex"] and e["cmd"] in ("L", "S") and (e["exhi"] <= 3):
                st["requests_with_short_expiry_milliseconds" if e["ef"] & 0x0400 else "requests_with_short_expiry_seconds"] += 1
                st["value_commands_with_expiry"] += e["cmd"] == "S"
            if t == "reply" and e["rid"] in reqs and e["res"] == 9 and reqs[e["rid"]]["proto"] == "bin":
                q = reqs[e["rid"]]
                if q["where"] == "L":
                    st["notices_to_binary_clients_of_the_leader"] += 1
                elif q["role"] == "follower":
                    st["notices_relayed_to_binary_clients"] += 1
            if t == "reply" and e["rid"] in reqs and e["res"] != 9:
                q = reqs[e["rid"]]
                if q["role"] == "follower" and q["uprid"] in upr and (q["node"], q["conn"]) in noticed and q["uprid"] in answered:
                    st["text_requests_relayed_after_a_notice_on_their_connection" if q["proto"] == "text" else "binary_requests_relayed_after_a_notice_on_their_connection"] += 1
            if t == "req":
                st["requests"] += 1
                st["binary" if e["proto"] == "bin" else "text"] += 1
                if e["cmd"] not in ("L", "U"):
                    st["text_other_cmds"] += 1
                if e["where"] in ("A", "B", "C"):
                    st["via_replset_member"] += 1
                    st["replset_after_step_down"] += any(x["e"] == "role" for x in evs[: evs.index(e)])
                elif e["where"] == "L":
                    st["via_leader"] += 1
                elif e["where"] == "G":
                    st["via_config_member"] += 1
                elif e["role"] == "leader":
                    st["via_promoted_node"] += 1
                else:
                    st["via_follower"] += 1
            elif t == "reply" and e["rid"] in reqs:
                q = reqs[e["rid"]]
                if q["role"] in ("follower", "config") and not is_read(q):
                    if q["uprid"] in upr and e["res"] not in (11,):
                        st["relayed"] += 1
                    elif e["res"] == 8 and q["flag"] & 8:
                        st["local_fastpath_timeouts"] += 1
                    elif e["res"] == 11:
                        st["local_error_after_break"] += 1
                    else:
                        st["local_refusals"] += 1
                        if q["first"] and q["uprid"] == 0 and 0 < q["len"] <= 64:
                            st["first_short_text_handled_locally"] += 1
            elif t == "unanswered":
                st["unanswered"] += 1
            elif t == "snap" and not e["lead"]:
                st["snapshots_compared"] += 1
                st["follower_snapshot_keys"] += len(e["keys"])
            elif t == "vals" and not e["lead"]:
                st["value_reads_compared"] += len(e["vals"])
            elif t == "cut":
                st["upstream_cuts"] += 1
            elif t == "gone":
                st["leader_gone_windows"] += 1
            elif t == "role":
                st["promotions"] += 1
    if st["text_requests_relayed_after_a_notice_on_their_connection"] < 5 or st["notices_relayed_to_binary_clients"] < 3:
        raise InfraError("forwarding engine exercised too little of the expiry histories (%d text requests relayed after a notice, %d notices relayed to binary clients)"
                         % (st["text_requests_relayed_after_a_notice_on_their_connection"], st["notices_relayed_to_binary_clients"]))
    missing = [n for n in gen_fwd.WRITE_CMDS + gen_fwd.READ_CMDS + ["PUSH"] if st["key_commands_through_a_non_leader"].get(n, {}).get("sent", 0) -
               st["key_commands_through_a_non_leader"].get(n, {}).get("first_of_connection", 0) < 1]
    if missing:
        raise InfraError("forwarding engine: text commands never sent through a non-leader as a non-first command: %s" % missing)
    st["distinct_key_commands_through_a_non_leader"] = len(st["key_commands_through_a_non_leader"])
    if st["relayed"] < 50 or st["snapshots_compared"] < 10:
        raise InfraError(f"forwarding engine exercised too little ({st['relayed']} relayed replies, {st['snapshots_compared']} follower snapshots)")
    sample_sc = next(sc for sc, _ in traces["F1"] if sc.get("src") == "tlc")
    cov = {"model": {"module": "spec/Forward.tla", "exhaustive": mcres["runs"], "states": sum(r["states"] for r in mcres["runs"]),
                     "transitions": sum(r["transitions"] for r in mcres["runs"]),
                     "deviations_named": {"RollbackLatestOnly": "rollbackLatestCommand answers only the latest in-flight request of an upstream connection that broke",
                                          "FirstTextLocal": "first command of a text connection on a non-leader is run by the inner TextServerProtocol (refused locally, not forwarded)"},
                     "orphan_counterexample_as_coded": mcres.get("orphan_counterexample"),
                     "unsolicited_frames": "LeaderExpire: the deciding engine pushes an EXPRIED frame with the id of the request whose command the hold keeps down that request's route; "
                                           "exactly one leader frame is the answer of a request; without the reset of lockRequestId the notice is taken as the answer of the next "
                                           "text request - refuted by TLC (ReplyOfThatVeryRequest): %s" % mcres.get("noreset_counterexample"),
                     "key_command_classes": "WriteOps / ReadOps of the model (does the request change engine state on a leader?): a non-leader's text table answers read-class commands from "
                                            "its replica and refuses or forwards write-class ones; a write command registered with the local read handler (MisfiledOps) is refuted by TLC "
                                            "(AckedWriteReachedLeader): %s" % mcres.get("misfiled_counterexample"),
                     "fastpath_guard": "follower answers locally only for concurrent-check flag AND Timeout 0 AND key full in its replica; the OR variant is refuted: %s" % mcres.get("fastpath_or_counterexample")},
           "behaviours_generated": nraw, "expiry_behaviours_generated": xres["raw"], "behaviours_replayed": sum(1 for sc, _ in allseq.values() if sc.get("src") == "tlc"),
           "seeded_histories": sum(1 for sc, _ in allseq.values() if sc.get("src") == "seeded"),
           "seeded_value_histories": sum(1 for sc, _ in allseq.values() if sc.get("src") == "seeded-values"),
           "seeded_expiry_histories": sum(1 for sc, _ in allseq.values() if sc.get("src") == "seeded-expiry"),
           "directed_histories": sorted(n for n, (sc, _) in allseq.items() if sc.get("src") == "directed"),
           "traces_validated_against_impl": len(allseq), "engine": st, "monitor": dict(mst, **judged), "violations": nviol,
           "observed_outside_C10": {k: {"count": len(v), "first": v[0]} for k, v in observed.items()},
           "selftest": stest, "sample": {"name": sample_sc["name"], "hist": sample_sc.get("hist", [])[:12]},
           "timing": laps, "wall_s": round(time.time() - t_start, 1)}
    return cov

"""Check C11 (ack-required locks succeed only after log + quorum acknowledgement), in-process leader-local part.

  (1) TLC exhaustive design checks of spec/AckQuorum.tla:
        - the code as it is since fix 3033d68 (A10Fixed = TRUE: leader flush tracked apart from the follower count): every ack
          mode x 0..2 followers x one fault class per behaviour; AckSafety IN FULL, NodeQuorum, PendingAnswered,
          NoSuccessAfterFailure, ErrorCleansUp, ValueInv, NoLostWakeup, OneReply
        - the two-sided follower handshake (replay / flush in either order) in a small config
        - regression / documentation model of the code BEFORE the fix (A10Fixed = FALSE, shared counter): AckSafety outside the
          A10 configurations; and in majority mode with two followers TLC must REFUTE AckSafety: that counterexample is turned
          into a replay script and run on the real code as a regression history (the repaired code must pass it; if it
          reproduces, the monitor reports it as a plain violation - finding A10 is recorded as fixed and suppresses nothing)
        - the leader's flush as TWO writes (entries to append.aof.N, value frames to append.aof.N.dat; either can fail alone;
          the "own log written" acknowledgements after both): EntryInLog, ValueInLog, FailedWriteAnswered; the deviating
          ordering "acknowledge after the entry write" (AckAfterRecords = TRUE, seeded change C11d) must be REFUTED twice
          (SUCCED while the value frame is not in the value file; SUCCED after a failed value write): both counterexamples
          are replayed on the real code as regression behaviours
        - the rollback clause over the value-operation alphabet (SET / UNSET / MOD = INCR, APPEND, PUSH / TRIM = SHIFT, POP /
          PIPELINE of these / PIPELINE of sub-frames that change nothing) x the prior state of the key (no value at all / value
          object present but unset / a value): RollbackInv, RollbackToNoValue, ServedWithCommitted (AckQuorum_rollback.cfg); the
          deviation "the undo record of a PIPELINE on a key without a value is dropped" (UndoLostOnNone = TRUE, seeded change
          C11e) must be REFUTED; its counterexample is replayed on the real code (bare exclusive key and anchored key)
  (2) TLC -simulate behaviours of AckQuorumSim -> replayed on the real code (engine A, TestVerifAck)
  (3) seeded wide-range histories (lib/gen_ack.py) + the flush-fault matrix (gen_ack.flush_matrix: 0..2 followers x ack mode x
      failing write entry / value / both x value carrier SET / INCR / APPEND / key value / none x flush position x acks before /
      after the flush) + the rollback matrix (gen_ack.value_matrix: 19 value-operation kinds incl. 10 pipelines x prior state none /
      unset / value / value with properties x outcome success / entry write fails / value write fails / negative ack / timeout /
      link cut / demotion / unlock attempt, always with a dataless waiter queued behind) + directed histories
      (scenarios/ack_directed.json) + the regression histories of recorded findings (scenarios/ack_rollback_regressions.json)
  (4) every recorded trace validated by TLC against the property monitor spec/mon/MonAck.tla
  (5) binding self-tests: recorded traces are corrupted (one field / one line) and must be rejected
"""
import json, os, random, shutil, time
import vbuild, vtlc, engine, gen_ack, checklib
from vbuild import VERIF, InfraError

PROPS = ["C11"]
MANIFEST = {"C11": dict(level="model_checking", design="5/C11", engine="A",
    technique="TLC on the AckQuorum model (leader ack table + ack counter with separate leader-flush mark, channel FIFO, the log flush as two writes - entries, "
              "value frames - each of which can fail alone, follower handshake, faults) + TLC-generated and seeded fault "
              "schedules replayed on the real leader code (real AofChannel / Aof / ReplicationAckDB / LockDB; follower acks, leader flush, link cuts and "
              "demotion injected through the entry points the real peers use) + trace validation against the TLA+ monitor MonAck",
    text="The model is exhausted for ack modes all/majority x 0..2 followers x {negative ack, failing leader write, link cut, demotion} over every "
         "delivery order of the handshake; on the real code every SUCCED of an ack-required lock is judged against what is physically in the leader's "
         "append file AND value file at the moment of the reply (both files re-read inside the reply callback: the 64-byte entry, and the value frame "
         "at the offset its flush gave it when the record carries one) and against the set of followers whose positive ack was "
         "delivered; requests naming a pending LockId must get LOCK_ACK_WAITING; after an error reply the hold must be gone, the value restored and the "
         "queue served - for every kind of value operation a require-ack lock can carry and every prior state of the key, the queued request that is "
         "served in the failing step must be handed the value before the grant; nothing may stay pending after the drain.",
    note="In-process and leader-local: followers are played by the driver through Aof.loadLockAck (what ReplicationServer.RecvProcess calls), the "
         "leader's flush through AofFile.Flush under Aof.aofGlock with the idle-flush held back by keeping Aof.channelActiveCount at 1 ('another shard is "
         "busy'); a failing write of the entry file or of the value file alone = that file's handle swapped for /dev/full inside hook aof.flush.enter; "
         "hook aof.flush.mid lets the channel goroutine run between the two writes; the follower side (ProcessFollowerPushAckLock / AckLocked / AckAofed -> ReplicationClient.HandleAcked) is bound by the follower part of engine A: a real "
         "follower-role node is handed records through Aof.AppendLock / Aof.ReplayLock and the ack frame it writes to its client connection is captured; the TCP path is not bound here. Exclusive keys in the model; "
         "shared keys, INCR/APPEND values and parked DoAckLock only in the seeded histories. Trusted: TLC, the engine A harness, MonAck.")}
ENGINES = [{"name": "A", "path": "harness/inpkg/server/zz_verif_ack_test.go", "serves_properties": ["C11"],
            "kind_free_text": "in-package leader-local replay of TLC-generated ack/flush/fault schedules on the real AofChannel + ReplicationAckDB + LockDB (either log file of a "
                              "flush can be made to fail alone; the flush can be held between its two writes); on-disk observation of the leader log - entry file and value "
                              "file - at every reply; follower part (TestVerifAckFollower): a real follower-role node handed records through Aof.AppendLock / ReplayLock, its "
                              "ack frames captured on the replication client's connection; ndjson traces validated by TLC against MonAck"}]

SPEC = os.path.join(VERIF, "spec")
LIDN = {"l1": 1, "l2": 2, "l3": 3, "l4": 4}

def read(path):
    with open(path) as fh:
        return fh.read()

def run_model(name, cfgfile, wd, timeout, workers=None, overrides=None):
    cfg = read(os.path.join(SPEC, "mc", cfgfile))
    for a, b in (overrides or {}).items():
        if a not in cfg:
            raise InfraError(f"config {cfgfile}: cannot override {a!r}")
        cfg = cfg.replace(a, b)
    r = vtlc.run_tlc(SPEC, "AckQuorum", cfg, os.path.join(wd, "mc_" + name), workers=workers or engine.NCPU, timeout=timeout)
    return r

def must_pass(name, r):
    st = vtlc.parse_stats(r["out"])
    if r["rc"] == -9:
        raise InfraError(f"AckQuorum model check '{name}' timed out (infrastructure, not a verdict)")
    if st is None or "No error has been found" not in r["out"]:
        raise InfraError(f"AckQuorum model check '{name}' did not complete cleanly (design model, not a verdict on the code):\n" + r["out"][-3000:])
    return {"distinct_states": st["distinct"], "generated": st["generated"], "wall_s": round(r["wall"], 1)}

def behaviour_to_scenario(b, name, salt=0, anchor=None):
    """One exported behaviour (mode, up0, val0, hist) -> one engine-A scenario.  val0 = the prior state of the key (0 no value,
    1 unset value object, 2 a value): anything but 0 needs the key's manager to live, so the model's exclusive key becomes a
    Count-1 key with a dataless anchor hold (gen_ack.prelude) - one more holder fits, exactly as on the exclusive key.
    dv = operation code of the model (AckQuorum.After), made concrete on a value type chosen by salt."""
    fmap = {f: i + 1 for i, f in enumerate(sorted(b["up0"]))}
    steps = []
    val0 = b.get("val0", 0)
    typ = ["str", "num", "arr"][salt % 3]
    if anchor is None:
        anchor = val0 != 0 or salt % 2 == 1
    cnt = 1 if anchor else 0
    if anchor:
        nid = [900]
        def nxt():
            nid[0] += 1
            return nid[0]
        gen_ack.prelude(steps, nxt, 1, {0: "none", 1: "unset"}.get(val0, "value"), typ)
    for st in b["hist"]:
        op = st["op"]
        if op == "lock":
            lid = LIDN[st["lid"]]
            data = gen_ack.model_op_frame(st["dv"], typ, salt + st["id"]).hex()
            steps.append(gen_ack.lock(st["id"], 1, lid, bool(st["ack"]), st["to"], ex=40, cnt=cnt, data=data))
        elif op == "unlock":
            steps.append(gen_ack.unlock(st["id"], 1, LIDN[st["lid"]], cnt=cnt))
        elif op == "tick":
            if steps and steps[-1]["op"] == "tick":
                steps[-1]["n"] += 1
            else:
                steps.append({"op": "tick", "n": 1})
        elif op == "flushrec":
            # first write of AofFile.Flush (entries); a failing one ends the flush
            if st["ok"]:
                steps.append({"op": "flush", "ok": True, "rec": "ok", "val": "", "mid": True, "_open": True})
            else:
                steps.append({"op": "flush", "ok": False, "rec": "fail", "val": "", "mid": False})
        elif op == "flushval":
            # second write (values); id = number of channel items handled between the two writes
            f = steps[-1]
            if not f.pop("_open", False):
                raise InfraError("behaviour with a value write that does not follow an entry write")
            f["val"] = "ok" if st["ok"] else "fail"
            f["ok"] = bool(st["ok"])
            f["mid"] = True          # (the wait between the two writes is a no-op when the channel has nothing to handle)
            f["midsteps"] = st["id"]
        elif op == "fack":
            f = fmap.get(st["f"], 0)
            steps.append(gen_ack.fack(f, st["rid"], 1, LIDN[st["lid"]], ok=bool(st["ok"])))
        elif op == "cut":
            steps.append({"op": "cut", "f": fmap.get(st["f"], 0)})
        elif op == "demote":
            steps.append({"op": "demote"})
        else:
            raise InfraError("unknown behaviour step " + op)
    for f in steps:
        f.pop("_open", None)       # (a counterexample may end between the two writes: the engine completes the flush)
    steps.append({"op": "drain", "n": 12})
    return {"name": name, "followers": len(b["up0"]), "mode": 1 if b["mode"] == "maj" else 0, "steps": steps, "complete": True, "cfg": {}}

def behaviour_to_follower_scenario(b, name):
    """A behaviour of the two-sided follower handshake (FollowerSteps = 2) seen from ONE follower -> a scenario of the follower
    part of engine A: `lock` defines the record, `frepl` = the follower replays it, `faof` = the follower appends it to its own
    log and flushes (id 0: both writes work, 1: the entry write fails, 2: the value write fails)."""
    recs, steps = {}, []
    for st in b["hist"]:
        if st["op"] == "lock":
            recs[st["id"]] = gen_ack.frec("", st["id"], 1, LIDN[st["lid"]], gen_ack.data_set("m%d" % st["dv"]) if st["dv"] > 0 else "", ack=bool(st["ack"]))
        elif st["op"] == "frepl":
            if not st["ok"]:
                raise InfraError("follower behaviour with a refused replay cannot be forced on the real node")
            steps.append(dict(recs[st["rid"]], op="replay"))
        elif st["op"] == "faof":
            steps.append(dict(recs[st["rid"]], op="append"))
            steps.append({"op": "flush", "ok": st["id"] == 0, "rec": "fail" if st["id"] == 1 else "ok", "val": "fail" if st["id"] == 2 else "ok", "mid": True})
    steps.append({"op": "tick", "n": 1})
    return {"name": name, "cfg": {}, "steps": steps}

def parse_behaviours(out, tag):
    hs = set()
    for ln in out.splitlines():
        ln = ln.strip()
        if ln.startswith('"' + tag + ' '):
            try:
                hs.add(json.loads(ln)[len(tag) + 1:])
            except Exception:
                pass
    return hs

def maximal(hs):
    """drop behaviours whose step list is a strict prefix of another one of the same configuration"""
    items = sorted(((json.loads(h)) for h in hs), key=lambda b: (b["mode"], json.dumps(sorted(b["up0"])), json.dumps(b["hist"])[:-1]))
    keep = []
    for i, b in enumerate(items):
        core = json.dumps(b["hist"])[:-1]
        if i + 1 < len(items):
            nb = items[i + 1]
            if nb["mode"] == b["mode"] and sorted(nb["up0"]) == sorted(b["up0"]) and json.dumps(nb["hist"]).startswith(core + ","):
                continue
        keep.append(b)
    return keep

def run_leader_part(prop, binp, scs, wd, out):
    """Run the leader-part histories.  A panic of the code under test on one of its own goroutines (AofChannel, ack handlers,
    the timeout sweep) kills the driver process of that shard: it is a verdict only if the history in flight dies the same
    way when it runs alone (engine.crash_verdict; a crash site confirmed once is not re-confirmed for every further history
    that dies there); what the shard recorded up to there is still validated, and the histories BEHIND the dead one are run
    again in the next round, so a panicking cell of the matrix does not hide the cells after it."""
    traces, crashes, confirmed = [], [], {}
    todo, rnd = list(scs), 0
    while todo:
        rnd += 1
        if rnd > 12:
            raise InfraError(f"engine A: the driver still dies after {rnd - 1} rounds; crash sites: " + json.dumps(sorted(confirmed)))
        res = engine.run_harness(binp, "TestVerifAck", todo, os.path.join(wd, f"run{rnd}"), tag="a", timeout=1500)
        byname = {sc["name"]: sc for sc in todo}
        nxt = []
        for fin, fout, p in res:
            if p is not None:
                text = (p.stdout or "") + "\n" + (p.stderr or "")
                c = engine.parse_go_crash(text)
                names = [json.loads(l)["name"] for l in open(fin) if l.strip()]
                last = None
                if os.path.exists(fout):
                    for ln in open(fout, errors="replace"):
                        if '"e":"begin"' in ln[:24]:
                            try:
                                last = json.loads(ln).get("name")
                            except Exception:
                                pass
                site = c[1]["at"] if c and c[1] else None
                if site and "zz_verif" not in site and site in confirmed and last in byname:
                    v = {"prop": prop, "code": "code-under-test-panicked", "name": last,
                         "detail": {"panic": c[0][:200], "func": c[1]["func"], "at": site, "reproduced_alone": "same crash site as " + confirmed[site]}}
                    cv = (v, byname[last])
                else:
                    cv = engine.crash_verdict(prop, binp, "TestVerifAck", fin, fout, p, os.path.join(wd, "crash"))
                    if cv is None:
                        raise InfraError(f"engine A died on {fin}:\n" + (p.stdout or "")[-3000:] + (p.stderr or "")[-2000:])
                    confirmed.setdefault(cv[0]["detail"]["at"], cv[0]["name"])
                # which value operation the request in flight carried, on what (for narrow finding signatures)
                opd = [st for st in cv[1]["steps"] if st.get("op") == "lock" and st.get("tf", 0) & 0x1000 and st.get("data")]
                if opd:
                    cv[0]["detail"]["ack_value_ops"] = sorted({value_op_name(st["data"]) for st in opd})
                out.viols.append(cv)
                crashes.append(cv[0])
                engine.drop_unfinished(fout)
                i = names.index(cv[0]["name"]) if cv[0]["name"] in names else len(names)
                nxt += [byname[n] for n in names[i + 1:]]
            traces.append(fout)
        todo = nxt
    return traces, crashes, rnd

OPN = {0: "SET", 1: "UNSET", 2: "INCR", 3: "APPEND", 4: "SHIFT", 5: "EXECUTE", 6: "PIPELINE", 7: "PUSH", 8: "POP"}
def value_op_name(hexframe):
    b = bytes.fromhex(hexframe)
    if len(b) < 6:
        return ""
    t = b[4] & 0x3f
    if t != 6:
        return OPN.get(t, str(t))
    subs, i, pl = [], 0, b[6:] if not b[5] & 0x10 else b[8 + b[6] + (b[7] << 8):]
    while i + 4 <= len(pl):
        n = int.from_bytes(pl[i:i + 4], "little")
        if n < 2 or i + 4 + n > len(pl):
            break
        subs.append(OPN.get(pl[i + 4] & 0x3f, "?"))
        i += 4 + n
    return "PIPELINE[" + ",".join(subs) + "]"

# ------------------------------------------------------------------ self-tests (binding demonstration)

def corruptions(lines):
    """yield (name, corrupted lines, description, expected code): ONE recorded field changed or ONE recorded line dropped"""
    evs = [json.loads(x) for x in lines]
    def dump(e2):
        return [json.dumps(e) for e in e2]
    # (a) the on-disk observation of a SUCCED ack reply is flipped
    for i, e in enumerate(evs):
        if e["e"] == "reply" and e.get("ackreq") and e["res"] == 0 and e.get("ondisk") is True:
            c = [dict(x) for x in evs]
            c[i]["ondisk"] = False
            yield "ondisk", dump(c), f"line {i+1}: 'record on the leader's disk' of a SUCCED ack reply rewritten to false", "succed-before-leader-log"
            break
    # (a2) the value frame of a value-carrying SUCCED ack reply is reported missing from the value file
    for i, e in enumerate(evs):
        if e["e"] == "reply" and e.get("ackreq") and e["res"] == 0 and e.get("ondisk") is True and e.get("hasval") is True and e.get("valknown") and e.get("valondisk") is True:
            c = [dict(x) for x in evs]
            c[i]["valondisk"] = False
            yield "valondisk", dump(c), f"line {i+1}: 'value frame of the record in the leader's value file' of a SUCCED ack reply rewritten to false", "succed-before-value-in-leader-log"
            break
    # (a3) the value write of the flush that carried the record of a later SUCCED is rewritten to "failed"
    succ = {e["rid"] for e in evs if e["e"] == "reply" and e.get("ackreq") and e["res"] == 0}
    for i, e in enumerate(evs):
        if e["e"] == "flush" and e.get("ok") and any(r["hv"] and r["rid"] in succ for r in e.get("recs", [])):
            c = [dict(x) for x in evs]
            c[i]["val"], c[i]["ok"] = False, False
            yield "flushval", dump(c), f"line {i+1}: the value write of a flush whose record was later answered SUCCED rewritten to failed", "succed-after-failure"
            break
    # (f1) follower part: the value frame of a positively acknowledged record is reported missing from the follower's value file
    for i, e in enumerate(evs):
        if e["e"] == "fsent" and e.get("res") == 0 and e.get("entry") and e.get("hasval") and e.get("valknown") and e.get("valondisk"):
            c = [dict(x) for x in evs]
            c[i]["valondisk"] = False
            yield "fvalondisk", dump(c), f"line {i+1}: 'value frame in the follower's own value file' of a positive follower ack rewritten to false", "follower-acked-positive-before-own-log"
            break
    # (f2) follower part: the value write of the flush that carried a positively acknowledged record is rewritten to "failed"
    fpos = {e["id"] for e in evs if e["e"] == "fsent" and e.get("res") == 0}
    if evs[0].get("mode") == "ackf":
        for i, e in enumerate(evs):
            if e["e"] == "flush" and e.get("ok") and any(r["hv"] and r["rid"] in fpos for r in e.get("recs", [])) and \
               not any(x["e"] == "fsent" and x.get("id") in {r["rid"] for r in e["recs"]} for x in evs[:i]):
                c = [dict(x) for x in evs]
                c[i]["val"], c[i]["ok"] = False, False
                yield "fflushval", dump(c), f"line {i+1}: the value write of a follower's flush whose record it acknowledged positively rewritten to failed", "follower-acked-positive-after-failed-log-write"
                break
    # (b) one positive follower ack that was needed for the quorum is removed from the record
    pend_acks = {}
    nocut = not any(e["e"] in ("cut", "demote") and not e.get("skipped") for e in evs) and evs[0].get("followers", 0) >= 1
    for i, e in enumerate(evs if nocut else []):
        if e["e"] == "fack" and not e.get("skipped") and e["res"] == 0:
            pend_acks.setdefault(e["rid"], []).append(i)
        if e["e"] == "reply" and e.get("ackreq") and e["res"] == 0 and len(pend_acks.get(e["rid"], [])) == 1:
            j = pend_acks[e["rid"]][0]
            c = [dict(x) for x in evs]
            c[j]["skipped"] = True
            yield "quorum", dump(c), f"line {j+1}: the only positive follower ack before a SUCCED marked as never delivered", "succed-before-follower-quorum"
            break
    # (c) a LOCK_ACK_WAITING answer is rewritten to SUCCED
    for i, e in enumerate(evs):
        if e["e"] == "reply" and e["res"] == 12:
            c = [dict(x) for x in evs]
            c[i]["res"] = 0
            yield "ackwaiting", dump(c), f"line {i+1}: LOCK_ACK_WAITING reply rewritten to SUCCED", "pending-lockid-not-answered-ack-waiting"
            break
    # (d) the value in the snapshot after an error reply to a pending value-carrying request is replaced
    withdata = {e["id"] for e in evs if e["e"] == "req" and e["cmd"] == "L" and e.get("data")}
    nreq_data = len(withdata)
    seen_pending_all = {h["rid"] for e in evs if e["e"] == "snap" for k in e["keys"] for h in k["holders"] if h.get("ack") != 255}
    seen_pending = set()      # requests the snapshots showed as ack-pending holders before their reply
    for i, e in enumerate(evs):
        if e["e"] == "snap":
            for k in e["keys"]:
                for h in k["holders"]:
                    if h.get("ack") != 255:
                        seen_pending.add(h["rid"])
        if e["e"] == "reply" and e.get("ackreq") and e["res"] in (8, 11) and e["rid"] in withdata and nreq_data == 1 and e["rid"] in seen_pending:
            for j in range(i + 1, len(evs)):
                if evs[j]["e"] == "snap":
                    ks = [k for k in evs[j]["keys"] if k["key"] == e["key"] and k["db"] == e["db"]]
                    if ks and not any(h.get("ack") != 255 for h in ks[0]["holders"]):
                        c = json.loads(json.dumps(evs))
                        for k in c[j]["keys"]:
                            if k["key"] == e["key"] and k["db"] == e["db"]:
                                k["data"] = "0400000000006666"
                        yield "value", dump(c), f"line {j+1}: value of the key in the snapshot after a failed ack replaced", "value-not-restored-after-failed-ack"
                    break
            else:
                continue
            break
    # (e) the value handed to the queued request that is served when a pending value-carrying request fails is replaced
    # (only in histories with ONE value-carrying ack request and nothing else value-carrying answered in the failing step: there
    #  the monitor is not agnostic about "the value before the grant")
    reqs = {e["id"]: e for e in evs if e["e"] == "req"}
    ackdata = [r for r in reqs.values() if r["cmd"] == "L" and r["tf"] & 0x1000 and r.get("data")]
    failed_at = None
    for i, e in enumerate(evs if len(ackdata) == 1 else []):
        if e["e"] == "snap":
            failed_at = None
        if e["e"] == "reply" and failed_at is not None and e["rid"] in withdata:
            failed_at = None
        if e["e"] == "reply" and e.get("ackreq") and e["res"] in (8, 11) and e["rid"] in withdata and e["rid"] in seen_pending_all:
            failed_at = i
        elif e["e"] == "reply" and failed_at is not None and e["res"] == 0 and e["rid"] in reqs and reqs[e["rid"]]["cmd"] == "L" \
                and not reqs[e["rid"]].get("data") and reqs[e["rid"]]["flag"] == 0 and not reqs[e["rid"]]["tf"] & 0x1000 and reqs[e["rid"]]["key"] == reqs[evs[failed_at]["rid"]]["key"]:
            c = [dict(x) for x in evs]
            c[i]["data"] = "0400000000006666"
            c[i].pop("data_empty", None)
            yield "servedvalue", dump(c), f"line {i+1}: the value handed to the queued request served after a failed ack replaced", "queued-request-served-with-unrestored-value"
            break

def selftests(traces, wd):
    """Run each kind of corruption once (on the first history that offers it); every one must be rejected with its code.
    Candidates are collected first (up to 3 per kind), the kinds are then evaluated side by side."""
    import concurrent.futures as cf
    wanted = {"ondisk", "quorum", "ackwaiting", "value", "servedvalue", "valondisk", "flushval", "fvalondisk", "fflushval"}
    cands = {}
    for tr in traces:
        lines = read(tr).splitlines()
        starts = [i for i, x in enumerate(lines) if '"e":"begin"' in x[:40]] + [len(lines)]
        for a, b in zip(starts, starts[1:]):
            base = lines[a:b]
            for kind, cl, desc, code in corruptions(base):
                if len(cands.setdefault(kind, [])) < 3:
                    cands[kind].append((base, cl, desc, code))
            if all(len(cands.get(k, [])) >= 3 for k in wanted):
                break
        if all(len(cands.get(k, [])) >= 3 for k in wanted):
            break
    def one(kind):
        for n, (base, cl, desc, code) in enumerate(cands[kind]):
            # the uncorrupted history must be free of that code, otherwise the demonstration is void
            p0 = os.path.join(wd, f"selftest_{kind}_{n}_orig.ndjson")
            with open(p0, "w") as fh:
                fh.write("\n".join(base) + "\n")
            v0, _ = engine.monitor_traces("MonAck", [p0], ["C11"], os.path.join(wd, f"st_{kind}_{n}_0"))
            if any(v["code"] == code for v in v0):
                continue
            p = os.path.join(wd, f"selftest_{kind}_{n}.ndjson")
            with open(p, "w") as fh:
                fh.write("\n".join(cl) + "\n")
            v1, _ = engine.monitor_traces("MonAck", [p], ["C11"], os.path.join(wd, f"st_{kind}_{n}_1"))
            codes = sorted({v["code"] for v in v1})
            return {"kind": kind, "corruption": desc, "rejected": code in codes, "codes": codes}
        return None
    kinds = sorted(cands)
    with cf.ThreadPoolExecutor(max_workers=max(1, min(len(kinds), engine.NCPU // 2))) as ex:
        return [r for r in ex.map(one, kinds) if r is not None]

# ------------------------------------------------------------------ the check

def run(prop, tier, seed):
    out = checklib.Outcome()
    wd = vbuild.scratch(f"vf_{prop}_")
    try:
        quick = tier == "quick"
        models = {}
        # (1) design checks and (2) behaviour generation: independent TLC processes, run side by side
        import concurrent.futures as cf
        t_start = time.time()
        nb = 150 if quick else 2000
        jobs = {
            "code": lambda: run_model("code", "AckQuorum_quick.cfg" if quick else "AckQuorum_thorough.cfg", wd, 1200 if quick else 3000, workers=max(2, engine.NCPU // 2) if quick else engine.NCPU),
            "follower": lambda: run_model("follower", "AckQuorum_follower.cfg", wd, 900, workers=max(1, engine.NCPU // 8)),
            "prefix": lambda: run_model("prefix", "AckQuorum_prefix.cfg", wd, 1200, workers=max(1, engine.NCPU // 4),
                      overrides={"NFs = {0, 1, 2}": "NFs = {2}", 'Classes = {"neg", "fail", "cut", "dem"}': 'Classes = {"neg", "fail", "cut"}'} if quick else None),
            "a10": lambda: run_model("a10", "AckQuorum_a10.cfg", wd, 900, workers=1),
            "c11d_early": lambda: run_model("c11d_early", "AckQuorum_c11d_early.cfg", wd, 900, workers=1),
            "c11d_fail": lambda: run_model("c11d_fail", "AckQuorum_c11d_fail.cfg", wd, 900, workers=1),
            "c11d_follower": lambda: run_model("c11d_follower", "AckQuorum_c11d_follower.cfg", wd, 900, workers=1),
            "heal": lambda: run_model("heal", "AckQuorum_quick.cfg" if quick else "AckQuorum_thorough.cfg", wd, 1200 if quick else 3000, workers=max(2, engine.NCPU // 4),
                      overrides={"Heal = FALSE": "Heal = TRUE", "MaxFail = 1": "MaxFail = 2", 'Classes = {"neg", "fail", "cut", "dem"}': 'Classes = {"fail"}'}),
            "rollback": lambda: run_model("rollback", "AckQuorum_rollback.cfg", wd, 1500 if quick else 3000, workers=max(2, engine.NCPU // 4),
                      overrides={'Classes = {"neg", "fail", "cut", "dem"}': 'Classes = {"neg", "fail"}'} if quick else None),
            "c11e": lambda: run_model("c11e", "AckQuorum_c11e.cfg", wd, 900, workers=1),
            "sim": lambda: vtlc.run_tlc(SPEC, "AckQuorumSim", read(os.path.join(SPEC, "sim", "AckQuorum_sim.cfg")), os.path.join(wd, "sim"), workers=1,
                          timeout=900 if quick else 2400, simulate=f"num={nb}", depth=110, seed=seed),
            "build": lambda: vbuild.build_inpkg("server", wd),
        }
        with cf.ThreadPoolExecutor(max_workers=len(jobs)) as ex:
            futs = {k: ex.submit(f) for k, f in jobs.items()}
            R = {k: f.result() for k, f in futs.items()}
        # private name for the test binary: other jobs on a shared machine clean up with `pkill -x server.test`
        binp = os.path.join(wd, "c11_engine_a.test")
        shutil.copy(R["build"], binp)
        models["code_as_is_A10Fixed"] = must_pass("code as it is", R["code"])
        models["follower_handshake"] = must_pass("follower handshake", R["follower"])
        models["before_fix_3033d68_regression_model"] = must_pass("pre-fix regression model", R["prefix"])
        models["two_write_flush_files_healing"] = must_pass("two-write flush, files fail and heal", R["heal"])
        models["rollback_all_value_operations_x_prior_states"] = must_pass("rollback over the value alphabet", R["rollback"])
        # the deviation of the seeded change C11e: refuted, as a replay script (run twice: on the bare exclusive key of the model
        # and on the anchored key, where the key's manager survives whoever holds it)
        r = R["c11e"]
        cxs = [json.loads(h) for h in parse_behaviours(r["out"], "CX")]
        if "ServedCx is violated" not in r["out"] or not cxs:
            raise InfraError("the model of the dropped undo record (UndoLostOnNone = TRUE) no longer refutes ServedWithCommitted (model / config problem):\n" + r["out"][-2000:])
        b0 = sorted(cxs, key=lambda b: len(b["hist"]))[0]
        c11e_scs = [behaviour_to_scenario(b0, "tlc-cx-c11e-bare", salt=0, anchor=False), behaviour_to_scenario(b0, "tlc-cx-c11e-anchor", salt=0, anchor=True)]
        models["c11e_counterexample"] = {"model": "UndoLostOnNone = TRUE (undo record of a PIPELINE on a key without a value dropped)", "refuted": "ServedWithCommitted",
                                         "meaning": "a pending request fails, the value it wrote stays and the queued request is served with it",
                                         "steps": [{k: v for k, v in st.items() if k in ("op", "lid", "tf", "data", "f", "res", "cnt")} for st in c11e_scs[0]["steps"]],
                                         "role": "regression behaviour: the code must pass it; a reproduction is reported by the monitor as a violation"}
        # the A10 counterexample
        r = R["a10"]
        cx = [json.loads(h) for h in parse_behaviours(r["out"], "CX")]
        if "AckSafetyCx is violated" not in r["out"] or not cx:
            raise InfraError("the regression model of the code before fix 3033d68 no longer refutes AckSafety in majority mode with two "
                             "followers (model / config problem, nothing to do with the real code):\n" + r["out"][-2000:])
        cx_scs = [behaviour_to_scenario(b, f"tlc-cx-A10-{i}") for i, b in enumerate(sorted(cx, key=lambda b: len(b["hist"]))[:2])]
        models["a10_counterexample"] = {"model": "A10Fixed = FALSE (before fix 3033d68)", "refuted": "AckSafety", "steps": [s["op"] for s in cx_scs[0]["steps"]],
                                        "role": "regression history: the repaired code must pass it; a reproduction is reported by the monitor as a violation"}
        # the deviating ordering of the seeded change C11d: both refutations, as replay scripts
        c11d_scs = []
        for key, inv, what in (("c11d_early", "ValueInLogCx", "SUCCED while the value frame of the record is not in the value file"),
                               ("c11d_fail", "FailedWriteCx", "SUCCED after the value write of the record's flush failed")):
            r = R[key]
            cxs = [json.loads(h) for h in parse_behaviours(r["out"], "CX")]
            if inv + " is violated" not in r["out"] or not cxs:
                raise InfraError(f"the model of the deviating flush ordering (AckAfterRecords = TRUE) no longer refutes {inv} (model / config problem, "
                                 "nothing to do with the real code):\n" + r["out"][-2000:])
            sc = behaviour_to_scenario(sorted(cxs, key=lambda b: len(b["hist"]))[0], f"tlc-cx-{key}")
            c11d_scs.append(sc)
            models[key + "_counterexample"] = {"model": "AckAfterRecords = TRUE (ack after the entry write, before the value write)", "refuted": inv, "meaning": what,
                                               "steps": [{k: v for k, v in st.items() if k in ("op", "rec", "val", "mid", "f")} for st in sc["steps"]],
                                               "role": "regression behaviour: the code must pass it; a reproduction is reported by the monitor as a violation"}
        r = R["c11d_follower"]
        cxs = [json.loads(h) for h in parse_behaviours(r["out"], "CX")]
        if "FollowerAckCx is violated" not in r["out"] or not cxs:
            raise InfraError("the model of the deviating flush ordering no longer refutes FollowerAckHonest (model / config problem):\n" + r["out"][-2000:])
        fcx = behaviour_to_follower_scenario(sorted(cxs, key=lambda b: len(b["hist"]))[0], "tlc-cx-c11d_follower")
        models["c11d_follower_counterexample"] = {"model": "AckAfterRecords = TRUE on a follower (FollowerSteps = 2)", "refuted": "FollowerAckHonest",
                                                  "meaning": "a follower whose value write failed sends a positive acknowledgement",
                                                  "steps": [{k: v for k, v in st.items() if k in ("op", "id", "rec", "val")} for st in fcx["steps"]],
                                                  "role": "regression behaviour replayed on a real follower-role node"}
        st_states = sum(m.get("distinct_states", 0) for m in models.values())
        st_gen = sum(m.get("generated", 0) for m in models.values())
        rs = R["sim"]
        if rs["rc"] == -9:
            raise InfraError("behaviour generation timed out")
        hs = parse_behaviours(rs["out"], "BEHAVIOUR")
        if "Error:" in rs["out"] and "violated" in rs["out"]:
            raise InfraError("behaviour generation hit an invariant of the design model (model problem, not a verdict):\n" + rs["out"][-2500:])
        t_models = time.time() - t_start
        behs = maximal(hs)
        rng = random.Random(seed)
        rng.shuffle(behs)
        behs = behs[:nb]
        if len(behs) < 20:
            raise InfraError("behaviour generation produced too few behaviours:\n" + rs["out"][-1500:])
        beh = [behaviour_to_scenario(b, f"tlc-{seed}-{i}", salt=seed * 31 + i) for i, b in enumerate(behs)]
        # (3) seeded + directed
        rnd = [gen_ack.gen_ack(seed, i) for i in range(220 if quick else 4000)]
        with open(os.path.join(VERIF, "scenarios", "ack_directed.json")) as fh:
            direct = json.load(fh)
        # recorded findings of the rollback clause (A39, fixed by 16fab60): their histories stay as regressions (must be accepted)
        with open(os.path.join(VERIF, "scenarios", "ack_rollback_regressions.json")) as fh:
            direct += [dict(sc, name="regr-A39-" + sc["name"]) for sc in json.load(fh)]
        matrix = gen_ack.flush_matrix(seed, sample=150 if quick else None)
        vmatrix = gen_ack.value_matrix(seed, per_cell=4 if quick else None)
        scs = cx_scs + c11d_scs + c11e_scs + beh + rnd + matrix + vmatrix + direct
        t1 = time.time()
        traces, crashes, rounds = run_leader_part(prop, binp, scs, os.path.join(wd, "run"), out)
        # follower part of engine A: records handed to a real follower-role node, its own log flushed with failing writes
        fscs = [fcx] + gen_ack.follower_matrix(seed, sample=90 if quick else None)
        fres = engine.run_harness(binp, "TestVerifAckFollower", fscs, os.path.join(wd, "runf"), tag="f", timeout=900)
        for fin, fout, p in fres:
            if p is not None:
                raise InfraError(f"engine A (follower part) died on {fin}:\n" + (p.stdout or "")[-3000:] + (p.stderr or "")[-2000:])
        t_harness = time.time() - t1
        traces += [fout for _, fout, _ in fres]
        # (4) monitor
        t1 = time.time()
        viols, mst = engine.monitor_traces("MonAck", traces, [prop], os.path.join(wd, "mon"))
        t_monitor = time.time() - t1
        byname = {sc["name"]: sc for sc in scs + fscs}
        for v in viols:
            if v["prop"] == prop:
                out.viols.append((v, byname.get(v.get("name"))))
        cx_names = {s["name"] for s in cx_scs}
        cx_reproduced = any(v.get("name") in cx_names and v["code"] == "succed-before-leader-log" for v in viols)
        models["a10_counterexample"]["reproduced_on_real_code"] = cx_reproduced
        models["c11e_counterexample"]["reproduced_on_real_code"] = sorted({v.get("name") for v in viols if v.get("name") in {s["name"] for s in c11e_scs}})
        models["c11d_follower_counterexample"]["reproduced_on_real_code"] = any(v.get("name") == fcx["name"] for v in viols)
        for sc in c11d_scs:
            models[sc["name"][len("tlc-cx-"):] + "_counterexample"]["reproduced_on_real_code"] = any(v.get("name") == sc["name"] for v in viols)
        # (5) self-tests
        t1 = time.time()
        stests = selftests(traces, wd)
        t_selftest = time.time() - t1
        bad = [s for s in stests if not s["rejected"]]
        if bad:
            raise InfraError("self-test failed: the monitor accepted a corrupted trace: " + json.dumps(bad))
        if not {"valondisk", "flushval", "fvalondisk", "fflushval", "servedvalue", "value"} <= {t["kind"] for t in stests}:
            raise InfraError("self-test of the two-write clauses could not be performed (no accepted history with a value-carrying SUCCED): " + json.dumps(stests))
        if len(stests) < 3:
            raise InfraError("self-test could not be performed (too few corruptible histories): " + json.dumps(stests))
        # measured coverage of the real-code runs
        cov = {"ack_requests": 0, "ack_succed": 0, "ack_error_replies": 0, "ack_timeouts": 0, "ack_waiting_replies": 0, "follower_acks_pos": 0,
               "follower_acks_neg": 0, "flushes_ok": 0, "flushes_failed": 0, "cuts": 0, "demotions": 0, "parked_doack": 0, "queue_grants_pending": 0,
               "flushes_entry_write_failed": 0, "flushes_value_write_failed": 0, "flushes_with_value_frames": 0, "flushes_held_between_the_two_writes": 0,
               "ack_records_in_failed_entry_write": 0, "ack_records_with_value_in_failed_value_write": 0, "ack_records_without_value_in_failed_value_write": 0,
               "ack_succed_with_value_frame_checked": 0, "ack_succed_without_value": 0, "ack_error_with_value_frame": 0, "value_frames_unattributed": 0,
               "flushes_ok_after_a_failed_one": 0, "failing_write_by_config": {},
               "rollback_matrix": {"cells_operation_x_prior_with_a_failed_ack": 0, "cells_operation_x_prior_x_outcome": 0, "failed_value_carrying_ack_requests": 0,
                                   "of_them_on_a_key_without_value": 0, "of_them_on_an_unset_value_object": 0, "of_them_on_a_value_with_properties": 0,
                                   "queued_dataless_requests_served_in_the_failing_step": 0, "by_operation": {}, "by_prior": {}, "by_outcome": {}},
               "follower_part": {"histories": 0, "records": 0, "records_with_value": 0, "ack_frames_positive": 0, "ack_frames_negative": 0,
                                 "ack_frames_negative_with_log_intact": 0, "flushes_entry_write_failed": 0, "flushes_value_write_failed": 0, "flushes_ok": 0},
               "configs": {}}
        nontrivial_names = set()
        cells = set()
        for tr in traces:
            cfgk, waiting, curname, hadfail, fside = None, set(), None, False, False
            ackops, lastcls, failstep = {}, {}, None
            with open(tr) as fh:
                for ln in fh:
                    e = json.loads(ln)
                    k = e["e"]
                    if k == "begin" and e.get("mode") == "ackf":
                        fside = True
                        cov["follower_part"]["histories"] += 1
                        continue
                    if k == "begin":
                        fside = False
                    if fside:
                        fp = cov["follower_part"]
                        if k == "frec":
                            fp["records"] += 1
                            fp["records_with_value"] += 1 if e["hasval"] else 0
                        elif k == "fsent" and "res" in e:
                            fp["ack_frames_positive" if e["res"] == 0 else "ack_frames_negative"] += 1
                            if e["res"] != 0 and e.get("entry") and e.get("valondisk", True):
                                fp["ack_frames_negative_with_log_intact"] += 1
                        elif k == "flush" and e.get("nrec", 0) > 0:
                            fp["flushes_ok" if e["ok"] else ("flushes_entry_write_failed" if not e["rec"] else "flushes_value_write_failed")] += 1
                        continue
                    if k == "begin":
                        cfgk = f"nf{e['followers']}-mode{e['ackmode']}"
                        cov["configs"][cfgk] = cov["configs"].get(cfgk, 0) + 1
                        waiting = set()
                        hadfail = False
                        curname = e["name"]
                    elif k == "req" and e["cmd"] == "L" and e["tf"] & 0x1000:
                        cov["ack_requests"] += 1
                        if e.get("data"):
                            opname = e.get("dop", "") + ("[" + ",".join(e.get("dsubs", [])) + "]" if e.get("dop") == "PIPELINE" else "")
                            ackops[e["id"]] = (opname, lastcls.get((e["db"], e["key"]), "none"), e["key"])
                    elif k == "snap":
                        lastcls = {(x[0], x[1]): x[2] for x in e.get("vcls", [])}
                        failstep = None
                        for kk in e["keys"]:
                            for wq in kk["waiters"]:
                                waiting.add(wq["rid"])
                    elif k == "pend":
                        nontrivial_names.add(curname)
                        if e["rid"] in waiting:
                            cov["queue_grants_pending"] += 1
                    elif k == "reply":
                        if e["res"] == 12:
                            cov["ack_waiting_replies"] += 1
                        if failstep is not None and e["res"] == 0 and not e.get("ackreq") and e.get("key") == failstep:
                            cov["rollback_matrix"]["queued_dataless_requests_served_in_the_failing_step"] += 1
                        if e.get("ackreq") and e["rid"] in ackops:
                            opname, prior, okey = ackops.pop(e["rid"])
                            outc = {0: "succed", 8: "timeout", 11: "error"}.get(e["res"], "other-%d" % e["res"])
                            cells.add((opname, prior, outc))
                            rm = cov["rollback_matrix"]
                            rm["by_outcome"][outc] = rm["by_outcome"].get(outc, 0) + 1
                            if e["res"] in (8, 11):
                                failstep = okey
                                rm["failed_value_carrying_ack_requests"] += 1
                                rm["by_operation"][opname] = rm["by_operation"].get(opname, 0) + 1
                                rm["by_prior"][prior] = rm["by_prior"].get(prior, 0) + 1
                                if prior in ("none", "unset", "props"):
                                    rm[{"none": "of_them_on_a_key_without_value", "unset": "of_them_on_an_unset_value_object", "props": "of_them_on_a_value_with_properties"}[prior]] += 1
                        if e.get("ackreq"):
                            if e.get("hasval") and not e.get("valknown"):
                                cov["value_frames_unattributed"] += 1
                            if e["res"] == 0:
                                cov["ack_succed_with_value_frame_checked" if e.get("hasval") and e.get("valknown") else "ack_succed_without_value"] += 1
                            elif e["res"] == 11 and e.get("hasval"):
                                cov["ack_error_with_value_frame"] += 1
                            if e["res"] == 0:
                                cov["ack_succed"] += 1
                            elif e["res"] == 8:
                                cov["ack_timeouts"] += 1
                            elif e["res"] == 11:
                                cov["ack_error_replies"] += 1
                    elif k == "fack" and not e.get("skipped"):
                        cov["follower_acks_pos" if e["res"] == 0 else "follower_acks_neg"] += 1
                    elif k == "flush":
                        if e.get("nrec", 1) == 0:
                            continue          # (an idle flush with empty buffers)
                        cov["flushes_ok" if e["ok"] else "flushes_failed"] += 1
                        recs = e.get("recs", [])
                        if e.get("ndat", 0) > 0:
                            cov["flushes_with_value_frames"] += 1
                        if e.get("mid"):
                            cov["flushes_held_between_the_two_writes"] += 1
                        if e["ok"] and hadfail:
                            cov["flushes_ok_after_a_failed_one"] += 1
                        if not e["ok"]:
                            hadfail = True
                            kind = "entry" if not e.get("rec", False) else "value"
                            cov["flushes_entry_write_failed" if kind == "entry" else "flushes_value_write_failed"] += 1
                            d = cov["failing_write_by_config"].setdefault(cfgk, {"entry": 0, "value": 0})
                            d[kind] += 1
                            for r in recs:
                                if kind == "entry":
                                    cov["ack_records_in_failed_entry_write"] += 1
                                else:
                                    cov["ack_records_with_value_in_failed_value_write" if r["hv"] else "ack_records_without_value_in_failed_value_write"] += 1
                    elif k == "cut" and not e.get("skipped"):
                        cov["cuts"] += 1
                    elif k == "demote" and not e.get("skipped"):
                        cov["demotions"] += 1
                    elif k == "parked":
                        cov["parked_doack"] += 1
        cov["rollback_matrix"]["cells_operation_x_prior_x_outcome"] = len(cells)
        cov["rollback_matrix"]["cells_operation_x_prior_with_a_failed_ack"] = len({(o, p) for o, p, r in cells if r in ("timeout", "error")})
        cov["code_under_test_panics"] = {"histories": len(crashes), "sites": sorted({c["detail"]["at"] for c in crashes}), "harness_rounds": rounds}
        out.coverage = {
            "states": st_states, "transitions": st_gen, "traces_validated_against_impl": len(scs) + len(fscs),
            "samples": [{"name": s["name"], "followers": s["followers"], "mode": s["mode"], "steps": s["steps"][:12]} for s in (cx_scs[:1] + c11d_scs + c11e_scs[:1] + beh[:1] + rnd[:1] + matrix[:1] + vmatrix[:1])],
            "exhaustive": True, "exhaustive_scope": "the bounded TLA+ design models are enumerated completely; the schedules run on the real code are a sample (TLC random walks, seeded, directed)",
            "models": models,
            "model": {"module": "spec/AckQuorum.tla", "constants": "modes all/majority x 0..2 followers x one fault class {negative ack, failing flush, link cut, demotion} per "
                      "behaviour, 2 LockIds, SET values, ack wait 1 s, %d requests, clock <= %d; symmetry over followers and LockIds; channel-priority reduction" % ((2, 2) if quick else (3, 2)),
                      "invariants": ["AckSafety", "EntryInLog", "ValueInLog", "FailedWriteAnswered", "RollbackInv", "RollbackToNoValue", "ServedWithCommitted", "NodeQuorum", "PendingAnswered", "NoSuccessAfterFailure", "ErrorCleansUp", "ValueInv", "NoLostWakeup", "OneReply",
                                     "PendShape", "TableShape", "Exclusive", "AckSafetyExceptA10 (regression model A10Fixed = FALSE)",
                                     "ValueInLog / NoSuccessAfterFailure REFUTED under AckAfterRecords = TRUE (deviation C11d)"]},
            "tlc_behaviours_replayed": len(beh), "tlc_behaviours_printed": len(hs), "tlc_counterexamples_replayed": len(cx_scs) + len(c11d_scs) + len(c11e_scs),
            "random_histories": len(rnd), "flush_fault_matrix_histories": len(matrix), "value_rollback_matrix_histories": len(vmatrix), "follower_part_histories": len(fscs), "directed_histories": len(direct),
            "monitor": {"module": "spec/mon/MonAck.tla", "events": mst["events"], "monitor_states": mst["monitor_states"]},
            "real_code_events": cov,
            "stage_wall_s": {"tlc_models_and_build": round(t_models, 1), "harness": round(t_harness, 1), "monitor": round(t_monitor, 1), "selftest": round(t_selftest, 1)},
            "selftest": {"all_rejected": True, "cases": stests},
            "evaluations": len(scs) + len(fscs),
            "distinct_nontrivial": len({json.dumps([s["followers"], s["mode"], s["steps"]], sort_keys=True) for s in scs if s["name"] in nontrivial_names}),
            "rule": "one evaluation = one fault schedule replayed on the real leader code and validated by the TLA+ monitor MonAck; non-trivial = at least one "
                    "ack-required lock was observed ack-pending in the leader's ack table during the run; distinct = distinct (followers, mode, step sequence)",
        }
        out.assumptions = [
            "leader-local: follower acks, the leader's flush, link cuts and demotion are injected in-process through the entry points the real peers use; no TCP, no follower process",
            "follower part: one follower-role node in the same process; records are built by the driver (AofLock.Encode) and handed on as ReplicationClient.Process does (Aof.AppendLock / Aof.ReplayLock), the client's three goroutines and the stream reader are not run; what a positive follower acknowledgement means (replayed AND in that follower's own log) is taken from the handshake the property's anchors name, the statement itself only says 'acknowledged'",
            "the leader's idle flush is held back by keeping Aof.channelActiveCount at 1 (the state 'another shard's channel is busy'); the buffer-full flush is not reached (few records)",
            "a write failure is ENOSPC on every write to that file (handle swapped for /dev/full under Aof.aofGlock); partial writes are not produced; values are small enough to be buffered (the direct value write of WriteLockData is not reached)",
            "between the two writes of a flush only the shard's channel goroutine runs (client requests arriving in that window are ordered after the flush, in the model and in the engine)",
            "the value frame of a record is looked for at the offset its flush gave it (size of the value file when the flush began + position in the value buffer); after a failed value write later frames are therefore still found where they were written (what a replay of the log makes of the shifted frames is C08's matter)",
            "a key's value lives in its manager, which is recycled when nobody holds or waits: prior states other than 'no value' are set up on a Count-1 key kept alive by a dataless anchor hold (one more holder fits, as on an exclusive key); on a key that nobody references after the failure the rollback is not observable and not judged",
            "when another value-carrying request holds, is pending or is answered on the same (shared) key while the judged request is pending, 'the value before the grant' is not defined by the statement: the value clause is skipped there (delta-undo against a value changed by somebody else is not judged)",
            "one shard (DBConcurrent = 1) so that quiescence of the single AofChannel is decidable; the channel goroutine handles items eagerly (no lag relative to timeouts) except when parked at the DoAckLock hook",
            "re-entrant re-locks and update requests carrying the require-ack flag are outside the statement's quantification and are not generated",
            "the required number of followers is all = n, majority = floor((n+1)/2) (no arbiter); when links are cut while a request is pending the minimum over the configurations seen is demanded",
        ]
        return out
    finally:
        shutil.rmtree(wd, ignore_errors=True)

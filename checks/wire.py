"""Check C14 "Wire codecs are lossless and independent of framing".

  (1) TLC design checks (exhaustive, bounded):
        spec/WireMC.tla        every frame layout well formed, README offsets, Decode/Encode inverse on
                               boundary valuations of every field of every type (also with the undefined
                               bytes re-filled); prints the valuations + frames  -> scenarios (spec -> code)
        spec/RespParserMC.tla  the implementation-shaped text parser refines the reference reading under
                               EVERY chunking of every small request / response (deviations A9, A19 off);
                               with the deviations on TLC emits counterexamples -> replay scripts
  (2) the real codecs are driven by in-package harnesses (protocol and server packages) over
        - the TLC-generated valuations and frames, the TLC counterexamples, the TLC input universe,
        - seeded wide-range cases (random field values, random 64-byte frames, value frames with
          properties, argument lists up to 64 KiB in sampled splits, every split of short streams,
          every <=3-cut split of realistic commands, key strings of every length 0..64, text LOCK/UNLOCK
          commands next to their binary equivalent, every result code),
      and only RECORD what the code did (ndjson)
  (3) every recorded trace is validated by TLC against the trace spec spec/mon/MonWire.tla
      (which judges each event with spec/Wire.tla / spec/RespParser.tla); VIOL lines become verdicts
  (4) binding self-test: one recorded field of an accepted trace is corrupted; TLC must reject it
  (5) requests in SEQUENCE on one connection (checks/wire_seq.py, spec/WireSeq.tla): every sequence of length 3 (thorough: 4)
      over three alphabets of "result shapes", the counterexamples of the model's deviation switches and long -simulate
      sequences are replayed on ONE real text connection, ONE real binary connection and a twin with fresh objects in
      lockstep; MonWire (StepSeq) compares every text reply with the layout of Wire!DataTail and with the binary reply
"""
import json, os, random, shutil, time, hashlib, re
import vbuild, vtlc, engine, checklib
from vbuild import VERIF, InfraError

PROPS = ["C14"]

MANIFEST = {"C14": dict(
    level="model_checking", design="5/C14",
    technique="TLA+ layout/RESP specs evaluated by TLC as trace monitor over recorded real-codec events + exhaustive chunking model check",
    text="Every event recorded from the real Encode/Decode pairs (20 frame layouts), the server's hand-inlined lock codec, value-frame "
         "builders, TextParser (every split of short streams, every <=3-cut split of realistic commands, sampled splits up to 64 KiB), "
         "key normalisation, text LOCK/UNLOCK conversion and result rendering is judged by TLC against the layouts-as-data spec "
         "(spec/Wire.tla) and the reference RESP reading (spec/RespParser.tla); TLC also proves on the bounded model that the "
         "implementation-shaped parser is chunking independent once deviations A9/A19 are repaired and produces the counterexamples "
         "that are replayed on the real parser. Requests in sequence on one connection (spec/WireSeq.tla: abstract engine + the "
         "connection's recycled result object, invariants FreshResult / WellFramed, deviation switches KeepFlag / KeepData / KeepCounts): "
         "every sequence of length 3 (thorough 4) over the alphabets of result shapes, the deviation counterexamples and -simulate "
         "sequences run on one real text connection, one real binary connection and a twin with fresh objects in lockstep; every text "
         "reply is judged against the reply layout (announced = written elements, DATA pair iff the result carries a value frame) and "
         "field by field against the binary reply, effects (holders, value) against each other.",
    note="Trusted base: the README tables (LOCK request/result) and, for the other ten frame types, the struct declarations of "
         "protocol/command.go transcribed into spec/Wire.tla; MD5 is computed by Python's hashlib and passed through; TLC, the Go "
         "harness's field extraction. Boundary + seeded valuations, not all 2^512 frames (exhaustive:false).",
    engine="W+pure")}

SPEC = os.path.join(VERIF, "spec")
MON = os.path.join(VERIF, "spec", "mon")

# ------------------------------------------------------------------ layout facts needed by GENERATORS only
# (judgement never uses these: the monitor recomputes everything from spec/Wire.tla)
TYPES = ["command", "init", "lock", "state", "admin", "ping", "quit", "call", "leader", "subscribe",
         "r_command", "r_init", "r_lock", "r_state", "r_admin", "r_ping", "r_quit", "r_call", "r_leader", "r_subscribe"]
CMDTYPE_OF = {"command": [12, 200], "init": [0], "lock": [1, 2, 8, 9], "state": [3], "admin": [4], "ping": [5], "quit": [6], "call": [7],
              "leader": [10], "subscribe": [11]}
STR_FIELDS = {"call": [(26, 38)], "r_call": [(27, 37)], "r_leader": [(21, 43)]}

def bs(s):
    return list(s.encode() if isinstance(s, str) else s)

# ------------------------------------------------------------------ (1) TLC design checks

def _cfg(*path):
    with open(os.path.join(VERIF, "spec", *path)) as fh:
        return fh.read()

WIREMC_CFG = _cfg("mc", "WireMC.cfg")
RESPMC_CFG = _cfg("mc", "RespParserMC.cfg.tmpl")

def tlc_ok(r, what):
    st = vtlc.parse_stats(r["out"])
    if r["rc"] == -9:
        raise InfraError(f"TLC timed out on {what}")
    if st is None or "No error has been found" not in r["out"]:
        raise InfraError(f"{what}: TLC did not complete cleanly (design model, not a verdict on the code):\n" + r["out"][-3000:])
    return st

def run_wiremc(wd):
    r = vtlc.run_tlc(SPEC, "WireMC", WIREMC_CFG, os.path.join(wd, "wiremc"), workers=4, timeout=1800)
    st = tlc_ok(r, "WireMC")
    vals = []
    for ln in r["out"].splitlines():
        ln = ln.strip()
        if ln.startswith('"VAL '):
            try:
                vals.append(json.loads(json.loads(ln)[4:]))
            except Exception:
                pass
    if len(vals) < 1000:
        raise InfraError("WireMC printed too few valuations")
    return st, vals, r["wall"]

def run_respmc(wd, mode, quick, fixed=True, seed=1):
    # bounded universes: request/response items over a binary-unsafe alphabet
    if quick:
        p = dict(alpha="97, 13, 10", arglen=2, nargs=2, ncmds=1)
    else:
        p = dict(alpha="97, 13, 10, 36", arglen=3, nargs=2, ncmds=1)
    p.update(mode=mode, a9="TRUE" if fixed else "FALSE", a15="TRUE" if fixed else "FALSE",
             invs="RefRoundTrip ChunkingIndependent RoundTrip" if fixed else "RefRoundTrip CexExport")
    r = vtlc.run_tlc(SPEC, "RespParserMC", RESPMC_CFG % p, os.path.join(wd, f"respmc_{mode}_{'fixed' if fixed else 'dev'}"),
                     workers=4 if quick else 8, timeout=900 if quick else 2400)
    st = tlc_ok(r, f"RespParserMC[{mode},{'fixed' if fixed else 'deviations'}]")
    cex = []
    if not fixed:
        seen = set()
        for ln in r["out"].splitlines():
            ln = ln.strip()
            if ln.startswith('"CEX '):
                try:
                    c = json.loads(json.loads(ln)[4:])
                except Exception:
                    continue
                key = json.dumps(c, sort_keys=True)
                if key not in seen:
                    seen.add(key)
                    cex.append(c)
    return st, cex, r["wall"], p

# second pass with two pipelined items (smaller alphabet) - command boundaries inside a chunk
def run_respmc_pipe(wd, mode, quick):
    p = dict(alpha="97, 10" if quick else "97, 10, 13", arglen=1, nargs=1 if quick else 2, ncmds=2, mode=mode, a9="TRUE", a15="TRUE",
             invs="RefRoundTrip ChunkingIndependent RoundTrip")
    r = vtlc.run_tlc(SPEC, "RespParserMC", RESPMC_CFG % p, os.path.join(wd, f"respmc_{mode}_pipe"), workers=2 if quick else 6, timeout=900 if quick else 2400)
    return tlc_ok(r, f"RespParserMC[{mode},pipelined]"), r["wall"]

# ------------------------------------------------------------------ (2) scenarios for the protocol package

class Ids:
    def __init__(self):
        self.n = 0
    def next(self):
        self.n += 1
        return self.n

def numeral(v, w):
    return [(v >> (8 * (w - 1 - i))) & 0xff for i in range(w)]

FIELDS = {  # name, width, kind   (generator only)
    "hdr": [("Magic", 1, "n"), ("Version", 1, "n"), ("CommandType", 1, "n"), ("RequestId", 16, "a")],
    "command": [], "ping": [], "quit": [],
    "init": [("ClientId", 16, "a")],
    "lock": [("Flag", 1, "n"), ("DbId", 1, "n"), ("LockId", 16, "a"), ("LockKey", 16, "a"), ("Timeout", 2, "n"), ("TimeoutFlag", 2, "n"),
             ("Expried", 2, "n"), ("ExpriedFlag", 2, "n"), ("Count", 2, "n"), ("Rcount", 1, "n")],
    "state": [("Flag", 1, "n"), ("DbId", 1, "n")],
    "admin": [("AdminType", 1, "n")],
    "call": [("Flag", 1, "n"), ("Encoding", 1, "n"), ("Charset", 1, "n"), ("ContentLen", 4, "n"), ("MethodName", 38, "s")],
    "leader": [("Flag", 1, "n")],
    "subscribe": [("Flag", 1, "n"), ("ClientId", 4, "n"), ("SubscribeId", 4, "n"), ("SubscribeType", 1, "n"), ("LockKeyMask", 16, "a"),
                  ("Expried", 4, "n"), ("MaxSize", 4, "n")],
    "r_command": [], "r_admin": [], "r_ping": [], "r_quit": [],
    "r_init": [("InitType", 1, "n")],
    "r_lock": [("Flag", 1, "n"), ("DbId", 1, "n"), ("LockId", 16, "a"), ("LockKey", 16, "a"), ("Lcount", 2, "n"), ("Count", 2, "n"),
               ("Lrcount", 1, "n"), ("Rcount", 1, "n")],
    "r_state": [("Flag", 1, "n"), ("DbState", 1, "n"), ("DbId", 1, "n"), ("LockCount", 8, "n"), ("UnLockCount", 8, "n"), ("LockedCount", 4, "n"),
                ("WaitCount", 4, "n"), ("TimeoutedCount", 4, "n"), ("ExpriedCount", 4, "n"), ("UnlockErrorCount", 4, "n"), ("KeyCount", 4, "n")],
    "r_call": [("Flag", 1, "n"), ("Encoding", 1, "n"), ("Charset", 1, "n"), ("ContentLen", 4, "n"), ("ErrType", 37, "s")],
    "r_leader": [("HostLen", 1, "n"), ("Host", 43, "s")],
    "r_subscribe": [("Flag", 1, "n"), ("ClientId", 4, "n"), ("SubscribeId", 4, "n")],
}

def fields_of(t):
    f = list(FIELDS["hdr"])
    if t.startswith("r_"):
        f.append(("Result", 1, "n"))
    return f + FIELDS[t]

def random_value(rng, t):
    v = {}
    for name, w, kind in fields_of(t):
        if kind == "s":
            n = rng.choice([0, 1, w - 1, w, rng.randint(0, w)])
            v[name] = [rng.randint(1, 255) for _ in range(n)]
        else:
            mode = rng.random()
            if mode < 0.15:
                v[name] = [0] * w
            elif mode < 0.3:
                v[name] = [255] * w
            else:
                v[name] = [rng.randint(0, 255) for _ in range(w)]
    if t == "r_leader":
        v["HostLen"] = [len(v["Host"])]
    return v

def gen_binary(vals, rng, ids, quick):
    scs = []
    # TLC valuations: pad = 0 -> encode direction; every frame (all pads) -> decode direction
    for x in vals:
        if x["pad"] == 0:
            scs.append({"k": "enc", "id": ids.next(), "t": x["ty"], "v": x["v"], "src": "tlc"})
        scs.append({"k": "dec", "id": ids.next(), "t": x["ty"], "b": x["b"], "src": "tlc"})
    # seeded random valuations
    for t in TYPES:
        for _ in range(40 if quick else 600):
            scs.append({"k": "enc", "id": ids.next(), "t": t, "v": random_value(rng, t), "src": "rand"})
    # seeded random 64-byte inputs; string fields repaired into the value domain half of the time
    for t in TYPES:
        for _ in range(60 if quick else 900):
            b = [rng.randint(0, 255) for _ in range(64)]
            if rng.random() < 0.3:
                b = [rng.choice([0, 0, 255, 1, 128]) for _ in range(64)]
            if t in STR_FIELDS and rng.random() < 0.7:
                for off, w in STR_FIELDS[t]:
                    n = rng.choice([0, 1, w - 1, w, rng.randint(0, w)])
                    for j in range(w):
                        b[off + j] = rng.randint(1, 255) if j < n else 0
                    if t == "r_leader":
                        b[20] = n
            scs.append({"k": "dec", "id": ids.next(), "t": t, "b": b, "src": "rand"})
    return scs

def gen_vframes(rng, ids, quick):
    scs = []
    sizes = [0, 1, 2, 63, 64, 255, 256, 257, 1000] + ([] if quick else [4095, 4096, 65535, 65536, 70000])
    psizes = [0, 1, 2, 255, 256, 300]
    for n in sizes:
        for hasprops in (False, True):
            for via in ("bytes", "string"):
                props = []
                if hasprops:
                    for _ in range(rng.choice([0, 1, 2, 3])):
                        pn = rng.choice(psizes)
                        props.append({"code": rng.randint(0, 255), "value": [rng.randint(0, 255) for _ in range(pn)]})
                scs.append({"k": "vframe", "id": ids.next(), "stage": rng.randint(0, 3), "ctype": rng.choice([0, 2, 3, 4, 5, 6, 7, 8, 63]),
                            "flag": rng.choice([0, 1, 2, 4, 0x20, 0x21]), "hasprops": hasprops, "props": props,
                            "data": [rng.randint(0, 255) for _ in range(n)], "via": via})
    for _ in range(30 if quick else 400):
        props = [{"code": rng.randint(0, 255), "value": [rng.randint(0, 255) for _ in range(rng.choice(psizes + [5, 17]))]} for _ in range(rng.randint(0, 4))]
        scs.append({"k": "vframe", "id": ids.next(), "stage": rng.randint(0, 3), "ctype": rng.choice([0] + list(range(2, 64))), "flag": rng.choice([0, 1, 2, 4, 0x20]),
                    "hasprops": rng.random() < 0.7, "props": props, "data": [rng.randint(0, 255) for _ in range(rng.randint(0, 600))], "via": rng.choice(["bytes", "string"])})
    for s in scs:
        if not s["hasprops"]:
            s["props"] = []
    # array / kv payloads; items are non-empty (the accessors skip empty items by design: agnostic)
    for _ in range(30 if quick else 300):
        items = [[rng.randint(0, 255) for _ in range(rng.choice([1, 2, 3, 16, 255, 256]))] for _ in range(rng.randint(1, 5))]
        scs.append({"k": "items", "id": ids.next(), "kind": "array", "items": items})
    for _ in range(30 if quick else 300):
        klen, vlen = rng.choice([1, 2, 3, 8, 16]), rng.choice([1, 2, 3, 8, 16, 255])
        if rng.random() < 0.3:
            vlen = klen
        items = [[rng.randint(1, 255) for _ in range(klen)], [rng.randint(0, 255) for _ in range(vlen)]]
        scs.append({"k": "items", "id": ids.next(), "kind": "kv", "items": items})
    return scs

def enc_req(args):
    out = b"*%d\r\n" % len(args)
    for a in args:
        out += b"$%d\r\n" % len(a) + bytes(a) + b"\r\n"
    return out

def req_item(args):
    return {"kind": "req", "args": [list(a) for a in args]}

def stream_len(items):
    n = 0
    for it in items:
        if it["kind"] == "req":
            n += len(enc_req(it["args"]))
        elif it["kind"] in ("status", "error"):
            n += 3 + len(it["msg"])
        else:
            a = it["args"]
            n += len(enc_req(a)) if len(a) != 1 else len(enc_req(a)) - 4
    return n

def lock_args(rng, lower=False):
    kw = lambda s: s.lower() if lower else s
    args = [kw(rng.choice(["LOCK", "UNLOCK"])), rng.choice(["k", "key:%d" % rng.randint(0, 99999), "x" * rng.randint(17, 40), "%032x" % rng.getrandbits(128)])]
    opts = [("TIMEOUT", str(rng.choice([0, 1, 5, 65535, 0x400003]))), ("EXPRIED", str(rng.choice([0, 1, 60, 65535, 0x40003c]))),
            ("LOCK_ID", rng.choice(["id%d" % rng.randint(0, 999), "%032x" % rng.getrandbits(128), "l" * 20])),
            ("FLAG", str(rng.choice([0, 1, 2, 8]))), ("COUNT", str(rng.choice([0, 1, 2, 100, 65535]))), ("RCOUNT", str(rng.choice([0, 1, 2, 255])))]
    rng.shuffle(opts)
    for k, v in opts[:rng.randint(0, len(opts))]:
        args += [kw(k), v]
    return [bs(a) for a in args]

def gen_parse(rng, ids, quick, cexs, universe):
    scs = []
    nall = 18 if quick else 19          # 2^(n-1) splits each
    def add(mode, items, split, name, **kw):
        sc = {"k": "parse", "id": ids.next(), "mode": mode, "stream": items, "split": split, "name": name}
        sc.update(kw)
        scs.append(sc)
    # (a) TLC counterexamples of the deviation runs: explicit cuts on raw bytes
    for i, c in enumerate(cexs):
        cuts = [x for x in c["cuts"] if x < len(c["bytes"])]
        add(c["mode"], [{"kind": "raw", "raw": c["bytes"]}], "cuts", f"tlc-cex-{i}", cuts=[cuts])
    # (b) the TLC input universe on the real parser: every split (short) / every <=3-cut split
    for i, (mode, items) in enumerate(universe):
        n = stream_len(items)
        if n <= nall:
            add(mode, items, "all", f"tlc-universe-{i}")
        else:
            add(mode, items, "upto", f"tlc-universe-{i}", maxcuts=3)
    # (c) seeded short streams, every split
    alpha = [97, 98, 13, 10, 36, 42, 0, 255]
    for i in range(60 if quick else 100):
        while True:
            args = [[rng.choice(alpha) for _ in range(rng.choice([0, 1, 2, 3, 4]))] for _ in range(rng.choice([1, 1, 2]))]
            if len(enc_req(args)) <= nall:
                break
        add("req", [req_item(args)], "all", f"short-req-{i}")
    for i in range(60 if quick else 100):
        kind = rng.choice(["status", "error", "results", "results"])
        if kind in ("status", "error"):
            msg = [rng.choice([97, 98, 32, 69]) for _ in range(rng.randint(0, 8))]
            if kind == "error" and rng.random() < 0.7:
                msg = [69, 82, 82, 32] + msg
            add("resp", [{"kind": kind, "msg": msg}], "all", f"short-resp-{i}")
        else:
            while True:
                args = [[rng.choice(alpha) for _ in range(rng.choice([0, 1, 2, 3]))] for _ in range(rng.choice([1, 2]))]
                if len(enc_req(args)) <= nall:
                    break
            add("resp", [{"kind": "results", "args": args}], "all", f"short-resp-{i}")
    # (d) realistic commands: every split with at most 3 (short) / 2 (long) cuts; pipelined pairs
    for i in range(12 if quick else 60):
        items = [req_item(lock_args(rng, lower=rng.random() < 0.2)) for _ in range(rng.choice([1, 1, 2]))]
        n = stream_len(items)
        add("req", items, "upto", f"lock-cmd-{i}", maxcuts=3 if n <= (60 if quick else 90) else 2)
    for i in range(4 if quick else 30):
        res = [bs(str(rng.choice([0, 5, 8]))), bs("OK"), bs("LOCK_ID"), bs("%032x" % rng.getrandbits(128)), bs("LCOUNT"), bs("1"), bs("COUNT"), bs("1"),
               bs("LRCOUNT"), bs("1"), bs("RCOUNT"), bs("1")]
        add("resp", [{"kind": "results", "args": res}], "upto", f"lock-result-{i}", maxcuts=2)
    # (e) long argument lists, sampled splits; read buffers of the server/client size and larger
    big = [(1, 70), (1, 1023), (1, 1024), (1, 1025), (3, 2048), (2, 5000)] + ([(1, 65536), (40, 200)] if quick else [(1, 65536), (2, 65535), (300, 40), (1000, 3), (3, 30000)])
    for i, (na, ln) in enumerate(big):
        args = [[rng.randint(0, 255) for _ in range(max(0, ln + rng.choice([-1, 0, 1]) if na > 1 else ln))] for _ in range(na)]
        if rng.random() < 0.5:
            args.append([])
        for rbuf in (1024, 4096) if quick else (1024, 4096, 100000):
            add("req", [req_item(args)], "rand", f"big-req-{i}-{rbuf}", nrand=12 if quick else 60, seed=rng.getrandbits(30), rbuf=rbuf)
        add("resp", [{"kind": "results", "args": args}], "rand", f"big-resp-{i}", nrand=8 if quick else 40, seed=rng.getrandbits(30), rbuf=1024)
    return scs

def md5_of(b):
    return list(hashlib.md5(bytes(b)).digest())

def gen_norm(rng, ids, quick):
    scs = []
    for n in range(0, 65):
        variants = [[rng.randint(0, 255) for _ in range(n)], [rng.choice(b"abcdefXYZ019_-:") for _ in range(n)]]
        if n == 32:
            variants += [bs("%032x" % rng.getrandbits(128)), bs(("%032x" % rng.getrandbits(128)).upper()), bs("%031xg" % rng.getrandbits(124)),
                         bs("0" * 32), bs("f" * 32), bs("%016x%016X" % (rng.getrandbits(64), rng.getrandbits(64)))]
        if n in (15, 16, 17, 31, 33, 64):
            variants += [[0] * n, [255] * n, bs("%0*x" % (n, rng.getrandbits(4 * n)))]
        if not quick:
            variants += [[rng.randint(0, 255) for _ in range(n)] for _ in range(6)]
        for s in variants:
            scs.append({"k": "norm", "id": ids.next(), "s": list(s), "md5": md5_of(s)})
    return scs

def gen_text(rng, ids, quick):
    scs = []
    for i in range(60 if quick else 800):
        args = lock_args(rng, lower=rng.random() < 0.15)
        if rng.random() < 0.3:
            args += [bs("WILL"), bs(str(rng.choice([0, 1])))]
        scs.append({"k": "text", "id": ids.next(), "items": args, "md5s": [md5_of(a) for a in args]})
    return scs

def gen_render(rng, ids, quick):
    scs = []
    for code in range(0, 13):
        for j in range(2 if quick else 8):
            r = {"Magic": [0x56], "Version": [1], "CommandType": [rng.choice([1, 2])], "RequestId": [rng.randint(0, 255) for _ in range(16)],
                 "Result": [code], "Flag": [0], "DbId": [rng.randint(0, 3)], "LockId": [rng.randint(0, 255) for _ in range(16)],
                 "LockKey": [rng.randint(0, 255) for _ in range(16)], "Lcount": numeral(rng.choice([0, 1, 255, 256, 65535]), 2),
                 "Count": numeral(rng.choice([0, 1, 255, 65534]), 2), "Lrcount": [rng.choice([0, 1, 255])], "Rcount": [rng.choice([0, 1, 254])]}
            scs.append({"k": "render", "id": ids.next(), "r": r})
    return scs

def universe_items(quick, rng):
    """The item universe of the RespParserMC configs, re-enumerated for the real parser (mode, [item])."""
    out = []
    alpha = [97, 13, 10]
    strs = [[]] + [[a] for a in alpha] + [[a, b] for a in alpha for b in alpha]
    lists = [[s] for s in strs] + [[s, u] for s in strs for u in strs]
    if quick:
        lists = [l for l in lists if len(l) == 1] + rng.sample([l for l in lists if len(l) == 2], 40)
    for l in lists:
        out.append(("req", [req_item(l)]))
    lines = [[]] + [[a] for a in (97, 32)] + [[a, b] for a in (97, 32) for b in (97, 32)]
    for m in lines:
        out.append(("resp", [{"kind": "status", "msg": m}]))
        out.append(("resp", [{"kind": "error", "msg": m}]))
    for l in (lists if not quick else lists[:30]):
        out.append(("resp", [{"kind": "results", "args": l}]))
    # pipelined pairs
    small = [[[]], [[97]], [[10]], [[97], [10]]]
    for a in small:
        for b in small:
            out.append(("req", [req_item(a), req_item(b)]))
    for a in ([{"kind": "status", "msg": [97]}, {"kind": "error", "msg": [97, 32, 97]}, {"kind": "results", "args": [[10]]}, {"kind": "results", "args": [[97], []]}]):
        for b in ([{"kind": "status", "msg": []}, {"kind": "error", "msg": [97]}, {"kind": "results", "args": [[13]]}]):
            out.append(("resp", [a, b]))
    return out

# ------------------------------------------------------------------ harness / monitor plumbing

def run_pkg(binp, testname, scs, wd, tag):
    # order-preserving shards (parse scenarios are heavy: interleave)
    res = engine.run_harness(binp, testname, scs, os.path.join(wd, "run_" + tag), tag=tag, timeout=MON_TIMEOUT["s"])
    traces = []
    for fin, fout, p in res:
        if p is not None:
            raise InfraError(f"harness {testname} died on {fin}:\n" + (p.stdout or "")[-3000:] + (p.stderr or "")[-2000:])
        traces.append(fout)
    return traces

MON_CFG = _cfg("mon", "MonWire.cfg.tmpl")

def group_traces(traces, outdir, k):
    """Concatenate trace files into at most k files of similar size (a JVM start costs more than judging a few
    thousand events; the machine has far fewer real cores than JVM threads).  Whole files, order kept."""
    if len(traces) <= k:
        return traces
    os.makedirs(outdir, exist_ok=True)
    sizes = sorted(((os.path.getsize(t), t) for t in traces), reverse=True)
    bins = [[0, []] for _ in range(k)]
    for sz, t in sizes:
        b = min(bins, key=lambda x: x[0])
        b[0] += sz
        b[1].append(t)
    out = []
    for i, (_, files) in enumerate(bins):
        if not files:
            continue
        p = os.path.join(outdir, f"group_{i}.ndjson")
        with open(p, "wb") as fo:
            for t in sorted(files):
                with open(t, "rb") as fi:
                    shutil.copyfileobj(fi, fo)
        out.append(p)
    return out

MON_TIMEOUT = {"s": 1500}
LAST_MON = {"refdiv": [], "judged_obs": 0, "agnostic": 0, "twinbad": [], "seqdiv": [], "seq_twinbad": [], "seq_agnostic": 0}

def monitor(traces, wd, tag, timeout=None, groups=6):
    """engine.monitor_traces for MonWire, additionally collecting the REFDIV / SEQDIV / SUMMARY lines."""
    import concurrent.futures as cf
    if timeout is None:
        timeout = MON_TIMEOUT["s"]
    traces = group_traces(traces, os.path.join(wd, "grp_" + tag), groups)
    def one(arg):
        i, tr = arg
        r = vtlc.run_tlc([SPEC, MON], "MonWire", MON_CFG % {"trace": tr}, os.path.join(wd, f"mon_{tag}_{i}"), workers=1, timeout=timeout, heap="3g")
        return tr, r
    viols, nstates, nev, refdiv, judged, agn, twinbad, seqdiv = [], 0, 0, [], 0, 0, [], []
    with cf.ThreadPoolExecutor(max_workers=engine.NCPU) as ex:
        for tr, r in ex.map(one, list(enumerate(traces))):
            o = r["out"]
            st = vtlc.parse_stats(o)
            if r["rc"] == -9:
                raise InfraError(f"TLC timed out on {tr}")
            if "No error has been found" not in o or st is None:
                raise InfraError(f"TLC did not accept the trace file {tr} completely (monitor/infra problem, not a verdict):\n" + o[-3000:])
            with open(tr) as fh:
                n = sum(1 for _ in fh)
            if st["distinct"] != n + 1:
                raise InfraError(f"trace {tr}: {n} events but {st['distinct']} monitor states")
            nstates += st["distinct"]
            nev += n
            for v in vtlc.parse_viols(o):
                v["file"] = tr
                viols.append(v)
            for ln in o.splitlines():
                ln = ln.strip()
                if ln.startswith('"REFDIV '):
                    try:
                        refdiv.append(json.loads(json.loads(ln)[7:]))
                    except Exception:
                        pass
                elif ln.startswith('"TWINBAD '):
                    twinbad.append(ln[:300])
                elif ln.startswith('"SEQDIV '):
                    try:
                        seqdiv.append(json.loads(json.loads(ln)[7:]))
                    except Exception:
                        pass
                elif ln.startswith('"SUMMARY '):
                    try:
                        x = json.loads(json.loads(ln)[8:])
                        judged += x["judged_obs"]
                        agn += x["agnostic"]
                    except Exception:
                        pass
    if tag == "main":
        LAST_MON.update(refdiv=refdiv, judged_obs=judged, agnostic=agn, twinbad=twinbad)
    elif tag == "seq":
        LAST_MON.update(seqdiv=seqdiv, seq_twinbad=twinbad, seq_agnostic=agn)
    return viols, {"monitor_states": nstates, "events": nev}

# ------------------------------------------------------------------ self-test

def selftest(traces, wd):
    """Corrupt ONE recorded field of an accepted trace per event family; TLC must reject each."""
    results = []
    want = {"enc": None, "dec": None, "obs": None, "norm": None, "vframe": None, "text": None, "srvbin": None, "srvtext": None, "seq": None}
    lines_by_file = {}
    for tr in traces:
        with open(tr) as fh:
            lines_by_file[tr] = fh.read().splitlines()
    def corrupt(kind, evs, i):
        e = evs[i]
        if kind == "enc" and e.get("t") == "lock" and e["panic"] == "" and len(e["b"]) == 64:
            e["b"][53], e["b"][54] = e["b"][54], e["b"][53] ^ 1          # Timeout bytes swapped (+1 bit so it always differs)
            return "enc event: the two recorded Timeout bytes (offsets 53,54) of a LOCK frame swapped"
        if kind == "dec" and e.get("t") == "r_lock" and e["panic"] == "" and len(e["b2"]) == 64:
            e["b2"][54] ^= 0x10
            return "dec event: one bit of the re-encoded LCount byte (offset 54) of a lock result flipped"
        if kind == "obs" and e["at"] == e["len"] and e["obs"]["done"] and e["obs"]["done"][-1]["args"] and e["obs"]["done"][-1]["args"][-1]:
            e["obs"]["done"][-1]["args"][-1][-1] ^= 1
            return "obs event: last byte of the last parsed argument changed"
        if kind == "norm" and len(e["s"]) == 32 and e["panic"] == "":
            e["key"][0] ^= 0x80
            return "norm event: first byte of the normalised key of a 32-character string changed"
        if kind == "vframe" and e["hasprops"] and e["props"] and e["panic"] == "":
            e["fr"][6] ^= 1
            return "vframe event: low byte of the recorded property-block length changed"
        if kind == "text" and e["panic"] == "" and e["err"] == "" and e["cmd"]:
            e["cmd"]["Count"][1] ^= 1
            return "text event: the recorded Count of the converted command changed by one"
        if kind == "srvbin" and e["panic"] == "" and len(e.get("rb", [])) == 64:
            e["rb"][56] ^= 1
            return "srvbin event: one bit of the Count byte (offset 56) of the server's reply frame flipped"
        if kind == "seq" and e["hastext"] and e["hasbin"] and e["tdone"] == "" and e["l"]["op"] != "get" and bytes(e["trb"][:5]) == b"*12\r\n":
            e["trb"][2] = ord("4")
            return "seq event: the text reply to a LOCK / UNLOCK in a sequence announces 14 elements instead of the 12 it has"
        if kind == "srvtext" and e["panic"] == "" and e.get("tsnap") and e["tsnap"].get("holders"):
            e["tsnap"]["holders"][0]["Expried"][1] ^= 1
            return "srvtext event: the Expried of the hold created by the TEXT command changed by one"
        return None
    import copy
    picked = []          # (kind, description, context events, original event, corrupted event)
    for kind in list(want):
        found = 0
        for tr, lines in lines_by_file.items():
            if found >= 3:
                break
            for i, ln in enumerate(lines):
                if found >= 3:
                    break
                if f'"k":"{kind}"' not in ln or len(ln) > 200000:
                    continue
                e = json.loads(ln)
                if e.get("k") != kind or e.get("err") or e.get("panic"):
                    continue
                ctx = []
                if kind == "obs":
                    j = i
                    while j >= 0 and '"k":"build"' not in lines[j]:
                        j -= 1
                    if j < 0 or len(lines[j]) > 200000:
                        continue
                    ctx = [json.loads(lines[j])]
                bad = copy.deepcopy(e)
                desc = corrupt(kind, [bad], 0)
                if desc:
                    picked.append((kind, desc, ctx, e, bad))
                    found += 1
                    if kind != "obs":
                        break          # next candidate from another file
    if not picked:
        return results
    p = os.path.join(wd, "selftest.ndjson")
    pos = []
    n = 0
    with open(p, "w") as fh:
        for kind, desc, ctx, e, bad in picked:
            for x in ctx + [e]:
                n += 1
                fh.write(json.dumps(x) + "\n")
            lo = n
            for x in ctx + [bad]:
                n += 1
                fh.write(json.dumps(x) + "\n")
            pos.append((lo, n))
    v, _ = monitor([p], wd, "selftest")
    byline = {}
    for x in v:
        byline.setdefault(x.get("line"), []).append(x)
    fam = {}
    for (kind, desc, ctx, e, bad), (lo, hi) in zip(picked, pos):
        if lo in byline:
            continue            # the untouched event is itself a (known) violation: not a usable candidate
        r = {"family": kind, "corruption": desc, "original_accepted": True, "rejected": hi in byline,
             "codes": sorted({x["code"] for x in byline.get(hi, [])})}
        if kind not in fam or not r["rejected"]:
            fam[kind] = r
    return [fam[k] for k in want if k in fam]

# ------------------------------------------------------------------ the check

def classify_sample(sc):
    s = {k: sc[k] for k in sc if k in ("k", "t", "mode", "split", "name", "maxcuts")}
    if sc["k"] == "parse":
        s["stream"] = sc["stream"] if stream_len([x for x in sc["stream"] if x["kind"] != "raw"]) < 120 else "(long)"
    if sc["k"] == "enc":
        s["v"] = sc["v"]
    if sc["k"] == "text":
        s["args"] = [bytes(a).decode("latin1") for a in sc["items"]]
    return s

def run(prop, tier, seed):
    out = checklib.Outcome()
    wd = vbuild.scratch(f"vf_{prop}_")
    try:
        quick = tier == "quick"
        MON_TIMEOUT["s"] = 1500 if quick else 5400      # generous: the sandbox is shared and can be heavily loaded
        rng = random.Random(seed * 1000003 + 14)
        ids = Ids()
        tm = {}
        t_ = time.time()
        # (1) design checks (independent TLC runs, in parallel)
        import concurrent.futures as cf
        try:
            import importlib
            seqmod = importlib.import_module("checks.wire_seq")
        except ImportError:
            seqmod = None
        with cf.ThreadPoolExecutor(max_workers=8) as ex:
            f_sq = ex.submit(seqmod.run_models, wd, quick, seed) if seqmod is not None else None
            f_w = ex.submit(run_wiremc, wd)
            f_rq = ex.submit(run_respmc, wd, "req", quick, True)
            f_rs = ex.submit(run_respmc, wd, "resp", quick, True)
            f_pq = ex.submit(run_respmc_pipe, wd, "req", quick)
            f_ps = ex.submit(run_respmc_pipe, wd, "resp", quick)
            # the same universes with the code's deviations switched on: counterexamples -> replay scripts
            f_dq = ex.submit(run_respmc, wd, "req", True, False)
            f_ds = ex.submit(run_respmc, wd, "resp", True, False)
            st_w, vals, wall_w = f_w.result()
            st_rq, _, wall_rq, p_rq = f_rq.result()
            st_rs, _, wall_rs, p_rs = f_rs.result()
            st_pq, wall_pq = f_pq.result()
            st_ps, wall_ps = f_ps.result()
            st_dq, cex_q, wall_dq, _ = f_dq.result()
            st_ds, cex_s, wall_ds, _ = f_ds.result()
            seq_res = f_sq.result() if f_sq is not None else None
        tm["design_checks"] = round(time.time() - t_, 1); t_ = time.time()
        cex_q.sort(key=lambda c: json.dumps(c, sort_keys=True))
        cex_s.sort(key=lambda c: json.dumps(c, sort_keys=True))
        rng.shuffle(cex_q)
        rng.shuffle(cex_s)
        ncex = 25 if quick else 200
        cexs = cex_q[:ncex] + cex_s[:ncex]
        # (2) scenarios, protocol package
        scs = []
        scs += gen_binary(vals, rng, ids, quick)
        scs += gen_vframes(rng, ids, quick)
        scs += gen_norm(rng, ids, quick)
        scs += gen_text(rng, ids, quick)
        scs += gen_render(rng, ids, quick)
        parse_scs = gen_parse(rng, ids, quick, cexs, universe_items(quick, rng))
        binp = vbuild.build_inpkg("protocol", wd)
        tr_a = run_pkg(binp, "TestVerifWire", scs, wd, "pa")
        tr_b = run_pkg(binp, "TestVerifWire", parse_scs, wd, "pb")
        # server package (hand-inlined codec, text vs binary on the real engine)
        srv_scs, tr_s = [], []
        try:
            import importlib
            srvmod = importlib.import_module("checks.wire_srv")
        except ImportError:
            srvmod = None
        if srvmod is not None:
            srv_scs = srvmod.gen(rng, ids, quick, md5_of, lock_args)
            binp_s = vbuild.build_inpkg("server", wd)
            tr_s = run_pkg(binp_s, "TestVerifWireSrv", srv_scs, wd, "sv")
        # sequences of requests on one text and one binary connection (spec/WireSeq.tla)
        seq_scs, tr_q, seq_models = [], [], None
        if seqmod is not None and srvmod is not None:
            seq_scs, seq_models = seqmod.build_scenarios(seq_res, random.Random(seed * 1000003 + 1414), ids, md5_of, quick)
            tr_q = run_pkg(binp_s, "TestVerifWireSeq", seq_scs, wd, "sq")
        traces = tr_a + tr_b + tr_s
        tm["harness"] = round(time.time() - t_, 1); t_ = time.time()
        # (3) monitor (the sequence traces in their own TLC processes, at the same time)
        with cf.ThreadPoolExecutor(max_workers=2) as ex:
            f_m = ex.submit(monitor, traces, wd, "main")
            f_q = ex.submit(monitor, tr_q, wd, "seq", None, 10 if quick else 16) if tr_q else None
            viols, mst = f_m.result()
            if f_q is not None:
                vq, mq = f_q.result()
                viols += vq
                mst = {k: mst[k] + mq[k] for k in mst}
        tm["monitor"] = round(time.time() - t_, 1); t_ = time.time()
        allscs = {sc["id"]: sc for sc in scs + parse_scs + srv_scs + seq_scs}
        if LAST_MON["twinbad"] or LAST_MON["seq_twinbad"]:
            raise InfraError("scenario generator and spec disagree on the binary twin of a text command: " + json.dumps((LAST_MON["twinbad"] + LAST_MON["seq_twinbad"])[:3]))
        seq_cov = seqmod.coverage(tr_q) if tr_q else None
        if seq_cov is not None and (seq_cov["transitions_value_then_no_value_text"] == 0 or seq_cov["transitions_value_then_no_value_binary"] == 0):
            raise InfraError("sequence phase vacuous: no connection answered a result without value frame right after one with value frame")
        # one violation per signature (code + the classifying detail fields), the smallest instance, with a count
        groups = {}
        for v in viols:
            if v.get("prop") != prop:
                continue
            d = v.get("detail", {})
            sig = (v["code"],) + tuple(json.dumps(d.get(k), sort_keys=True) for k in ("cause", "made_by", "mode", "kind", "t", "result", "where", "fields", "rule", "command_type"))
            size = len(json.dumps(d))
            g = groups.get(sig)
            if g is None:
                groups[sig] = [v, size, 1]
            else:
                g[2] += 1
                if size < g[1]:
                    g[0], g[1] = v, size
        for sig in sorted(groups):
            v, _, n = groups[sig]
            v.pop("file", None)
            v.pop("line", None)
            v["instances"] = n
            out.viols.append((v, allscs.get(v.get("detail", {}).get("id"))))
        # (4) self-test
        stest = selftest(traces + tr_q, wd)
        if not stest:
            raise InfraError("self-test could not find an event to corrupt")
        missing = {"enc", "dec", "obs", "norm", "vframe", "text"} - {s["family"] for s in stest}
        if srvmod is not None:
            missing |= {"srvbin", "srvtext"} - {s["family"] for s in stest}
        if tr_q:
            missing |= {"seq"} - {s["family"] for s in stest}
        if missing:
            raise InfraError(f"self-test found no accepted event to corrupt for {sorted(missing)}")
        for s in stest:
            if not s["rejected"]:
                raise InfraError(f"self-test failed: the monitor accepted a corrupted trace ({s['corruption']})")
        tm["selftest"] = round(time.time() - t_, 1)
        nobs = 0
        nsplits = 0
        kinds = {}
        for tr in traces + tr_q:
            with open(tr) as fh:
                for ln in fh:
                    m = re.match(r'\{"[a-z]+":', ln)
                    k = re.search(r'"k":"([a-z]+)"', ln)
                    if k:
                        kinds[k.group(1)] = kinds.get(k.group(1), 0) + 1
                    if '"k":"endparse"' in ln:
                        e = json.loads(ln)
                        nsplits += e["splits"]
                        nobs += e["distinct"]
        design = [st_w, st_rq, st_rs, st_pq, st_ps, st_dq, st_ds]
        distinct = len({json.dumps({k: sc[k] for k in sc if k not in ("id", "src", "name", "seed")}, sort_keys=True) for sc in scs + parse_scs + srv_scs + seq_scs})
        if seq_models is not None:
            design = design + [{"distinct": seq_models["states"], "generated": seq_models["transitions"]}]
        out.coverage = {
            "states": sum(s["distinct"] for s in design), "transitions": sum(s["generated"] for s in design),
            "traces_validated_against_impl": len(scs) + len(parse_scs) + len(srv_scs) + len(seq_scs),
            "samples": [classify_sample(sc) for sc in (scs[:1] + [s for s in scs if s["k"] == "text"][:1] + parse_scs[:2] +
                                                       [s for s in parse_scs if s["name"].startswith("lock-cmd")][:1])],
            "exhaustive": False,
            "models": [
                {"module": "spec/WireMC.tla", "what": "20 frame layouts x every field x 6 boundary values x 2 fills x 3 paddings; WellFormed, ReadmeOffsets (ASSUME), Decode/Encode inverse",
                 "states": st_w["distinct"], "wall_s": round(wall_w, 1)},
                {"module": "spec/RespParserMC.tla", "mode": "req", "constants": p_rq, "invariants": ["RefRoundTrip", "ChunkingIndependent", "RoundTrip"],
                 "states": st_rq["distinct"], "transitions": st_rq["generated"], "wall_s": round(wall_rq, 1)},
                {"module": "spec/RespParserMC.tla", "mode": "resp", "constants": p_rs, "invariants": ["RefRoundTrip", "ChunkingIndependent", "RoundTrip"],
                 "states": st_rs["distinct"], "transitions": st_rs["generated"], "wall_s": round(wall_rs, 1)},
                {"module": "spec/RespParserMC.tla", "mode": "req+resp pipelined pairs", "states": st_pq["distinct"] + st_ps["distinct"],
                 "transitions": st_pq["generated"] + st_ps["generated"], "wall_s": round(wall_pq + wall_ps, 1)},
                {"module": "spec/RespParserMC.tla", "mode": "deviations A9/A19 switched on (counterexample generator)",
                 "counterexamples_found": len(cex_q) + len(cex_s), "replayed_on_real_parser": len(cexs),
                 "states": st_dq["distinct"] + st_ds["distinct"], "wall_s": round(wall_dq + wall_ds, 1)},
            ],
            "sequences_on_one_connection": None if seq_models is None else {
                "models": seq_models["models"], "sequences_replayed": len(seq_scs),
                "by_source": {k: sum(1 for s in seq_scs if s["src"] == k) for k in sorted({s["src"] for s in seq_scs})},
                "with_text_connection": sum(1 for s in seq_scs if s["text"]), "measured": seq_cov,
                "model_prediction_divergences": len(LAST_MON["seqdiv"]), "model_prediction_divergence_samples": LAST_MON["seqdiv"][:3]},
            "tlc_valuations_replayed": len(vals),
            "scenarios_by_kind": {k: sum(1 for s in scs + parse_scs + srv_scs + seq_scs if s["k"] == k) for k in sorted({s["k"] for s in scs + parse_scs + srv_scs + seq_scs})},
            "events_by_kind": kinds,
            "text_streams": len(parse_scs), "splits_executed_on_real_parser": nsplits, "distinct_prefix_observations_judged": nobs,
            "monitor": {"module": "spec/mon/MonWire.tla", "events": mst["events"], "monitor_states": mst["monitor_states"]},
            "selftest": stest, "phase_wall_s": tm,
            "agnostic_cases": LAST_MON["agnostic"] + LAST_MON["seq_agnostic"], "refinement_divergences": len(LAST_MON["refdiv"]),
            "refinement_divergence_samples": LAST_MON["refdiv"][:3],
            "evaluations": len(scs) + len(srv_scs) + nsplits + sum(len(s["steps"]) for s in seq_scs),
            "distinct_nontrivial": distinct,
            "rule": "one evaluation = one scenario executed on the real codec (for text streams: one split of the stream fed chunk by chunk) and judged by the TLA+ monitor; "
                    "for a sequence: one step replayed on the real connections; distinct = distinct scenario contents (ids, names and seeds ignored)",
        }
        out.assumptions = [
            "layouts of the ten frame types the README does not document are transcribed from the struct declarations in protocol/command.go",
            "a 64-byte input that is not the encoding of any value (NUL inside / in front of a NUL-padded string field, r_leader HostLen not matching Host) is outside the statement: agnostic",
            "an empty request list (*0), empty array / kv items and UNSET value frames that carry data are outside the statement: not generated",
            "sequences on one connection: requests are answered at once (TIMEOUT 0) on a clock that does not advance; a FLAG option stands before the value option "
            "(a FLAG behind it overwrites the 0x20 bit the value option set: not exercised); numbers stay below 2^31; a value that is not a payload of its own "
            "value type has no defined rendering (only the death of the serving loop is reported for it, known finding V13)",
            "MD5 is Python's hashlib, passed to the monitor as data; text option values stay below 2^31 (TLC integers), so the 0x8000 keeplive flag is not exercised in text form",
            "the text COUNT / RCOUNT options denote 'maximum number of locks' = binary Count / Rcount + 1 (README wording), taken as the definition of the equivalent binary command",
        ]
        return out
    finally:
        shutil.rmtree(wd, ignore_errors=True)

"""Sequence part of check C14 (see checks/wire.py; no PROPS here): requests in SEQUENCE on one text connection and one
binary connection of the real server, in lockstep.

  spec/WireSeq.tla   abstract engine + the connection's recycled result object; TLC
                       - proves FreshResult / WellFramed for every sequence of length Depth over the core alphabet and
                         prints each sequence ("SEQ"): exhaustive replay set,
                       - refutes them with a deviation switch on (KeepFlag / KeepData / KeepCounts): counterexamples
                         ("SEQCEX") = directed replay scripts, and the vacuity guard of the phase,
                       - draws long random sequences over the full text and binary alphabets (-simulate).
  this module        concretises letters (keys and ids of the three normalisation classes, option values, value bytes,
                     value frames with properties / key-value payloads for the binary-only letters, chunking)
  harness            harness/inpkg/server/zz_verif_wseq_test.go (TestVerifWireSeq) records, nothing judged there
  monitor            spec/mon/MonWire.tla StepSeq
"""
import json, os, hashlib
import vtlc
from vbuild import VERIF, InfraError

SPEC = os.path.join(VERIF, "spec")

def _cfg_tmpl():
    with open(os.path.join(SPEC, "mc", "WireSeq.cfg.tmpl")) as fh:
        return fh.read()

def _lines(out, tag):
    res = []
    for ln in out.splitlines():
        ln = ln.strip()
        if ln.startswith('"' + tag + ' '):
            try:
                res.append(json.loads(json.loads(ln)[len(tag) + 1:]))
            except Exception:
                pass
    return res

def _ok(r, what):
    st = vtlc.parse_stats(r["out"])
    if r["rc"] == -9:
        raise InfraError(f"TLC timed out on {what}")
    if st is None or "No error has been found" not in r["out"]:
        raise InfraError(f"{what}: TLC did not complete cleanly (design model, not a verdict on the code):\n" + r["out"][-3000:])
    return st

def run_exhaustive(wd, alpha, depth, tag, dev=None):
    """every sequence of length `depth` over the alphabet; dev = name of a deviation switch (counterexample run)"""
    p = dict(spec="Spec", alpha=alpha, depth=depth, keepflag="FALSE", keepdata="FALSE", keepcounts="FALSE",
             invs="TypeOK FreshResult WellFramed Export")
    if dev:
        p[dev] = "TRUE"
        p["invs"] = "TypeOK CexExport"
    r = vtlc.run_tlc(SPEC, "WireSeq", _cfg_tmpl() % p, os.path.join(wd, "wseq_" + tag), workers=1, timeout=900)
    st = _ok(r, f"WireSeq[{tag}]")
    seqs = _lines(r["out"], "SEQCEX" if dev else "SEQ")
    return {"tag": tag, "alpha": alpha, "depth": depth, "deviation": dev, "states": st["distinct"], "transitions": st["generated"],
            "wall_s": round(r["wall"], 1), "seqs": seqs}

def run_sim(wd, alpha, depth, num, seed, tag):
    p = dict(spec="SimSpec", alpha=alpha, depth=depth, keepflag="FALSE", keepdata="FALSE", keepcounts="FALSE",
             invs="TypeOK FreshResult WellFramed Export")
    r = vtlc.run_tlc(SPEC, "WireSeq", _cfg_tmpl() % p, os.path.join(wd, "wseq_" + tag), workers=1, timeout=900,
                     simulate=f"num={num}", depth=depth + 2, seed=seed)
    if r["rc"] == -9:
        raise InfraError(f"TLC timed out on WireSeq[{tag}]")
    seqs = _lines(r["out"], "SEQ")
    if "Error:" in r["out"] or len(seqs) < num // 2:
        raise InfraError(f"WireSeq[{tag}] simulation did not produce its behaviours:\n" + r["out"][-3000:])
    m = [ln for ln in r["out"].splitlines() if "states generated" in ln or "states checked" in ln]
    return {"tag": tag, "alpha": alpha, "depth": depth, "num": num, "wall_s": round(r["wall"], 1), "seqs": seqs[:num], "tlc": m[-1:] }

# ------------------------------------------------------------------ concretisation

def le(v, w):
    return [(v >> (8 * i)) & 0xff for i in range(w)]

def value_frame(data, ctype=0, stage=0, flag=0, props=None):
    body = [(stage << 6) | ctype, flag | (0x10 if props is not None else 0)]
    if props is not None:
        pb = []
        for code, val in props:
            pb += [code] + le(len(val), 2) + list(val)
        body += le(len(pb), 2) + pb
    body += list(data)
    return le(len(body), 4) + body

def norm(s):
    s = bytes(s)
    if len(s) <= 16:
        return [0] * (16 - len(s)) + list(s)
    if len(s) == 32:
        try:
            return list(bytes.fromhex(s.decode("ascii")))
        except Exception:
            pass
    return list(hashlib.md5(s).digest())

def bs(s):
    return list(s.encode() if isinstance(s, str) else s)

# databases: role -> {model db -> id}; "nodb" ids are never created by anybody, 255 is the reserved "no such database"
DB = {"text": {"main": 0, "alt": 3, "nodb": 200, "bad": 255},
      "bin":  {"main": 1, "alt": 4, "nodb": 201, "bad": 255},
      "twin": {"main": 2, "alt": 5, "nodb": -1, "bad": -1}}
CREATE = [0, 1, 2, 3, 4, 5]

def name_of(rng, style, what, uid):
    """a key / id STRING of one of the three documented normalisation classes, unique per scenario"""
    if style == "short":
        return ("%s%d" % (what, uid))[:16]
    if style == "hex":
        return hashlib.md5(("%s-%d-hex" % (what, uid)).encode()).hexdigest() if rng.random() < 0.8 else \
            hashlib.md5(("%s-%d-hex" % (what, uid)).encode()).hexdigest().upper()
    return "%s:%d:%s" % (what, uid, "z" * rng.randint(10, 30))        # longer than 16, not 32 hex -> MD5

def rand_text(rng, lo=1, hi=24):
    n = rng.choice([lo, lo + 1, 3, 8, 16, hi, rng.randint(lo, hi)])
    return [rng.choice(b"abcdefghijklmnopqrstuvwxyzABCXYZ0123456789 _-:\r\n\x00\xff") for _ in range(n)]

def concretise(seq, rng, ids, md5_of, src, text=True):
    """one TLC sequence -> one scenario of TestVerifWireSeq"""
    uid = ids.next()
    kstyle = rng.choice(["short", "short", "md5", "hex"])
    istyle = rng.choice(["short", "short", "md5", "hex"])
    keys = {k: name_of(rng, kstyle, k, uid) for k in ("k1", "k2")}
    lids = {i: name_of(rng, istyle, "id" + i, uid) for i in ("a", "b")}
    lower = rng.random() < 0.15
    cutty = rng.random() < 0.25
    steps = []
    for st in seq["steps"]:
        l = st["l"]
        op, key, lid, dop, db = l["op"], l["key"], l["lid"], l["dop"], l["db"]
        step = {"l": l, "pred": st["r"], "tdb": DB["text"][db], "bdb": DB["bin"][db], "wdb": DB["twin"][db]}
        if op == "get":
            a = [bs(rng.choice(["GET", "get", "STRLEN", "EXISTS", "TYPE"]) if rng.random() < 0.5 else "GET"), bs(keys[key])]
            step.update(args=a, md5s=[md5_of(x) for x in a], tcuts=[], kb=norm(bs(keys[key])))
            steps.append(step)
            continue
        cap, rc = (2, 2) if key == "k2" else (1, 1)
        word = "LOCK" if op == "lock" else "UNLOCK"
        to = 0
        ex = rng.choice([3, 30, 120, 600, 3600, 65535])
        flag = 0
        opts = [("LOCK_ID", lids[lid]), ("TIMEOUT", str(to))]
        if op == "lock" or rng.random() < 0.5:
            opts.append(("EXPRIED", str(ex)))
        else:
            ex = 120            # text default
        if cap > 1 or rng.random() < 0.4:
            opts.append(("COUNT", str(cap)))
        if rc > 1 or rng.random() < 0.4:
            opts.append(("RCOUNT", str(rc)))
        if rng.random() < 0.3:
            opts.append(("FLAG", "0"))
        rng.shuffle(opts)
        data = []
        textable = True
        if dop == "set":
            v = rand_text(rng)
            opts.append(("SET", v)); data = value_frame(v, 0)
        elif dop == "append":
            v = rand_text(rng)
            opts.append(("APPEND", v)); data = value_frame(v, 3)
        elif dop == "push":
            v = rand_text(rng)
            opts.append(("PUSH", v)); data = value_frame(v, 7)
        elif dop == "unset":
            opts.append(("UNSET", "1")); data = value_frame([], 1)
        elif dop == "incr":
            n = rng.choice([1, 2, 7, 255, 256, 65536, 1000000])
            opts.append(("INCR", str(n))); data = value_frame(le(n, 8), 2, flag=1)
        elif dop == "setp":
            textable = False
            props = [(rng.choice([1, 2, 200]), [rng.randint(0, 255) for _ in range(rng.choice([0, 1, 5, 40]))]) for _ in range(rng.choice([0, 1, 2]))]
            data = value_frame(rand_text(rng), 0, props=props)
        elif dop == "setkv":
            textable = False
            items = []
            for _ in range(rng.choice([1, 1, 2])):
                k_, v_ = rand_text(rng, 1, 8), rand_text(rng, 1, 12)
                items += le(len(k_), 4) + k_ + le(len(v_), 4) + v_
            data = value_frame(items, 0, flag=4)
        if data:
            flag |= 0x20
        if textable:
            a = [word, keys[key]]
            for k_, v_ in opts:
                a += [k_, v_]
            a = [bs(x) for x in a]
            if lower:
                a = [bs(bytes(x).decode("latin1").lower()) if (j % 2 == 0 and j != 1) else x for j, x in enumerate(a)]
            raw_len = len(b"*%d\r\n" % len(a)) + sum(len(b"$%d\r\n" % len(x)) + len(x) + 2 for x in a)
            tcuts = sorted({rng.randint(1, raw_len - 1) for _ in range(rng.choice([1, 1, 2, 3]))}) if cutty and rng.random() < 0.6 else []
            step.update(args=a, md5s=[md5_of(x) for x in a], tcuts=tcuts)
        rid = [rng.randint(0, 255) for _ in range(16)]
        frame = [0x56, 1, 1 if op == "lock" else 2] + rid + [flag, 0] + norm(bs(lids[lid])) + norm(bs(keys[key])) + \
            le(to & 0xffff, 2) + le((to >> 16) & 0xffff, 2) + le(ex & 0xffff, 2) + le((ex >> 16) & 0xffff, 2) + le(cap - 1, 2) + [rc - 1]
        bcuts = sorted({rng.randint(1, 63 + len(data)) for _ in range(rng.choice([1, 2]))}) if cutty and rng.random() < 0.5 else []
        step.update(b=frame, data=data, bcuts=bcuts)
        steps.append(step)
    has_text = text and all("args" in s for s in steps)
    if not has_text:
        steps = [s for s in steps if "b" in s]        # a read in between has no binary form
    # how the driver orders itself behind the serving loops between two requests: by the first byte of the next request
    # (no command in between) or by a round trip (PING / SELECT: their replies pass through the connection's reply buffer)
    barrier = "roundtrip" if rng.random() < 0.2 else "nextbyte"
    return {"k": "seq", "id": uid, "name": f"{src}-{uid}", "src": src, "text": has_text, "barrier": barrier, "dbs": CREATE, "steps": steps}

# ------------------------------------------------------------------ generation for one run

def run_models(wd, quick, seed):
    """the TLC runs of the phase (independent of each other: in parallel)"""
    import concurrent.futures as cf
    jobs = {}
    with cf.ThreadPoolExecutor(max_workers=8) as ex:
        jobs["core"] = ex.submit(run_exhaustive, wd, "core", 3 if quick else 4, "core")
        jobs["binonly"] = ex.submit(run_exhaustive, wd, "binonly", 3 if quick else 4, "binonly")
        jobs["valops"] = ex.submit(run_exhaustive, wd, "valops", 3 if quick else 4, "valops")
        for dev in DEVS:
            jobs[dev] = ex.submit(run_exhaustive, wd, "core", 3, dev, dev)
        jobs["simtext"] = ex.submit(run_sim, wd, "text", 10 if quick else 14, 150 if quick else 1000, seed * 7 + 1, "simtext")
        jobs["simbin"] = ex.submit(run_sim, wd, "bin", 10 if quick else 14, 60 if quick else 400, seed * 7 + 2, "simbin")
        return {k: f.result() for k, f in jobs.items()}

DEVS = ("keepflag", "keepdata", "keepcounts")
SIZES = {"core": 12, "valops": 8, "binonly": 6}          # sizes of the two explicit alphabets of spec/WireSeq.tla

def build_scenarios(res, rng, ids, md5_of, quick):
    """-> (scenarios, model evidence)"""
    scs = []
    for k, n in SIZES.items():
        want = n ** res[k]["depth"]
        if len(res[k]["seqs"]) != want:
            raise InfraError(f"WireSeq {k}: {len(res[k]['seqs'])} sequences exported, expected {want}")
    for s in res["core"]["seqs"]:
        scs.append(concretise(s, rng, ids, md5_of, "tlc-core"))
    for s in res["valops"]["seqs"]:
        scs.append(concretise(s, rng, ids, md5_of, "tlc-valops"))
    for s in res["binonly"]["seqs"]:
        scs.append(concretise(s, rng, ids, md5_of, "tlc-binonly", text=False))
    with open(os.path.join(VERIF, "scenarios", "wire_directed.json")) as fh:
        for d in json.load(fh)["sequences"]:
            sc = concretise(d, rng, ids, md5_of, "directed")
            sc["name"] = d["name"]
            scs.append(sc)
    ncex = {}
    for dev in DEVS:
        cex = res[dev]["seqs"]
        if not cex:
            raise InfraError(f"WireSeq with deviation {dev}: TLC found no counterexample (the phase would be vacuous)")
        cex.sort(key=lambda c: json.dumps(c, sort_keys=True))
        rng.shuffle(cex)
        ncex[dev] = len(cex)
        for s in cex[:10 if quick else 60]:
            scs.append(concretise(s, rng, ids, md5_of, "tlc-cex-" + dev))
    for s in res["simtext"]["seqs"]:
        scs.append(concretise(s, rng, ids, md5_of, "tlc-sim-text"))
    for s in res["simbin"]["seqs"]:
        scs.append(concretise(s, rng, ids, md5_of, "tlc-sim-bin", text=False))
    models = []
    for k in ("core", "valops", "binonly"):
        r = res[k]
        models.append({"module": "spec/WireSeq.tla", "config": f"alphabet {r['alpha']}, every sequence of length {r['depth']}",
                       "invariants": ["TypeOK", "FreshResult", "WellFramed"], "states": r["states"], "transitions": r["transitions"],
                       "sequences_exported": len(r["seqs"]), "wall_s": r["wall_s"]})
    for dev in DEVS:
        r = res[dev]
        models.append({"module": "spec/WireSeq.tla", "config": f"deviation {dev} switched on (counterexample generator, vacuity guard)",
                       "counterexamples_found": ncex[dev], "replayed": min(ncex[dev], 10 if quick else 60), "states": r["states"], "wall_s": r["wall_s"]})
    for k in ("simtext", "simbin"):
        r = res[k]
        models.append({"module": "spec/WireSeq.tla", "config": f"-simulate, alphabet {r['alpha']}, length {r['depth']}",
                       "behaviours": len(r["seqs"]), "wall_s": r["wall_s"]})
    states = sum(res[k]["states"] for k in ("core", "valops", "binonly") + DEVS)
    trans = sum(res[k]["transitions"] for k in ("core", "valops", "binonly") + DEVS)
    return scs, {"models": models, "states": states, "transitions": trans}

# ------------------------------------------------------------------ measured coverage of the recorded steps

def coverage(traces):
    """what the REAL connections answered: shapes, and transitions between consecutive results of one connection"""
    shapes, trans = {}, {}
    n_steps = n_text = n_data_then_nodata_text = n_data_then_nodata_bin = 0
    longest = 0
    kinds = {}
    for tr in traces:
        prev = None
        with open(tr) as fh:
            for ln in fh:
                if '"k":"seq"' not in ln:
                    continue
                e = json.loads(ln)
                n_steps += 1
                if e["step"] == 0:
                    prev = None
                longest = max(longest, e["step"] + 1)
                if e["hastext"]:
                    n_text += 1
                if not e["hasbin"] or len(e["brb"]) != 64:
                    continue
                rb = e["brb"]
                has = bool(rb[20] & 0x20)
                vk = "none"
                if has and len(e["brdata"]) >= 6:
                    fl, ct = e["brdata"][5], e["brdata"][4] & 0x3f
                    vk = "unset" if ct == 1 else "num" if fl & 1 else "arr" if fl & 2 else "kv" if fl & 4 else "str"
                    if fl & 0x10:
                        vk += "+props"
                kinds[vk] = kinds.get(vk, 0) + 1
                sh = (rb[2], rb[19], vk, rb[54] | rb[55] << 8, rb[58])
                shapes[sh] = shapes.get(sh, 0) + 1
                if prev is not None:
                    trans[(prev, sh)] = trans.get((prev, sh), 0) + 1
                    if prev[2] != "none" and vk == "none":
                        n_data_then_nodata_bin += 1
                        if e["hastext"]:
                            n_data_then_nodata_text += 1
                prev = sh
    return {"steps_recorded": n_steps, "steps_on_a_text_connection": n_text, "longest_sequence": longest,
            "distinct_result_shapes_seen": len(shapes), "distinct_shape_transitions_seen": len(trans),
            "result_codes_seen": sorted({s[1] for s in shapes}), "value_kinds_seen": kinds,
            "max_lcount_seen": max([s[3] for s in shapes] or [0]), "max_lrcount_seen": max([s[4] for s in shapes] or [0]),
            "transitions_value_then_no_value_text": n_data_then_nodata_text, "transitions_value_then_no_value_binary": n_data_then_nodata_bin}
